(* C23 — the case language of the differential tie: a fixed menu of user functions (the same
   lambdas are written out in drivers/C23.cpp) and, for every public operation the check
   exercises, its meaning through Model.v (tiles, blocks, return buffer) and through Spec.v
   (sequential std:: computation).  The lambda -> OKL conversion itself is exercised by the tie,
   not modelled.  No proofs in this file. *)
From Coq Require Import List ZArith Bool Lia.
From OV.C23 Require Import Model Spec.
Import ListNotations.
Local Open Scope Z_scope.

Definition nthz (xs : list Z) (i : Z) : Z := nth (Z.to_nat i) xs 0.
Definition zlen (xs : list Z) : Z := Z.of_nat (length xs).
Definition b2z (b : bool) : Z := if b then 1 else 0.
Definition nz (a : Z) : bool := negb (a =? 0).

(* ---- predicates: (value, index, values) -> bool ---- *)
Inductive pred : Type :=
| PValEq (c : Z)     (* [=](const T &v) { return v == c; } *)
| PValLt (c : Z)     (* [=](const T &v) { return v < c; } *)
| PIdxEq (k : Z)     (* [=](const T &v, const int i) { return i == k; } *)
| PPtrEq (c : Z)     (* [=](const T &v, const int i, const T *vals) { return vals[i] == c; } *)
| PMod3 (c : Z).     (* [=](const T &v, const int i) { return ((v + i) % 3) == c; } ; ranges: v % 3 *)

Definition eval_pred (p : pred) (xs : list Z) (v i : Z) : bool :=
  match p with
  | PValEq c => v =? c
  | PValLt c => v <? c
  | PIdxEq k => i =? k
  | PPtrEq c => nthz xs i =? c
  | PMod3 c => Z.rem (v + i) 3 =? c
  end.

(* ---- map functions ---- *)
Inductive mapf : Type :=
| MLin (a b : Z)     (* (v) -> a * v + b *)
| MIdx (a b : Z)     (* (v, i) -> a * v + b * i *)
| MNext.             (* (v, i, vals) -> vals[(i + 1) % size] - v *)

Definition eval_map (g : mapf) (xs : list Z) (v i : Z) : Z :=
  match g with
  | MLin a b => a * v + b
  | MIdx a b => a * v + b * i
  | MNext => nthz xs (Z.rem (i + 1) (zlen xs)) - v
  end.

(* ---- reductions ---- *)
Inductive rkind : Type := KSum | KMul | KBor | KBand | KBxor | KLor | KLand | KMin | KMax.

(* buildLocalReductionOperation / hostReduction *)
Definition host_op (k : rkind) (a b : Z) : Z :=
  match k with
  | KSum => a + b
  | KMul => a * b
  | KBor => Z.lor a b
  | KBand => Z.land a b
  | KBxor => Z.lxor a b
  | KLor => b2z (nz a || nz b)
  | KLand => b2z (nz a && nz b)
  | KMin => if a <? b then a else b
  | KMax => if b <? a then a else b
  end.

(* the menu's reduction function of kind k applied to (acc, w); c: captured constant of KLor/KLand
     sum  acc + w                      mul  acc * (1 - 2 * (w & 1))
     bor  acc | (w & 255)              band acc & (w | 85)            bxor acc ^ w
     lor  acc || (w == c)              land acc && (w < c)
     min  acc < w ? acc : w            max  acc > w ? acc : w                              *)
Definition red_fn (k : rkind) (c : Z) (acc w : Z) : Z :=
  match k with
  | KSum => acc + w
  | KMul => acc * (1 - 2 * Z.land w 1)
  | KBor => Z.lor acc (Z.land w 255)
  | KBand => Z.land acc (Z.lor w 85)
  | KBxor => Z.lxor acc w
  | KLor => b2z (nz acc || (w =? c))
  | KLand => b2z (nz acc && (w <? c))
  | KMin => if acc <? w then acc else w
  | KMax => if w <? acc then acc else w
  end.

(* arity 2: (acc, v) -> F(acc, v); arity 3: (acc, v, i) -> F(acc, v + i);
   arity 4: (acc, v, i, vals) -> F(acc, vals[i]) *)
Definition red_arg (arity : Z) (xs : list Z) (v i : Z) : Z :=
  if arity =? 3 then v + i else if arity =? 4 then nthz xs i else v.

(* sizeof(T2): long for sum/mul, bool for lor/land, int otherwise *)
Definition red_elem (k : rkind) : Z :=
  match k with KSum | KMul => 8 | KLor | KLand => 1 | _ => 4 end.
(* conversion of element 0 to T2 (bool for lor/land) *)
Definition to_T2 (k : rkind) (x : Z) : Z :=
  match k with KLor | KLand => b2z (nz x) | _ => x end.

(* buildReductionInitValue; first = occa_array_ptr[0] / occa_range_start *)
Definition default_init (k : rkind) (first : Z) : Z :=
  match k with
  | KSum | KBor | KBxor | KLor => 0
  | KMul => 1
  | KBand | KLand | KMin | KMax => to_T2 k first
  end.
Definition has_identity (k : rkind) : bool :=
  match k with KSum | KBor | KBxor | KLor | KMul => true | _ => false end.

Inductive obs : Type :=
| OZ (z : Z)
| OL (l : list Z)
| OCrash
| ODiverge
| OErr.          (* occa::exception *)

Definition obs_b (r : res bool) : obs :=
  match r with Ok b => OZ (b2z b) | Crash => OCrash | Diverge => ODiverge end.
Definition obs_z (r : res Z) : obs :=
  match r with Ok z => OZ z | Crash => OCrash | Diverge => ODiverge end.
Definition obs_l (r : res (list Z)) : obs :=
  match r with Ok l => OL l | Crash => OCrash | Diverge => ODiverge end.

(* ---------------------------------------------------------------- arrays *)
Inductive aop : Type :=
| AEvery (p : pred) | ASome (p : pred) | AFind (p : pred)
| ACount                                   (* forEach: counts[i] += 1 *)
| AMap (g : mapf)
| AMapTo (g : mapf) (m : Z)                (* into an array of m entries holding -99 *)
| AReduce (k : rkind) (arity c : Z)
| AReduceInit (k : rkind) (c init : Z)     (* arity 2, localInit *)
| AMax | AMin
| AIndexOf (c : Z) | ALastIndexOf (c : Z) | AIncludes (c : Z)
| ADot (other : list Z)
| AClamp (lo hi : Z) | AClampMin (lo : Z) | AClampMax (hi : Z)
| AReverse
| AShiftL (k e : Z) | AShiftR (k e : Z)
| ACast
| AFill (c : Z)                            (* in place *)
| ASlice (o c : Z)                         (* the array becomes its slice, same tile setting *)
| AConcat (o c : Z)                        (* concat(this, this.slice(o, c)) *)
| ALen.

Record astate : Type := mkA {
  a_xs : list Z;
  a_ts : Z; a_ti : Z;          (* tileSize, tileIterations members *)
  a_esz : Z;                   (* sizeof(T) *)
  a_rb : retbuf
}.

(* setTileSize(ts, ti): members change only for positive arguments *)
Definition set_tile (ts ti : Z) : Z * Z :=
  (if 0 <? ts then ts else -1, if 0 <? ti then ti else -1).

Definition slice_ok (n o c : Z) : bool :=
  (0 <=? o) && (-1 <=? c) && (if c =? -1 then o <=? n else o + c <=? n).
Definition do_slice (xs : list Z) (o c : Z) : list Z :=
  let rest := skipn (Z.to_nat o) xs in
  if c =? -1 then rest else firstn (Z.to_nat c) rest.

Section ArrayModel.
  Variable v : variant.
  Definition junk : Z := -777.       (* content of freshly allocated device memory *)
  Definition stale : Z := -778.      (* content of return-buffer entries no block wrote *)

  Definition guard (n : Z) : bool := v_empty_guard v && (n =? 0).

  (* setupReturnMemory of every (bool) / findIndex (int) *)
  Definition rb_scalar (st : astate) (elem : Z) : retbuf :=
    if guard (zlen (a_xs st)) then a_rb st else setup_ret v (a_rb st) elem 1.

  Definition with_rb (st : astate) (rb : retbuf) : astate :=
    mkA (a_xs st) (a_ts st) (a_ti st) (a_esz st) rb.
  Definition with_xs (st : astate) (xs : list Z) : astate :=
    mkA xs (a_ts st) (a_ti st) (a_esz st) (a_rb st).

  Definition a_map (st : astate) (g : Z -> Z -> Z) : obs :=
    let xs := a_xs st in
    obs_l (m_map v (a_ts st) (a_ti st) (zlen xs) (fun i => g (nthz xs i) i) junk).

  (* typelessReduce on the CPU modes *)
  Definition a_reduce (st : astate) (elem : Z) (f : Z -> Z -> Z) (op : Z -> Z -> Z)
             (use_init : bool) (k : rkind) (init : Z) : astate * obs :=
    let n := zlen (a_xs st) in
    if guard n then
      (st, if use_init then OZ init
           else if has_identity k then OZ (default_init k 0) else OErr)
    else
      let '(rb, r) := cpu_reduce v (a_rb st) elem f op init n stale in
      (with_rb st rb, OZ r).

  Definition model_aop (st : astate) (op : aop) : astate * obs :=
    let xs := a_xs st in
    let n := zlen xs in
    let ts := a_ts st in let ti := a_ti st in
    match op with
    | AEvery p =>
        (with_rb st (rb_scalar st 1),
         obs_b (m_every v ts ti n (fun i => eval_pred p xs (nthz xs i) i)))
    | ASome p =>
        (with_rb st (rb_scalar st 4),
         obs_b (m_some v ts ti n (fun i => eval_pred p xs (nthz xs i) i)))
    | AFind p =>
        (with_rb st (rb_scalar st 4),
         obs_z (m_findIndex v ts ti n (fun i => eval_pred p xs (nthz xs i) i)))
    | AIncludes c =>
        (with_rb st (rb_scalar st 4),
         obs_b (m_some v ts ti n (fun i => nthz xs i =? c)))
    | ACount => (st, obs_l (m_counts v ts ti n))
    | AMap g => (st, a_map st (eval_map g xs))
    | AMapTo g m =>
        (* output.resize(length()): a new allocation unless the lengths agree; the old
           content is copied over its first min(m, n) entries *)
        let out := if m =? n then repeat (-99) (Z.to_nat n)
                   else firstn (Z.to_nat n) (repeat (-99) (Z.to_nat m))
                        ++ repeat junk (Z.to_nat (n - m)) in
        (st, obs_l (m_mapTo v ts ti n (fun i => eval_map g xs (nthz xs i) i) out))
    | AReduce k arity c =>
        a_reduce st (red_elem k) (fun acc i => red_fn k c acc (red_arg arity xs (nthz xs i) i))
                 (host_op k) false k (default_init k (nthz xs 0))
    | AReduceInit k c init =>
        a_reduce st (red_elem k) (fun acc i => red_fn k c acc (nthz xs i))
                 (host_op k) true k init
    | AMax =>
        a_reduce st (a_esz st) (fun acc i => if nthz xs i <? acc then acc else nthz xs i)
                 (host_op KMax) false KMax (nthz xs 0)
    | AMin =>
        a_reduce st (a_esz st) (fun acc i => if acc <? nthz xs i then acc else nthz xs i)
                 (host_op KMin) false KMin (nthz xs 0)
    | AIndexOf c =>
        let '(st', o) :=
          a_reduce st 4 (fun acc i => if negb (nthz xs i =? c) || (acc <=? i) then acc else i)
                   (host_op KMin) true KMin n in
        (st', match o with OZ r => OZ (if r <? n then r else -1) | _ => o end)
    | ALastIndexOf c =>
        a_reduce st 4 (fun acc i => if negb (nthz xs i =? c) || (i <=? acc) then acc else i)
                 (host_op KMax) true KMax (-1)
    | ADot other =>
        a_reduce st (a_esz st) (fun acc i => acc + nthz xs i * nthz other i)
                 (host_op KSum) false KSum 0
    | AClamp lo hi =>
        (st, a_map st (fun x _ => let y := if hi <? x then hi else x in if y <? lo then lo else y))
    | AClampMin lo => (st, a_map st (fun x _ => if x <? lo then lo else x))
    | AClampMax hi => (st, a_map st (fun x _ => if hi <? x then hi else x))
    | AReverse => (st, a_map st (fun _ i => nthz xs (n - i - 1)))
    | AShiftL k e =>
        (st, if k =? 0 then OL xs
             else a_map st (fun _ i => if i <? n - k then nthz xs (i + k) else e))
    | AShiftR k e =>
        (st, if k =? 0 then OL xs
             else a_map st (fun _ i => if k <=? i then nthz xs (i - k) else e))
    | ACast => (st, a_map st (fun x _ => x))
    | AFill c =>
        (* mapTo<T> onto the array itself: the output is the array *)
        match m_mapTo v ts ti n (fun _ => c) xs with
        | Ok l => (with_xs st l, OL l)
        | Crash => (st, OCrash)
        | Diverge => (st, ODiverge)
        end
    | ASlice o c =>
        if slice_ok n o c
        then let ys := do_slice xs o c in
             let '(ts', ti') := set_tile ts ti in
             (mkA ys ts' ti' (a_esz st) rb_none, OL ys)
        else (st, OErr)
    | AConcat o c =>
        if slice_ok n o c then (st, OL (xs ++ do_slice xs o c)) else (st, OErr)
    | ALen => (st, OZ n)
    end.
End ArrayModel.

(* the same operations as sequential computations over the list *)
Definition spec_aop (xs : list Z) (op : aop) : list Z * obs :=
  let n := zlen xs in
  match op with
  | AEvery p => (xs, OZ (b2z (s_every (eval_pred p xs) xs)))
  | ASome p => (xs, OZ (b2z (s_some (eval_pred p xs) xs)))
  | AFind p => (xs, OZ (s_findIndex (eval_pred p xs) xs))
  | AIncludes c => (xs, OZ (b2z (existsb (fun x => x =? c) xs)))
  | ACount => (xs, OL (s_counts xs))
  | AMap g => (xs, OL (s_map (eval_map g xs) xs))
  | AMapTo g m => (xs, OL (s_map (eval_map g xs) xs))
  | AReduce k arity c =>
      (xs, if (n =? 0) && negb (has_identity k) then OErr
           else OZ (s_reduce (fun acc x i => red_fn k c acc (red_arg arity xs x i))
                             (default_init k (nthz xs 0)) xs))
  | AReduceInit k c init =>
      (xs, OZ (s_reduce (fun acc x _ => red_fn k c acc x) init xs))
  | AMax =>
      (xs, match xs with [] => OErr | x :: t => OZ (fold_left Z.max t x) end)
  | AMin =>
      (xs, match xs with [] => OErr | x :: t => OZ (fold_left Z.min t x) end)
  | AIndexOf c => (xs, OZ (s_findIndex (fun x _ => x =? c) xs))
  | ALastIndexOf c =>
      (xs, OZ (s_reduce (fun acc x i => if x =? c then i else acc) (-1) xs))
  | ADot other => (xs, OZ (fold_left Z.add (map (fun ab => fst ab * snd ab) (combine xs other)) 0))
  | AClamp lo hi => (xs, OL (map (fun x => Z.max lo (Z.min hi x)) xs))
  | AClampMin lo => (xs, OL (map (Z.max lo) xs))
  | AClampMax hi => (xs, OL (map (Z.min hi) xs))
  | AReverse => (xs, OL (rev xs))
  | AShiftL k e =>
      (xs, OL (firstn (length xs) (skipn (Z.to_nat k) xs ++ repeat e (Z.to_nat k))))
  | AShiftR k e =>
      (xs, OL (firstn (length xs) (repeat e (Z.to_nat k) ++ xs)))
  | ACast => (xs, OL xs)
  | AFill c => let l := map (fun _ => c) xs in (l, OL l)
  | ASlice o c =>
      if slice_ok n o c then let ys := do_slice xs o c in (ys, OL ys) else (xs, OErr)
  | AConcat o c =>
      if slice_ok n o c then (xs, OL (xs ++ do_slice xs o c)) else (xs, OErr)
  | ALen => (xs, OZ n)
  end.

(* ---------------------------------------------------------------- ranges *)
Inductive rop : Type :=
| REvery (p : pred) | RSome (p : pred) | RFind (p : pred)
| RCount                                   (* forEach: the values the body ran for *)
| RMap (a b : Z)                           (* x -> a * x + b *)
| RToArray
| RReduce (k : rkind) (c : Z)
| RReduceInit (k : rkind) (c init : Z)
| RLen.

Section RangeModel.
  Variable v : variant.

  Definition model_rop (r : range) (ts ti : Z) (rb : retbuf) (op : rop) : retbuf * obs :=
    let n := range_length r in
    let val := range_value r in
    let g := v_empty_guard v && (n =? 0) in
    let rbs := fun elem => if g then rb else setup_ret v rb elem 1 in
    let red := fun (k : rkind) (f : Z -> Z -> Z) (use_init : bool) (init : Z) =>
      if g then (rb, if use_init then OZ init
                     else if has_identity k then OZ (default_init k 0) else OErr)
      else let '(rb', x) := cpu_reduce v rb (red_elem k) f (host_op k) init n (-778) in
           (rb', OZ x) in
    match op with
    | REvery p => (rbs 1, obs_b (m_every v ts ti n (fun i => eval_pred p [] (val i) 0)))
    | RSome p => (rbs 4, obs_b (m_some v ts ti n (fun i => eval_pred p [] (val i) 0)))
    | RFind p => (rbs 4, obs_z (m_findIndex v ts ti n (fun i => eval_pred p [] (val i) 0)))
    | RCount => (rb, obs_l (res_map (map val) (map_engine v ts ti n)))
    | RMap a b => (rb, obs_l (m_map v ts ti n (fun i => a * val i + b) (-777)))
    | RToArray => (rb, obs_l (m_map v ts ti n val (-777)))
    | RReduce k c =>
        red k (fun acc i => red_fn k c acc (val i)) false (default_init k (r_start r))
    | RReduceInit k c init =>
        red k (fun acc i => red_fn k c acc (val i)) true init
    | RLen => (rb, OZ n)
    end.
End RangeModel.

Definition spec_rop (r : range) (op : rop) : obs :=
  let xs := s_range_values (r_start r) (r_end r) (r_step r) in
  match op with
  | REvery p => OZ (b2z (forallb (fun x => eval_pred p [] x 0) xs))
  | RSome p => OZ (b2z (existsb (fun x => eval_pred p [] x 0) xs))
  | RFind p => OZ (s_findIndex (fun x _ => eval_pred p [] x 0) xs)
  | RCount => OL xs
  | RMap a b => OL (map (fun x => a * x + b) xs)
  | RToArray => OL xs
  | RReduce k c =>
      if (zlen xs =? 0) && negb (has_identity k) then OErr
      else OZ (fold_left (red_fn k c) xs (default_init k (r_start r)))
  | RReduceInit k c init => OZ (fold_left (red_fn k c) xs init)
  | RLen => OZ (zlen xs)
  end.

(* ---------------------------------------------------------------- forLoop *)
(* observation: how often the body ran for every tuple, as the list of executed tuples sorted by
   the driver; here: the executed tuples in model order and the required tuples *)
Definition model_forloop (v : variant) (outer inner : list iter) : res (list (list Z)) :=
  forloop_tuples v outer inner.

Definition spec_iter_values (it : iter) : list Z :=
  match it with
  | IRange r _ => s_range_values (r_start r) (r_end r) (r_step r)
  | IArray idx _ => idx
  end.
Definition spec_forloop (outer inner : list iter) : list (list Z) :=
  s_tuples (map spec_iter_values (outer ++ inner)).
