(* Extraction of the executable model, the specification and the case-language interpreters
   (ExtrOcamlBasic only; Z stays the extracted inductive).  coqc runs from /verif/coq. *)
From Coq Require Import Extraction ExtrOcamlBasic.
From OV.C23 Require Import Model Spec Menu.
Extraction Language OCaml.
Extraction "../_work/extract/C23/model.ml"
  fixed pinned mkVariant
  model_aop spec_aop mkA rb_none set_tile
  range1 range2 range3 model_rop spec_rop
  model_forloop spec_forloop.
