(* C09 — concurrent builds of the same kernel all succeed and agree.
   The model is C08's (coq/C08/Model.v): N processes over one file system, any interleaving of
   their micro-steps (isFile tests are steps of their own).  Only statements here. *)
From Coq Require Import List NArith Bool Arith.
From OV.C08 Require Import Model Statements Proofs.
Import ListNotations.
Local Open Scope N_scope.

(* Under every schedule, no completion-tested path ever holds a partial file: whatever a reader
   opens under a final name is a complete file or does not exist. *)
Theorem every_reader_sees_complete_or_absent : forall owner cfgs s0 sched,
  finals_ok s0 -> fresh_temps owner cfgs s0 ->
  finals_ok (s_fs (sys_run {| s_fs := s0; s_procs := init_procs cfgs |} sched)).
Proof. exact Proofs.no_partial_final_any_schedule. Qed.
Print Assumptions every_reader_sees_complete_or_absent.

(* Whenever a process is about to load (dlopen) the binary, the binary is complete. *)
Theorem load_sees_complete : forall owner cfgs s0 sched i c b,
  finals_ok s0 -> fresh_temps owner cfgs s0 -> stages_bin cfgs ->
  let st := sys_run {| s_fs := s0; s_procs := init_procs cfgs |} sched in
  nth_error cfgs i = Some c ->
  nth_error (s_procs st) i = Some (PLoad b) ->
  lookup (F b) (s_fs st) = Complete.
Proof. exact Proofs.load_sees_complete. Qed.
Print Assumptions load_sees_complete.

(* Every process that gets scheduled fuel_for times finishes with a complete binary, for any
   number of processes and whatever the others do in between (no process fails or waits because
   of another process's in-progress build). *)
Theorem all_succeed : forall owner cfgs s0 sched j c,
  finals_ok s0 -> fresh_temps owner cfgs s0 -> stages_bin cfgs ->
  nth_error cfgs j = Some c ->
  (fuel_for (fst c) <= count_occ Nat.eq_dec sched j)%nat ->
  let st := sys_run {| s_fs := s0; s_procs := init_procs cfgs |} sched in
  nth_error (s_procs st) j = Some PDone /\ lookup (F (snd c)) (s_fs st) = Complete.
Proof. exact Proofs.all_succeed. Qed.
Print Assumptions all_succeed.

(* Afterwards a later build reuses the cache: it only reads the binary. *)
Theorem cache_reused : forall s st bin,
  lookup (F bin) s = Complete -> emitted s st bin = [ORead (F bin)].
Proof. exact Proofs.cache_reused. Qed.
Print Assumptions cache_reused.

Theorem binary_has_metadata : forall owner json bin cfgs s0 sched,
  finals_ok s0 -> fresh_temps owner cfgs s0 -> json_before_bin json bin cfgs ->
  (lookup (F bin) s0 = Complete -> lookup (F json) s0 = Complete) ->
  let st := sys_run {| s_fs := s0; s_procs := init_procs cfgs |} sched in
  lookup (F bin) (s_fs st) = Complete -> lookup (F json) (s_fs st) = Complete.
Proof. exact Proofs.binary_implies_metadata. Qed.
Print Assumptions binary_has_metadata.

(* A protocol with a shared (constant) temp name is NOT safe: two processes interleaved so that
   one renames the temp the other is still writing expose a partial final file.  (This is what
   hypothesis fresh_temps excludes; see DESIGN 9.1 "constant temp-file prefix".) *)
Definition shared_temp : list cfg := [([(5, 7)], 5); ([(5, 7)], 5)].
Theorem shared_temp_refuted :
  exists sched, lookup (F 5) (s_fs (sys_run {| s_fs := []; s_procs := init_procs shared_temp |} sched)) = Partial.
Proof.
  (* p0: start, check, create, write, close; p1: start, check, create (truncates p0's closed temp);
     p0: rename -> the final is the file p1 is still writing *)
  exists [0; 0; 0; 0; 0; 1; 1; 1; 0]%nat. vm_compute. reflexivity.
Qed.
Print Assumptions shared_temp_refuted.

(* ---- non-vacuity ---- *)
Definition kcfg (t0 : N) : cfg := ([(2, t0); (3, t0 + 1); (4, t0 + 2); (5, t0 + 3)], 5).
Definition three : list cfg := [kcfg 100; kcfg 200; kcfg 300].
Definition own (k : N) : nat := if k <? 200 then 0%nat else if k <? 300 then 1%nat else 2%nat.

Example fresh_three : fresh_temps own three [].
Proof.
  intros i c H. destruct i as [|[|[|i]]]; cbn in H; try (destruct i; discriminate);
    inversion H; subst; clear H; (split;
      [repeat constructor; cbn; intuition discriminate
      |intros k Hk; cbn in Hk; intuition subst; split; reflexivity]).
Qed.

(* round-robin of three builders: all finish, binary and build.json complete, and the two
   slower ones skipped work the first one had already published *)
Fixpoint round_robin (n : nat) : list nat :=
  match n with O => [] | S n' => [0; 1; 2]%nat ++ round_robin n' end.

Example three_round_robin :
  let st := sys_run {| s_fs := []; s_procs := init_procs three |} (round_robin 23) in
  s_procs st = [PDone; PDone; PDone] /\
  lookup (F 5) (s_fs st) = Complete /\ lookup (F 4) (s_fs st) = Complete.
Proof. vm_compute. repeat split. Qed.
