"""Shared machinery for the /verif checks (see DESIGN.md sections 2 and 4).

Every check is `./check Cxx --tier quick|thorough`; props/Cxx.py supplies the
property-specific parts (generator, case encoding, known-finding signatures) and
this module supplies: library build flavours from /repo's working tree, the Coq
build (full .vo, never -vos) with Print Assumptions accounting, extraction build,
C++ driver build, sharded execution with crash isolation, verdict + evidence.
"""
import fcntl, hashlib, json, os, random, re, shutil, subprocess, sys, time

VERIF = os.path.dirname(os.path.dirname(os.path.abspath(__file__)))
REPO = os.environ.get("VERIF_REPO", "/repo")
WORK = os.environ.get("VERIF_WORK", os.path.join(VERIF, "_work"))
EXTRACT_ROOT = os.path.join(VERIF, "_work", "extract")   # Extract.v files write here (path fixed in the .v)
COQ = os.path.join(VERIF, "coq")
NPROC = os.cpu_count() or 4

GUARD = "LIBOCCA_OCCA_VERIF"

FLAVOURS = {
    "asan": dict(
        cxx="-O1 -g -fsanitize=address,undefined -fno-sanitize-recover=undefined -D%s -Wno-error" % GUARD,
        c="-O1 -g -fsanitize=address,undefined -D%s" % GUARD,
        link="-fsanitize=address,undefined",
        extra=[]),
    "plain": dict(
        cxx="-O2 -g0 -D%s -Wno-error" % GUARD,
        c="-O2 -D%s" % GUARD,
        link="",
        extra=[]),
    "shar": dict(
        cxx="-O1 -g -fsanitize=thread -D%s -Wno-error" % GUARD,
        c="-O1 -g -fsanitize=thread -D%s" % GUARD,
        link="-fsanitize=thread",
        extra=["-DENABLE_SHARABLE_DEVICE=ON"]),
}

# Axioms that the standard library / std++ / Equations / CoqHammer declare and that
# DESIGN.md section 7 names.  Anything else reported by Print Assumptions fails a check.
ALLOWED_AXIOMS = {
    "functional_extensionality_dep", "FunctionalExtensionality.functional_extensionality_dep",
    "propositional_extensionality", "PropExtensionality.propositional_extensionality",
    "proof_irrelevance", "ProofIrrelevance.proof_irrelevance",
    "Eqdep.Eq_rect_eq.eq_rect_eq", "eq_rect_eq", "Eq_rect_eq.eq_rect_eq",
    "JMeq_eq", "JMeq.JMeq_eq", "classic", "Classical_Prop.classic",
}

FORBIDDEN = re.compile(
    r"\b(Admitted|admit|Axiom|Axioms|Parameter|Parameters|Conjecture|Conjectures|Abort All|"
    r"Admit Obligations|bypass_check|native_compute)\b|Unset\s+Guard\s+Checking|"
    r"Unset\s+Positivity\s+Checking|Unset\s+Universe\s+Checking|-type-in-type|-impredicative-set")


class CheckError(Exception):
    pass


def log(*a):
    print(*a, file=sys.stderr, flush=True)


def sh(cmd, timeout=None, cwd=None, env=None, input=None):
    """Run a command, return (rc, stdout, stderr); rc=-9 on timeout."""
    e = dict(os.environ)
    if env:
        e.update(env)
    try:
        p = subprocess.run(cmd, cwd=cwd, env=e, input=input, timeout=timeout,
                           stdout=subprocess.PIPE, stderr=subprocess.PIPE,
                           shell=isinstance(cmd, str), text=True, errors="replace")
        return p.returncode, p.stdout, p.stderr
    except subprocess.TimeoutExpired as ex:
        out = ex.stdout if isinstance(ex.stdout, str) else (ex.stdout or b"").decode("utf8", "replace")
        err = ex.stderr if isinstance(ex.stderr, str) else (ex.stderr or b"").decode("utf8", "replace")
        return -9, out, err + "\n[TIMEOUT]"


class Lock:
    def __init__(self, name, shared=False):
        os.makedirs(os.path.join(WORK, "locks"), exist_ok=True)
        self.path = os.path.join(WORK, "locks", name)
        self.shared = shared

    def __enter__(self):
        self.f = open(self.path, "w")
        fcntl.flock(self.f, fcntl.LOCK_SH if self.shared else fcntl.LOCK_EX)
        return self

    def __exit__(self, *a):
        fcntl.flock(self.f, fcntl.LOCK_UN)
        self.f.close()


# --------------------------------------------------------------------------- library

def build_dir(flavour):
    return os.path.join(WORK, "build-" + flavour)


def build_lib(flavour="asan"):
    """Configure (once) and incrementally build libocca + bin/occa from REPO's working tree."""
    fl = FLAVOURS[flavour]
    bd = build_dir(flavour)
    os.makedirs(WORK, exist_ok=True)
    t0 = time.time()
    with Lock("build-" + flavour):
        if not os.path.exists(os.path.join(bd, "build.ninja")):
            cmd = ["cmake", "-G", "Ninja", "-S", REPO, "-B", bd,
                   "-DCMAKE_BUILD_TYPE=RelWithDebInfo",
                   "-DCMAKE_CXX_FLAGS=" + fl["cxx"], "-DCMAKE_C_FLAGS=" + fl["c"],
                   "-DCMAKE_CXX_FLAGS_RELWITHDEBINFO=", "-DCMAKE_C_FLAGS_RELWITHDEBINFO=",
                   "-DCMAKE_SHARED_LINKER_FLAGS=" + fl["link"], "-DCMAKE_EXE_LINKER_FLAGS=" + fl["link"],
                   "-DOCCA_ENABLE_CUDA=OFF", "-DOCCA_ENABLE_HIP=OFF", "-DOCCA_ENABLE_OPENCL=OFF",
                   "-DOCCA_ENABLE_METAL=OFF", "-DOCCA_ENABLE_DPCPP=OFF", "-DOCCA_ENABLE_TESTS=OFF",
                   "-DOCCA_ENABLE_EXAMPLES=OFF"] + fl["extra"]
            rc, out, err = sh(cmd, timeout=600)
            if rc != 0:
                raise CheckError("cmake failed for %s:\n%s\n%s" % (flavour, out[-3000:], err[-3000:]))
        rc, out, err = sh(["ninja", "-C", bd, "libocca", "occa"], timeout=3000)
        if rc != 0:
            raise CheckError("library build (%s) failed:\n%s\n%s" % (flavour, out[-6000:], err[-3000:]))
    log("[lib] %s up to date (%.1fs)" % (flavour, time.time() - t0))
    return bd


def lib_env(flavour="asan", cache_dir=None):
    bd = build_dir(flavour)
    env = {
        "LD_LIBRARY_PATH": os.path.join(bd, "lib") + ":" + os.environ.get("LD_LIBRARY_PATH", ""),
        "OCCA_DIR": REPO,
        "OCCA_VERBOSE": "0",
        "ASAN_OPTIONS": "detect_leaks=1:abort_on_error=0:exitcode=97:allocator_may_return_null=1:detect_odr_violation=0",
        "UBSAN_OPTIONS": "print_stacktrace=1:halt_on_error=1:exitcode=98",
        "LSAN_OPTIONS": "exitcode=96",
        "OCCA_CXX": "g++",
    }
    if cache_dir:
        env["OCCA_CACHE_DIR"] = cache_dir
    return env


def build_driver(name, src=None, flavour="asan", extra=None, lang="c++"):
    """Compile drivers/<name>.cpp against the working-tree library; rebuild when any dependency
    (including /repo headers it includes) or the library is newer than the binary."""
    src = src or os.path.join(VERIF, "drivers", name + (".cpp" if lang == "c++" else ".c"))
    bd = build_dir(flavour)
    outd = os.path.join(WORK, "drivers")
    os.makedirs(outd, exist_ok=True)
    exe = os.path.join(outd, "%s-%s" % (name, flavour))
    dep = exe + ".d"
    lib = os.path.join(bd, "lib", "libocca.so")
    need = not os.path.exists(exe)
    if not need:
        mt = os.path.getmtime(exe)
        deps = [src, lib]
        if os.path.exists(dep):
            txt = open(dep).read().replace("\\\n", " ")
            deps += txt.split(":", 1)[1].split() if ":" in txt else []
        for d in deps:
            try:
                if os.path.getmtime(d) > mt:
                    need = True
                    break
            except OSError:
                need = True
                break
    if need:
        fl = FLAVOURS[flavour]
        cc = "g++" if lang == "c++" else "gcc"
        std = ["-std=c++17"] if lang == "c++" else []
        flags = (fl["cxx"] if lang == "c++" else fl["c"]).split()
        cmd = [cc] + std + flags + ["-MD", "-MF", dep,
               "-I" + os.path.join(REPO, "include"), "-I" + os.path.join(bd, "include"),
               "-I" + os.path.join(REPO, "src"), "-I" + os.path.join(VERIF, "drivers"),
               src, "-o", exe, "-L" + os.path.join(bd, "lib"), "-locca",
               "-Wl,-rpath," + os.path.join(bd, "lib"), "-lpthread", "-ldl"] + (extra or [])
        t0 = time.time()
        with Lock("build-" + flavour, shared=True):
            rc, out, err = sh(cmd, timeout=900)
        if rc != 0:
            raise CheckError("driver %s failed to compile (the code under /repo no longer offers what the "
                             "correspondence driver uses):\n%s" % (name, (out + err)[-6000:]))
        log("[driver] %s built (%.1fs)" % (name, time.time() - t0))
    return exe


# --------------------------------------------------------------------------- Coq

def coq_files():
    res = []
    for root, dirs, files in os.walk(COQ):
        dirs.sort()
        for f in sorted(files):
            if f.endswith(".v") and not f.startswith(".") and not f.startswith("Dbg"):
                res.append(os.path.relpath(os.path.join(root, f), COQ))
    return res


def coq_makefile():
    for d in os.listdir(COQ):
        if re.match(r"^C\d+$", d):
            os.makedirs(os.path.join(EXTRACT_ROOT, d), exist_ok=True)
    files = coq_files()
    proj = "-Q . OV\n-arg -w -arg -notation-overridden,-deprecated-hint-without-locality,-deprecated-instance-without-locality,-ambiguous-paths\n" + "\n".join(files) + "\n"
    pj = os.path.join(COQ, "_CoqProject")
    old = open(pj).read() if os.path.exists(pj) else None
    if old != proj or not os.path.exists(os.path.join(COQ, "Makefile")):
        open(pj, "w").write(proj)
        rc, out, err = sh(["coq_makefile", "-f", "_CoqProject", "-o", "Makefile"], cwd=COQ, timeout=120)
        if rc != 0:
            raise CheckError("coq_makefile failed: " + err)


def coq_make(targets, timeout=1500, jobs=None):
    """make -k of the given .vo targets (paths relative to coq/).  Returns (ok, log)."""
    with Lock("coq"):
        coq_makefile()
        cmd = ["make", "-k", "-j%d" % (jobs or NPROC)] + list(targets)
        t0 = time.time()
        rc, out, err = sh(cmd, cwd=COQ, timeout=timeout)
        log("[coq] make %s rc=%d (%.1fs)" % (" ".join(targets), rc, time.time() - t0))
        return rc == 0, out + "\n" + err


def scan_forbidden(dirs):
    """No Admitted/admit/Axiom/... anywhere in the given coq/ subdirectories."""
    bad = []
    for d in dirs:
        base = os.path.join(COQ, d)
        for root, _, files in os.walk(base):
            for f in files:
                if not f.endswith(".v"):
                    continue
                p = os.path.join(root, f)
                txt = open(p, errors="replace").read()
                txt = strip_coq_comments(txt)
                for m in FORBIDDEN.finditer(txt):
                    line = txt.count("\n", 0, m.start()) + 1
                    bad.append("%s:%d: %s" % (os.path.relpath(p, VERIF), line, m.group(0)))
    return bad


def strip_coq_comments(txt):
    out = []
    depth = 0
    i = 0
    n = len(txt)
    instr = False
    while i < n:
        c = txt[i]
        if depth == 0 and c == '"':
            instr = not instr
            out.append(c)
            i += 1
            continue
        if not instr and txt.startswith("(*", i):
            depth += 1
            i += 2
            continue
        if not instr and depth > 0 and txt.startswith("*)", i):
            depth -= 1
            i += 2
            continue
        if depth == 0:
            out.append(c)
        elif c == "\n":
            out.append(c)
        i += 1
    return "".join(out)


def coq_properties(prop, dirs=None, extra_targets=(), gen_targets=()):
    """Recompile coq/<prop>/Properties_<prop>.v (always, so that the Print Assumptions output belongs
    to this run) plus extraction target; return dict with obligations/discharged/axioms/failures."""
    dirs = dirs or [prop, "lib"]
    pfile = os.path.join(COQ, prop, "Properties_%s.v" % prop)
    res = dict(obligations=0, discharged=0, theorems=[], axioms=[], failures=[], refuted=[], log="")
    bad = scan_forbidden(dirs + (["gen"] if os.path.isdir(os.path.join(COQ, "gen")) else []))
    if bad:
        res["failures"].append("forbidden constructs: " + "; ".join(bad[:10]))
    vo = pfile[:-2] + ".vo"
    if os.path.exists(vo):
        os.unlink(vo)
    targets = ["%s/Properties_%s.vo" % (prop, prop)] + list(extra_targets) + list(gen_targets)
    ok, lg = coq_make(targets)
    res["log"] = lg
    src = strip_coq_comments(open(pfile).read())
    thms = re.findall(r"^\s*(Theorem|Example|Corollary)\s+([A-Za-z0-9_']+)", src, re.M)
    for g in gen_targets:
        gsrc = strip_coq_comments(open(os.path.join(COQ, g[:-1])).read())
        thms += re.findall(r"^\s*(Theorem|Example|Corollary|Lemma)\s+([A-Za-z0-9_']+)", gsrc, re.M)
    res["theorems"] = [t[1] for t in thms]
    res["refuted"] = [t[1] for t in thms if t[1].endswith("_refuted")]
    res["obligations"] = len(thms)
    if not ok:
        # find which file failed
        m = re.findall(r'File "([^"]+)", line (\d+), characters [^\n]*\n(?:[^\n]*\n){0,12}?Error:[^\n]*(?:\n[^\n]+){0,6}', lg)
        errs = re.findall(r'(File "[^"]+", line \d+, characters [\d-]+:\nError:(?:\n?[^\n]+){1,8})', lg)
        res["failures"].append("coq build failed: " + (" || ".join(e.replace("\n", " ") for e in errs[:3]) or lg[-1500:]))
        res["discharged"] = 0
        log("[coq] FAILED:\n" + "\n".join(l[:300] for l in lg.splitlines()[-25:]))
        return res
    # Print Assumptions accounting: each "Print Assumptions x." prints either "Closed under the global
    # context" or "Axioms:" followed by lines "name : type".
    closed = len(re.findall(r"Closed under the global context", lg))
    axioms = set()
    for blk in re.findall(r"Axioms:\n((?:.+\n?)+?)(?=\n\S|\Z|COQC|make)", lg):
        for line in blk.splitlines():
            m = re.match(r"^([A-Za-z_][A-Za-z0-9_.']*)\s*:", line)
            if m:
                axioms.add(m.group(1))
    res["axioms"] = sorted(axioms)
    badax = [a for a in axioms if a not in ALLOWED_AXIOMS and a.split(".")[-1] not in ALLOWED_AXIOMS]
    if badax:
        res["failures"].append("axioms outside the trusted base: " + ", ".join(badax))
    nprint = len(re.findall(r"^\s*Print Assumptions\s", src, re.M))
    if nprint < len([t for t in thms if t[0] != "Example"]) - 0 and nprint == 0:
        res["failures"].append("Properties file prints no assumptions")
    res["discharged"] = len(thms) if not res["failures"] else 0
    res["print_assumptions"] = dict(closed=closed, with_axioms=len(re.findall(r"^Axioms:", lg, re.M)))
    return res


def build_model(prop, driver_ml=None, extra_ml=()):
    """Compile the extracted OCaml model (coq/<prop>/Extract.v writes _work/extract/<prop>/model.ml)
    together with extract/<prop>/driver.ml."""
    ed = os.path.join(EXTRACT_ROOT, prop)
    driver_ml = driver_ml or os.path.join(VERIF, "extract", prop, "driver.ml")
    exe = os.path.join(ed, "model_driver")
    srcs = [os.path.join(ed, "model.mli"), os.path.join(ed, "model.ml")] + list(extra_ml) + [driver_ml]
    for s in srcs:
        if not os.path.exists(s):
            raise CheckError("extraction output missing: " + s)
    zu = os.path.join(VERIF, "extract", "zutil.ml")
    if os.path.exists(exe) and all(os.path.getmtime(s) <= os.path.getmtime(exe) for s in srcs + [zu]):
        return exe
    # copy sources next to the model so that compilation products stay in _work; the driver gets
    # `open Model` and the shared Z helpers prepended
    local = []
    for s in srcs:
        d = os.path.join(ed, os.path.basename(s))
        if os.path.abspath(s) == os.path.abspath(driver_ml):
            d = os.path.join(ed, "driver_full.ml")
            with open(d, "w") as f:
                f.write("open Model\n")
                f.write(open(os.path.join(VERIF, "extract", "zutil.ml")).read())
                f.write("\n# 1 \"%s\"\n" % driver_ml)
                f.write(open(driver_ml).read())
        elif os.path.abspath(s) != os.path.abspath(d):
            shutil.copyfile(s, d)
        local.append(os.path.basename(d))
    rc, out, err = sh(["ocamlfind", "ocamlopt", "-inline", "50", "-w", "-a", "-package", "str,unix",
                       "-linkpkg"] + local + ["-o", "model_driver"], cwd=ed, timeout=600)
    if rc != 0:
        raise CheckError("ocaml build of extracted model failed:\n" + (out + err)[-4000:])
    return exe


def extract_dir(prop):
    d = os.path.join(EXTRACT_ROOT, prop)
    os.makedirs(d, exist_ok=True)
    return d


# --------------------------------------------------------------------------- running cases

def run_lines(cmd, lines, env=None, timeout=600, cwd=None):
    """Feed `lines` (one case per line) on stdin, expect one output line per case, in order."""
    rc, out, err = sh(cmd, env=env, timeout=timeout, input="\n".join(lines) + "\n", cwd=cwd)
    return rc, out.splitlines(), err


def san_summary(err, rc):
    m = re.search(r"SUMMARY: (\w+Sanitizer: [^\n]{0,160})", err)
    if m:
        s = m.group(1)
        s = re.sub(r"0x[0-9a-f]+", "0x", s)
        s = re.sub(r"/[^ ]*/", "", s)
        return "CRASH " + s
    m = re.search(r"runtime error: ([^\n]{0,120})", err)
    if m:
        return "CRASH UBSan: " + m.group(1)
    if rc == -9:
        return "CRASH timeout"
    if rc < 0:
        return "CRASH signal %d" % (-rc)
    return "CRASH exit %d" % rc


def run_impl_isolating(cmd, lines, env=None, timeout=600, per_case_timeout=60):
    """Run the implementation driver over all cases; when the process dies (sanitizer report,
    signal, exception escaping) the case it died on is recorded as `CRASH <summary>` and the run
    resumes with the next case, so that one crash does not hide the others."""
    results = []
    pos = 0
    n = len(lines)
    crashes = 0
    hangs = 0
    while pos < n:
        # a hanging implementation must not cost the whole batch timeout again and again: the budget is
        # proportional to the number of remaining cases, and after a few hangs the rest is not run
        budget = min(timeout, 90 + 1.5 * (n - pos))
        rc, out, err = run_lines(cmd, lines[pos:], env=env, timeout=budget)
        if rc == -9:
            hangs += 1
        got = [l for l in out if l.startswith("R ")]
        results.extend(got[: n - pos])
        pos += len(got)
        if pos >= n:
            if rc != 0 and got:
                # died after the last case (e.g. leak report at exit): attribute to the last case
                summ = san_summary(err, rc)
                if "LeakSanitizer" in summ or rc not in (0,):
                    results[-1] = results[-1] + " | ATEXIT " + summ
            break
        # the process died on case `pos`
        crashes += 1
        rc1, out1, err1 = run_lines(cmd, [lines[pos]], env=env, timeout=per_case_timeout)
        got1 = [l for l in out1 if l.startswith("R ")]
        if got1 and rc1 == 0:
            # not reproducible alone: state carried across cases; report as such
            results.append(got1[0] + " | FLAKY-CRASH-IN-BATCH " + san_summary(err, rc))
        elif got1:
            results.append(got1[0] + " | ATEXIT " + san_summary(err1, rc1))
        else:
            results.append("R " + san_summary(err1 if err1 else err, rc1))
        pos += 1
        if crashes > 200 or hangs > 4:
            results.extend(["R CRASH (not run: too many crashes or hangs before this case)"] * (n - pos))
            break
    return results


def shard(lst, k):
    k = max(1, min(k, len(lst)))
    return [lst[i::k] for i in range(k)]


def run_impl_parallel(cmd, lines, env=None, timeout=900, jobs=None):
    """Shard the cases over processes (each isolated as above) and restore order."""
    from concurrent.futures import ThreadPoolExecutor
    jobs = jobs or min(NPROC, max(1, len(lines) // 20))
    idx = list(range(len(lines)))
    shards = shard(idx, jobs)
    res = [None] * len(lines)

    def work(ix):
        r = run_impl_isolating(cmd, [lines[i] for i in ix], env=env, timeout=timeout)
        return ix, r
    with ThreadPoolExecutor(max_workers=jobs) as ex:
        for ix, r in ex.map(work, shards):
            for i, x in zip(ix, r):
                res[i] = x
    return res


# --------------------------------------------------------------------------- known findings

def load_known_findings(prop):
    """known_findings.txt lines:  Cxx | signature | minimal input | what fails
       and                      :  fixed: property=Cxx <commit> <what failed>   (suppresses nothing)"""
    res = []
    p = os.path.join(VERIF, "known_findings.txt")
    if not os.path.exists(p):
        return res
    for line in open(p):
        line = line.strip()
        if not line or line.startswith("#") or line.startswith("fixed:"):
            continue
        parts = [x.strip() for x in line.split("|")]
        if len(parts) >= 4 and parts[0] == prop:
            res.append(dict(prop=parts[0], signature=parts[1], input=parts[2], what=" | ".join(parts[3:])))
    return res


# --------------------------------------------------------------------------- verdict / evidence

class Run:
    """Accumulates the outcome of one check run and writes evidence/<prop>.json."""

    def __init__(self, prop, tier, seed):
        self.prop = prop
        self.tier = tier
        self.seed = seed
        self.t0 = time.time()
        self.violations = []       # (message, replay_path)
        self.known = []            # messages
        self.coverage = dict(evaluations=0, distinct_nontrivial=0, rule="", samples=[],
                             obligations=0, discharged=0, checker_cmd="", trusted_base=[],
                             traces_validated_against_impl=0)
        self.assumptions = []
        os.makedirs(os.path.join(VERIF, "evidence"), exist_ok=True)
        os.makedirs(os.path.join(VERIF, "replay"), exist_ok=True)

    def replay_path(self, tag, content):
        h = hashlib.sha1((tag + "\n" + content).encode("utf8", "replace")).hexdigest()[:10]
        p = os.path.join(VERIF, "replay", "%s-%s.txt" % (self.prop, h))
        with open(p, "w") as f:
            f.write(content if content.endswith("\n") else content + "\n")
        return p

    def violation(self, what, replay_content, no_input=False):
        p = self.replay_path(what, replay_content)
        self.violations.append((what, p, no_input))

    def known_finding(self, what):
        if what not in self.known:
            self.known.append(what)

    def add_proof(self, pr, checker_cmd):
        self.coverage["obligations"] += pr["obligations"]
        self.coverage["discharged"] += pr["discharged"]
        self.coverage["checker_cmd"] = checker_cmd
        self.coverage["theorems"] = pr["theorems"]
        self.coverage["axioms_reported"] = pr["axioms"]
        self.coverage["refuted_theorems_present"] = pr["refuted"]

    def finish(self):
        wall = time.time() - self.t0
        ev = dict(property_id=self.prop, tier=self.tier, seed=self.seed, level="proof",
                  coverage=self.coverage, assumptions=self.assumptions, wall_s=round(wall, 2),
                  violations=len(self.violations), known_findings=self.known)
        evdir = os.path.join(VERIF, "evidence")
        if os.environ.get("VERIF_WORK"):
            # a run against a scratch tree (seeded change / fix trial) must not overwrite the evidence of /repo
            evdir = os.path.join(WORK, "evidence")
            os.makedirs(evdir, exist_ok=True)
        with open(os.path.join(evdir, self.prop + ".json"), "w") as f:
            json.dump(ev, f, indent=1, default=str)
            f.write("\n")
        for k in self.known:
            print("KNOWN-FINDING: property=%s %s" % (self.prop, k))
        for what, p, no_input in self.violations:
            log("violation: " + what)
            print("VIOLATION property=%s replay=%s%s" % (self.prop, p, " no-failing-input-found" if no_input else ""))
        sys.stdout.flush()
        if self.violations:
            return 1
        print("OK property=%s tier=%s evaluations=%d obligations=%d/%d wall=%.1fs" % (
            self.prop, self.tier, self.coverage["evaluations"], self.coverage["discharged"],
            self.coverage["obligations"], wall))
        return 0


def seed_from_env():
    try:
        return int(os.environ.get("VERIF_SEED", "1"))
    except ValueError:
        return 1


def load_corpus(prop):
    d = os.path.join(VERIF, "corpus", prop)
    res = []
    if os.path.isdir(d):
        for f in sorted(os.listdir(d)):
            for line in open(os.path.join(d, f)):
                line = line.rstrip("\n")
                if line and not line.startswith("#"):
                    res.append(line)
    return res


# --------------------------------------------------------------------------- model side + judging

def run_model(exe, lines, timeout=900):
    """Run the extracted model driver: returns (R lines, S lines) (S may be empty strings)."""
    rc, out, err = sh([exe], input="\n".join(lines) + "\n", timeout=timeout)
    if rc != 0:
        raise CheckError("model driver failed rc=%d: %s" % (rc, err[-2000:]))
    R = [l for l in out.splitlines() if l.startswith("R ")]
    S = [l for l in out.splitlines() if l.startswith("S ")]
    if len(R) != len(lines):
        raise CheckError("model driver produced %d results for %d cases" % (len(R), len(lines)))
    if not S:
        S = [""] * len(R)
    return R, S


def shrink_tokens(tokens, still_fails, keep_first=0, max_rounds=200):
    """Greedy delta debugging on a token list; still_fails(tokens) -> bool."""
    cur = list(tokens)
    rounds = 0
    chunk = max(1, (len(cur) - keep_first) // 2)
    while chunk >= 1 and rounds < max_rounds:
        i = keep_first
        changed = False
        while i < len(cur) and rounds < max_rounds:
            cand = cur[:i] + cur[i + chunk:]
            rounds += 1
            if len(cand) < len(cur) and still_fails(cand):
                cur = cand
                changed = True
            else:
                i += chunk
        if not changed:
            chunk //= 2
    return cur


def shrink_tokens_batch(tokens, fails_many, keep_first=0, max_rounds=60):
    """Delta debugging where all candidates of a round (every way to delete one chunk of the current size) are
    evaluated in ONE batch: fails_many(list of token lists) -> list of bool.  Takes the first candidate that
    still fails.  Costs a few processes per round instead of one per candidate."""
    cur = list(tokens)
    chunk = max(1, (len(cur) - keep_first) // 2)
    rounds = 0
    while chunk >= 1 and rounds < max_rounds:
        cands = []
        i = keep_first
        while i < len(cur):
            c = cur[:i] + cur[i + chunk:]
            if len(c) < len(cur) and len(c) > keep_first - 1:
                cands.append(c)
            i += chunk
        if not cands:
            break
        rounds += 1
        res = fails_many(cands)
        hit = [c for c, r in zip(cands, res) if r]
        if hit:
            cur = min(hit, key=len)
            chunk = min(chunk, max(1, (len(cur) - keep_first) // 2))
        else:
            chunk //= 2
    return cur


class Differential:
    """The standard tie (H): the same cases through the implementation driver (I), the extracted
    model (R) and the extracted specification (S).

      I == R on every case      : the model corresponds to the code (tie holds)
      view(I) == S on every case: the implementation satisfies the property on the cases run
    Verdict (DESIGN.md section 4): a case where view(I) != S is a property failure on the real code: it is
    shrunk, matched against known_findings.txt signatures, and otherwise reported as VIOLATION with the
    shrunk input as replay.  Cases where only I != R (correspondence break) or a broken proof obligation,
    without any failing input among everything searched, give VIOLATION ... no-failing-input-found.
    """

    def __init__(self, run, prop, impl_cmd, model_exe, env, view=lambda s: s, signatures=None,
                 keep_first=0, sep=" ", jobs=None, model_desc="", impl_timeout=900):
        self.run, self.prop = run, prop
        self.impl_cmd, self.model_exe, self.env = impl_cmd, model_exe, env
        self.view = view
        self.signatures = signatures or {}
        self.keep_first, self.sep, self.jobs = keep_first, sep, jobs
        self.model_desc = model_desc
        self.impl_timeout = impl_timeout

    def eval(self, lines, parallel=True):
        R, S = run_model(self.model_exe, lines)
        if parallel and len(lines) > 40:
            I = run_impl_parallel(self.impl_cmd, lines, env=self.env, jobs=self.jobs, timeout=self.impl_timeout)
        else:
            I = run_impl_isolating(self.impl_cmd, lines, env=self.env, timeout=self.impl_timeout)
        return I, R, S

    def fails_spec(self, i_obs, s_obs):
        return s_obs != "" and self.view(i_obs)[2:] != s_obs[2:]

    def judge(self, cases, I, R, S, proof_failures=(), max_report=12, shrink=True):
        run = self.run
        known = load_known_findings(self.prop)
        prop_fails = [i for i in range(len(cases)) if self.fails_spec(I[i], S[i])]
        corr = [i for i in range(len(cases)) if i not in set(prop_fails) and I[i] != R[i]]
        reported = set()
        nshrunk = 0
        for i in prop_fails:
            line = cases[i]
            # cheap pre-classification by signature on the unshrunk case (avoids shrinking every known one)
            pre = [k for k in known if self.signatures.get(k["signature"], lambda c: False)(line)]
            if pre and any(("KF:" + k["signature"]) in reported for k in pre):
                # already reported this known finding; but make sure the case has no *other* failure:
                # shrink only a bounded number of these
                if nshrunk >= max_report:
                    continue
            if shrink and nshrunk < max_report:
                nshrunk += 1

                def still_many(cands):
                    ls = [self.sep.join(t) for t in cands]
                    i1, r1, s1 = self.eval(ls, parallel=False)
                    return [self.fails_spec(a, b) for a, b in zip(i1, s1)]
                small = self.sep.join(shrink_tokens_batch(line.split(self.sep), still_many, keep_first=self.keep_first))
            else:
                small = line
            if small in reported:
                continue
            reported.add(small)
            matched = [k for k in known if self.signatures.get(k["signature"], lambda c: False)(small)]
            if matched:
                reported.add("KF:" + matched[0]["signature"])
                run.known_finding("%s [signature %s, e.g. %s]" % (matched[0]["what"], matched[0]["signature"], matched[0]["input"]))
                continue
            if len(run.violations) >= max_report:
                continue
            i1, r1, s1 = self.eval([small], parallel=False)
            content = ("property %s fails on the implementation built from /repo\ncase: %s\nimplementation: %s\n"
                       "required (specification): %s\nmodel: %s\nreplay: ./check %s --replay <this file>\n"
                       % (self.prop, small, i1[0], s1[0], r1[0], self.prop))
            run.violation("implementation differs from the specification on: " + small, content)
        if corr and not run.violations:
            i = corr[0]
            content = ("correspondence for %s (%s) no longer holds; no input was found on which the implementation violates "
                       "the specification (%d cases searched, %d disagree with the model)\nfirst disagreeing case: %s\n"
                       "implementation: %s\nmodel: %s\nspecification: %s\n"
                       % (self.prop, self.model_desc, len(cases), len(corr), cases[i], I[i], R[i], S[i]))
            run.violation("correspondence break: model and implementation differ", content, no_input=True)
        if proof_failures and not run.violations:
            content = ("proof obligations for %s no longer check: %s\nsearched %d cases on the implementation, none violates "
                       "the specification\n" % (self.prop, "; ".join(proof_failures), len(cases)))
            run.violation("proof obligations no longer check", content, no_input=True)
        cov = run.coverage
        cov["evaluations"] = cov.get("evaluations", 0) + len(cases)
        cov["traces_validated_against_impl"] = cov.get("traces_validated_against_impl", 0) + len(cases) - len(corr) - len(prop_fails)
        cov["correspondence_disagreements"] = len(corr)
        cov["spec_disagreements"] = len(prop_fails)
        return prop_fails, corr


def replay_case_from_file(path):
    txt = open(path).read()
    m = re.search(r"^(?:case|first disagreeing case): (.*)$", txt, re.M)
    return m.group(1).rstrip("\n") if m else None


def coqchk(prop, timeout=2400):
    """Thorough tier: re-check the compiled Properties module and everything it depends on with the independent
    checker and list the axioms it relies on.  Returns (ok, summary)."""
    with Lock("coq"):
        rc, out, err = sh(["coqchk", "-silent", "-o", "-Q", ".", "OV", "OV.%s.Properties_%s" % (prop, prop)], cwd=COQ, timeout=timeout)
    txt = out + err
    m = re.search(r"\* Axioms:(.*?)\n\s*\n\* Constants", txt, re.S)
    axioms = m.group(1).strip() if m else "?"
    names = [a.strip() for a in re.split(r"[\n]+", axioms) if a.strip() and a.strip() != "<none>"]
    bad = [a for a in names if a.split(".")[-1] not in ALLOWED_AXIOMS and a not in ALLOWED_AXIOMS]
    ok = (rc == 0) and not bad and "type-in-type: <none>" in txt and "unsafe (co)fixpoints: <none>" in txt and "positivity is assumed: <none>" in txt
    return ok, "rc=%d axioms=%s" % (rc, axioms.replace("\n", " ")[:300])
