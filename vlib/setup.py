"""./check --setup : build everything the checks need from files on disk (offline)."""
import importlib, os, sys, time
from . import common as C


def props():
    d = os.path.join(C.VERIF, "props")
    return sorted(f[:-3] for f in os.listdir(d) if f.startswith("C") and f.endswith(".py"))


def main():
    t0 = time.time()
    flavours = set(["asan"])
    mods = {}
    for p in props():
        m = importlib.import_module("props." + p)
        mods[p] = m
        for f in getattr(m, "FLAVOURS", ["asan"]):
            flavours.add(f)
    for f in sorted(flavours):
        C.build_lib(f)
    # translators that write coq/gen/*.v must run before the Makefile is generated
    for p, m in mods.items():
        if hasattr(m, "pregen"):
            try:
                m.pregen()
            except Exception as e:
                C.log("[setup] pregen %s: %s" % (p, e))
    for p in props():
        os.makedirs(os.path.join(C.EXTRACT_ROOT, p), exist_ok=True)
    C.coq_makefile()
    ok, lg = C.coq_make([], timeout=3400)
    if not ok:
        C.log("[setup] coq build reported errors (each check reports its own):\n" + lg[-3000:])
    for p, m in mods.items():
        if hasattr(m, "setup"):
            try:
                m.setup()
            except Exception as e:
                C.log("[setup] %s: %s" % (p, e))
    C.log("[setup] done in %.0fs" % (time.time() - t0))
    return 0
