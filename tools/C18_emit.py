#!/usr/bin/env python3
"""C18 implementation side: @tile translations of the real translators (see extract/C18/driver.ml for
the case format and tools/C17_emit.py for the machinery).

Per case: the OKL kernel is translated for all seven modes.
  * texts: the two `for (...)` headers and the `if (...)` that attributes::tile produced are taken from
    the emitted source of every mode that keeps loops (Serial, OpenMP; with variant B also the device
    source of the five launcher back ends, where the tiled loops stay inside the kernel) and have to be
    token-for-token the model's; with variant A (@tile(T, @outer, @inner)) the launcher/device texts of
    the five launcher back ends are extracted as in C17;
  * values: the Serial and OpenMP translations are compiled and run; with variant A the launch of the
    five launcher back ends is emulated from the emitted text as in C17 (including the emitted `if`).
"""
import os, re, sys, tempfile
sys.path.insert(0, os.path.dirname(os.path.abspath(__file__)))
import C17_emit as E

CMP = E.CMP
IF = re.compile(r"^\s*if \((.*)\) \{\s*$")


def parse_loop_tokens(l, name):
    if len(l) < 3 or l[0] not in CMP or l[1] not in ("L", "R") or l[2] not in ("inc", "pinc", "dec", "pdec", "add", "sub"):
        raise E.Malformed("loop")
    sect = None
    ops = {"i": [], "b": [], "s": []}
    for x in l[3:]:
        if x in ops:
            sect = x
        elif sect is None:
            raise E.Malformed("operand")
        else:
            ops[sect].append(x)
    if not ops["i"] or not ops["b"] or (l[2] in ("add", "sub")) != bool(ops["s"]):
        raise E.Malformed("operand")
    return dict(cmp=l[0], side=l[1], upd=l[2], init=" ".join(ops["i"]), bound=" ".join(ops["b"]),
                step=" ".join(ops["s"]), name=name, kind="o")


def parse_case(line):
    """-> (variant, check, envs, [(tile text, loop dict)])   one pair for A/B, two (outer, inner) for N"""
    t = line.split()
    if len(t) < 4 or t[0] != "TL" or t[1] not in ("A", "B", "N") or t[2] not in ("0", "1"):
        raise E.Malformed("case")
    var, check = t[1], t[2] == "1"
    rest = t[3:]
    if "T" not in rest or "loop" not in rest:
        raise E.Malformed("sections")
    head = rest[: rest.index("T")]
    envs = []
    for e in E.split_kw(head, "env"):
        if len(e) != 4:
            raise E.Malformed("env")
        try:
            envs.append(tuple(int(x) for x in e))
        except ValueError:
            raise E.Malformed("env")
    if not envs:
        raise E.Malformed("env")
    secs = E.split_kw(rest, "T")
    if len(secs) != (2 if var == "N" else 1):
        raise E.Malformed("sections")
    pairs = []
    for k, sec in enumerate(secs):
        if sec.count("loop") != 1:
            raise E.Malformed("loops")
        tile = sec[: sec.index("loop")]
        if not tile:
            raise E.Malformed("tile")
        pairs.append((" ".join(tile), parse_loop_tokens(sec[sec.index("loop") + 1:], "ij"[k])))
    return var, check, envs, pairs


def okl_source(kname, var, check, pairs):
    kw = "" if check else ", check=false"
    names = [l["name"] for _, l in pairs]
    body = ["int p = h[0];", "h[0] = p + 1;", "if (p < %d) {" % E.LIMIT]
    for j, n in enumerate(names):
        body.append("  h[1 + %d * p + %d] = %s;" % (len(names), j, n))
    body.append("}")
    lines = ["@kernel void %s(const int N, const int M, const int P, const int Q, int *h) {" % kname]
    if var == "B":
        tile, loop = pairs[0]
        lines.append("  for (int wo = 0; wo < 1; ++wo; @outer) {")
        lines.append("    for (int wi = 0; wi < 1; ++wi; @inner) {")
        lines.append("      for (%s; @tile(%s%s)) {" % (E.header_text(loop), tile, kw))
        lines += ["        " + b for b in body]
        lines += ["      }", "    }", "  }"]
    else:
        ind = "  "
        for tile, loop in pairs:
            lines.append("%sfor (%s; @tile(%s, @outer, @inner%s)) {" % (ind, E.header_text(loop), tile, kw))
            ind += "  "
        lines += [ind + b for b in body]
        for _ in pairs:
            ind = ind[:-2]
            lines.append(ind + "}")
    lines.append("}")
    return "\n".join(lines) + "\n"


def tile_texts(src):
    """the for headers and if conditions the tile transformation produced, in emitted order"""
    out = []
    lines = src.splitlines()
    for k, ln in enumerate(lines):
        m = E.FOR.match(ln)
        if not m:
            continue
        hdr = m.group(1).strip()
        if re.match(r"int _occa_tiled_[ij] =", hdr):
            out.append("block= " + E.canon(hdr))
        elif re.match(r"int [ij] =", hdr):
            out.append("inner= " + E.canon(hdr))
            check = "none"
            if k + 1 < len(lines):
                # the recording body starts with `int p = ...` and a nested tiled loop with `for`, so an
                # `if` directly under an inner loop is its bounds check
                mi = IF.match(lines[k + 1])
                if mi:
                    check = E.canon(mi.group(1))
            out.append("check= " + check)
    return " ; ".join(out) if out else "?MISSING"


def device_guard(dev):
    """variant A: the `if (...)` that follows the declaration of i in the device source"""
    lines = dev.splitlines()
    for k, ln in enumerate(lines):
        m = E.DECL.match(ln)
        if m and m.group(1) == "i" and k + 1 < len(lines):
            mi = IF.match(lines[k + 1])
            return E.canon(mi.group(1)) if mi else None
    return None


def gpu_functions(h, fname, st, dd, guard):
    body = ["  u64 outer[3] = {1, 1, 1}, inner[3] = {1, 1, 1};"]
    for s in st:
        if s[0] == "decl":
            body.append("  int %s = %s;" % (s[1], E.c_text(s[2])))
        else:
            body.append("  %s[%d] = %s;" % ("outer" if s[1] == "o" else "inner", s[2], E.c_text(s[3])))
    body.append("  (void) d;")
    body.append("  out.emit({(long long) outer[0], (long long) outer[1], (long long) outer[2], "
                "(long long) inner[0], (long long) inner[1], (long long) inner[2]});")
    h.add(fname + "_c", "\n".join(body))
    body = []
    ind = "  "
    for k, ax in enumerate(["_o2", "_o1", "_o0", "_i2", "_i1", "_i0"]):
        idx = [2, 1, 0, 5, 4, 3][k]
        body.append("%sfor (unsigned int %s = 0; %s < d[%d]; ++%s) {" % (ind, ax, ax, idx, ax))
        ind += "  "
    for var, txt in dd:
        body.append("%sint %s = %s;" % (ind, var, E.c_text(txt)))
    emit = "out.emit({(long long) i});"
    body.append("%s%s" % (ind, ("if (%s) { %s }" % (E.c_text(guard), emit)) if guard else emit))
    body.append("%sif (out.huge) return;" % ind)
    for _ in range(6):
        ind = ind[:-2]
        body.append("%s}" % ind)
    h.add(fname + "_t", "\n".join(body))


def process(lines, driver_exe, workdir):
    tr = E.Translator(driver_exe)
    cases, jobs = [], []
    for idx, line in enumerate(lines):
        c = dict(idx=idx)
        try:
            var, check, envs, pairs = parse_case(line)
            c.update(var=var, check=check, envs=envs, pairs=pairs, kname="k%d" % idx)
            c["src"] = okl_source(c["kname"], var, check, pairs)
            c["job0"] = len(jobs)
            for m in E.CPU:
                jobs.append((m, 0, c["src"]))
            for m in E.GPU:
                jobs.append((m, 2, c["src"]))
        except E.Malformed:
            c["malformed"] = True
        cases.append(c)
    outs = tr.translate(jobs)
    h = E.Harness(workdir)
    for c in cases:
        if c.get("malformed"):
            continue
        j = c["job0"]
        c["tr"] = {}
        for m in E.CPU:
            c["tr"][m] = outs[j]
            j += 1
        for m in E.GPU:
            c["tr"][m] = outs[j]
            j += 1
        flat = [c["tr"][m] for m in E.CPU] + [x for m in E.GPU for x in c["tr"][m]]
        c["all_err"] = all(x == "ERR" for x in flat)
        c["any_bad"] = any(x == "ERR" or x.startswith("CRASH") for x in flat)
        if c["any_bad"]:
            continue
        # texts of the tiled statements
        c["tt"] = {}
        for m in E.CPU:
            c["tt"][m] = tile_texts(c["tr"][m])
        if c["var"] == "B":
            for m in E.GPU:
                c["tt"][m] = tile_texts(c["tr"][m][0])
        nloops = len(c["pairs"])
        # launcher back ends, variant A
        c["groups"] = {}
        if c["var"] == "A":
            for m in E.GPU:
                dev, lau = c["tr"][m]
                recs, st, dd = E.gpu_texts(lau, dev, ["_occa_tiled_i", "i"])
                guard = device_guard(dev)
                key = recs + " ; guard= " + (guard or "none")
                if key not in c["groups"]:
                    gid = len(c["groups"])
                    c["groups"][key] = (gid, [m])
                    gpu_functions(h, "g%d_%d" % (c["idx"], gid), st, dd, guard)
                else:
                    c["groups"][key][1].append(m)
        for m in E.CPU:
            E.cpu_function(h, "%s%d" % (m[0], c["idx"]), c["tr"][m], c["kname"], nloops)
        # step and tile size (for OOS)
        body = ["  (void) d;"]
        vals = []
        for k, (tile, loop) in enumerate(c["pairs"]):
            body.append("  int t%d_ = %s;" % (k, tile))
            vals.append("(long long) t%d_" % k)
            if loop["step"]:
                body.append("  int s%d_ = %s;" % (k, loop["step"]))
                vals.append("(long long) s%d_" % k)
        body.append("  out.emit({%s});" % ", ".join(vals))
        h.add("p%d" % c["idx"], "\n".join(body))
    live = [c for c in cases if not c.get("malformed") and not c["any_bad"]]
    live_run = []
    if live:
        if h.build():
            live_run = live
        else:
            for c in live:
                c["harness_error"] = h.error
    reqs = []
    for c in live_run:
        c["oos"] = [False] * len(c["envs"])
        for e, envv in enumerate(c["envs"]):
            reqs.append((c, e, ("p%d" % c["idx"], envv, None)))
    res = h.run([r[2] for r in reqs]) if reqs else []
    for (c, e, _), r in zip(reqs, res):
        if r in ("UB", "HARNESSDIED", "NOFN"):
            c["oos"][e] = True
        else:
            c["oos"][e] = any(int(x) <= 0 for x in r.split()[0].split(","))
    reqs = []
    for c in live_run:
        c["vals"] = [dict() for _ in c["envs"]]
        for e, envv in enumerate(c["envs"]):
            if c["oos"][e]:
                continue
            for key, (gid, modes) in c["groups"].items():
                reqs.append((c, e, gid, ("g%d_%d_c" % (c["idx"], gid), envv, None)))
    res = h.run([r[3] for r in reqs]) if reqs else []
    noopq = []
    for (c, e, gid, _), r in zip(reqs, res):
        if r in ("UB", "HARNESSDIED", "NOFN", "HUGE"):
            c["vals"][e][gid] = r
        else:
            noopq.append((c, e, gid, [E.u64(int(x)) for x in r.split()[0].split(",")]))
    runs = tr.noop([q[3] for q in noopq]) if noopq else []
    reqs = []
    for (c, e, gid, dims), ran in zip(noopq, runs):
        if not ran:
            c["vals"][e][gid] = "-"
        elif any(x > E.LIMIT for x in dims):
            c["vals"][e][gid] = "HUGE"
        else:
            reqs.append((c, e, gid, ("g%d_%d_t" % (c["idx"], gid), c["envs"][e], dims)))
    res = h.run([r[3] for r in reqs]) if reqs else []
    for (c, e, gid, _), r in zip(reqs, res):
        c["vals"][e][gid] = E.show_tuples(r)
    reqs = []
    for c in live_run:
        for e, envv in enumerate(c["envs"]):
            if c["oos"][e]:
                continue
            for m in E.CPU:
                reqs.append((c, e, m, ("%s%d" % (m[0], c["idx"]), envv, None)))
    res = h.run([r[3] for r in reqs]) if reqs else []
    for (c, e, m, _), r in zip(reqs, res):
        c["vals"][e][m] = E.show_tuples(r)
    out = []
    for c in cases:
        if c.get("malformed") or c["all_err"]:
            out.append("R ERR")
            continue
        if c["any_bad"]:
            flat = [(m, c["tr"][m]) for m in E.CPU] + [(m + ("-launcher" if k else ""), c["tr"][m][k]) for m in E.GPU for k in (0, 1)]
            out.append("R PARTIAL " + " ".join("%s=%s" % (m, "ok" if not (x == "ERR" or x.startswith("CRASH")) else x.replace(" ", "_"))
                                               for m, x in flat))
            continue
        if "harness_error" in c:
            out.append("R HARNESS-BUILD-FAILED " + c["harness_error"].replace("\n", " ")[-400:])
            continue
        if c["idx"] in h.bad:
            out.append("R T %s | V UNCOMPILABLE-EMITTED-SOURCE" % " ;; ".join(sorted(set(c["tt"].values()))))
            continue
        tts = set(c["tt"].values())
        if len(tts) == 1:
            texts = tts.pop()
        else:
            texts = " ;; ".join("%s{ %s }" % (m, c["tt"][m]) for m in sorted(c["tt"]))
        if c["var"] == "A":
            if len(c["groups"]) == 1:
                key = list(c["groups"].keys())[0]
                recs, guard = key.rsplit(" ; guard= ", 1)
                want_guard = texts.rsplit("check= ", 1)[1]
                texts += " ; gpu " + recs
                if guard != want_guard:
                    texts += " ; gpu-guard= " + guard
            else:
                texts += " ; gpu " + " ;; ".join("%s{ %s }" % ("+".join(ms), k) for k, (gid, ms) in c["groups"].items())
        vals = []
        for e in range(len(c["envs"])):
            if c["oos"][e]:
                vals.append("OOS")
                continue
            per = {}
            for key, (gid, ms) in c["groups"].items():
                for m in ms:
                    per[m] = c["vals"][e].get(gid, "?")
            for m in E.CPU:
                per[m] = c["vals"][e].get(m, "?")
            distinct = set(per.values())
            if len(distinct) == 1:
                vals.append(distinct.pop())
            else:
                vals.append("DIFF{ " + " ;; ".join("%s= %s" % (m, per[m]) for m in E.CPU + E.GPU if m in per) + " }")
        out.append("R T %s | V %s" % (texts, " ; ".join(vals)))
    return out


def main():
    driver_exe = sys.argv[1]
    lines = [l.rstrip("\n") for l in sys.stdin]
    lines = [l for l in lines if l.strip()]
    # bounded batches: one driver process / one harness per 120 cases (memory of the leaking parser, size of
    # the generated C++), results printed as they become available
    for k in range(0, len(lines), 120):
        with tempfile.TemporaryDirectory(prefix="c18h-") as wd:
            for o in process(lines[k:k + 120], driver_exe, wd):
                print(o, flush=True)


if __name__ == "__main__":
    main()
