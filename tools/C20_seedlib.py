#!/usr/bin/env python3
"""Development helper for the seeded-edit trials of C20/C21 (docs/notes/C20.md, C21.md).

  C20_seedlib.py <scratch repo tree> <scratch VERIF_WORK> <changed source, relative to the tree>...

Builds <VERIF_WORK>/build-plain/lib/libocca.so for the scratch tree WITHOUT a full rebuild: the changed sources are
compiled with exactly the command lines of /verif/_work/build-plain (paths /repo -> scratch tree) and linked with the
remaining objects of /verif/_work/build-plain.  A build.ninja with phony `libocca` / `occa` targets makes
vlib.common.build_lib accept the directory.  Only valid while the unchanged sources of the scratch tree equal /repo's
(a worktree of /repo's HEAD plus the seeded edit)."""
import os, re, shutil, subprocess, sys

SRC_BD = "/verif/_work/build-plain"


def main():
    tree, work = os.path.abspath(sys.argv[1]), os.path.abspath(sys.argv[2])
    changed = sys.argv[3:]
    bd = os.path.join(work, "build-plain")
    os.makedirs(os.path.join(bd, "lib"), exist_ok=True)
    os.makedirs(os.path.join(bd, "obj"), exist_ok=True)
    if not os.path.exists(os.path.join(bd, "include")):
        shutil.copytree(os.path.join(SRC_BD, "include"), os.path.join(bd, "include"))
    cmds = subprocess.run(["ninja", "-C", SRC_BD, "-t", "commands", "libocca"], stdout=subprocess.PIPE, text=True).stdout.splitlines()
    link = [c for c in cmds if " -shared " in c and "lib/libocca.so" in c][-1]
    repl = {}
    for src in changed:
        obj = "CMakeFiles/libocca.dir/%s.o" % src
        cc = [c for c in cmds if (" -o " + obj + " ") in c]
        if not cc:
            sys.exit("no compile command for " + src)
        newobj = os.path.join(bd, "obj", src.replace("/", "_") + ".o")
        c = cc[0].replace("/repo/", tree + "/").replace(" -o " + obj + " ", " -o " + newobj + " ")
        c = re.sub(r"-MD -MT \S+ -MF \S+", "", c)
        print("compile", src, flush=True)
        r = subprocess.run(c, shell=True, cwd=SRC_BD)
        if r.returncode != 0:
            sys.exit("compile failed")
        repl[obj] = newobj
    m = re.search(r"(/usr/bin/c\+\+ .* -o )lib/libocca\.so (.*?)( &&|$)", link)
    head, objs = m.group(1), m.group(2)
    for o, n in repl.items():
        if o not in objs.split():
            sys.exit("object not in link line: " + o)
        objs = " ".join(n if x == o else x for x in objs.split())
    out = os.path.join(bd, "lib", "libocca.so")
    print("link", flush=True)
    r = subprocess.run(head + out + " " + objs, shell=True, cwd=SRC_BD)
    if r.returncode != 0:
        sys.exit("link failed")
    open(os.path.join(bd, "build.ninja"), "w").write("build libocca: phony\nbuild occa: phony\n")
    print("ok", out)


if __name__ == "__main__":
    main()
