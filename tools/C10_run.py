#!/usr/bin/env python3
"""C10 two-phase runner (used as the implementation command of props/C10.py).

  C10_run.py <driver-exe>      cases on stdin, one "R F:<..> C:<..>" line per case on stdout

Phase 1 runs `<driver> fresh` on all cases: every kernel is parsed and compiled in that process
(OCCA_CACHE_DIR = $C10_CACHE_DIR, created empty by the caller for this batch and shared by the
parallel workers of the batch).  Phase 2 runs `<driver> cached` on the same cases in a new process
with the same cache directory and a compiler that always fails (OCCA_CXX=/bin/false): every kernel
must be loaded from the cache, its metadata from build.json.  A process that dies on a case yields
CRASH for that case and is restarted on the remaining ones."""
import os, subprocess, sys


def phase(exe, mode, lines, env):
    res = []
    pos = 0
    while pos < len(lines):
        p = subprocess.run([exe, mode], input="\n".join(lines[pos:]) + "\n", env=env, text=True,
                           stdout=subprocess.PIPE, stderr=subprocess.PIPE, errors="replace")
        got = [l[2:] for l in p.stdout.splitlines() if l.startswith("R ")]
        got = got[:len(lines) - pos]
        res.extend(got)
        pos += len(got)
        if pos < len(lines):
            sig = -p.returncode if p.returncode < 0 else p.returncode
            res.append("%s:CRASH(%s)" % ("F" if mode == "fresh" else "C", sig))
            pos += 1
    return res


def main():
    exe = sys.argv[1]
    lines = [l.rstrip("\n") for l in sys.stdin if l.strip()]
    env = dict(os.environ)
    cache = env.get("C10_CACHE_DIR")
    if not cache:
        sys.stderr.write("C10_CACHE_DIR not set\n")
        return 2
    os.makedirs(cache, exist_ok=True)
    env["OCCA_CACHE_DIR"] = cache
    env["OCCA_VERBOSE"] = "0"
    fresh = phase(exe, "fresh", lines, env)
    env2 = dict(env)
    env2["OCCA_CXX"] = "/bin/false"
    cached = phase(exe, "cached", lines, env2)
    for f, c in zip(fresh, cached):
        if f in ("BADCASE", "BUILDERR") and f == c:
            print("R " + f, flush=True)
        else:
            print("R %s %s" % (f, c), flush=True)
    return 0


if __name__ == "__main__":
    sys.exit(main())
