#!/usr/bin/env python3
"""Rewrite DESIGN.md section 12 from seeded/*/meta.json."""
import json, os, glob, re
HERE = os.path.dirname(os.path.dirname(os.path.abspath(__file__)))
rows, missed = [], []
for d in sorted(glob.glob(os.path.join(HERE, 'seeded', '*'))):
    m = os.path.join(d, 'meta.json')
    if not os.path.exists(m):
        continue
    j = json.load(open(m))
    diff = open(os.path.join(d, 'patch.diff'), errors='replace').read()
    files = sorted(set(re.findall(r'^\+\+\+ b/(\S+)', diff, re.M)))
    how = "replay with failing input" if j['caught_with_failing_input'] else ("no-failing-input-found (obligation/correspondence break)" if j['caught'] else "MISSED")
    if not j['caught']:
        missed.append(j['seed'])
    case = (j['replay_cases'][0] if j['replay_cases'] else '')[:90].replace('|', '/')
    rows.append("| %s | %s | %s | `%s` |" % (j['seed'], ", ".join(os.path.basename(f) for f in files), how, case))
NARR = open(os.path.join(HERE, 'docs', 'seed_narrative.md')).read().rstrip("\n")
out = ["", "---------------------------------------------------------------------------------------------", "",
       "## 12. Seeded changes (independent sub-agents) and which checks catch them", "",
       NARR, "",
       "Currently %d seeded changes; %s." % (len(rows), ("all are caught by the check of their property" if not missed else "NOT yet caught: " + ", ".join(missed))),
       "", "| seed | files changed | caught as | first replay case |", "|---|---|---|---|"] + rows + [""]
p = os.path.join(HERE, 'DESIGN.md')
s = open(p).read()
mark = "\n---------------------------------------------------------------------------------------------\n\n## 12. Seeded changes"
if mark in s:
    s = s[:s.index(mark)]
open(p, 'w').write(s.rstrip("\n") + "\n" + "\n".join(out))
print(len(rows), "rows; missed:", missed)
