#!/usr/bin/env python3
"""C20 implementation runner (the implementation command of props/C20.py; C21 imports its pieces).

  C20_run.py <C20 driver exe> <C20_tr driver exe>      case lines on stdin, one "R ..." line per case on stdout

Per case: the OKL text is printed from the case (tools/C20_okl.py); the Serial and OpenMP translations are JIT-built
and run by the real library (drivers/C20.cpp, kernels compiled with -fsanitize=address -fwrapv); the CUDA, HIP,
OpenCL, Metal and DPC++ translations (drivers/C20_tr.cpp = `occa translate`) are compiled unchanged, together with
the launcher source and a generated main, against drivers/C20_emul.hpp (g++ -fsanitize=address -fwrapv) and run.

  R V g0=..;g1=..                  every back end ended with these arrays
  R DIFF serial=<obs> | openmp=<obs> | cuda=<obs> ...     otherwise (obs: V.. | CRASH <summary> | TRERR | CCERR <msg>)
  R BADCASE <why>                  the case line does not parse
(T) On the emitted Serial and OpenMP sources the premise of serial_exclusive_array_ok is checked as text: one reset of
`_occa_exclusive_index` per inner nest in the body of the inner-most @outer loop, one increment per inner nest in the
body of the inner-most @inner loop (exclusive_index_check); a complaint makes the case a DIFF.

Environment: C20_MODES (comma list, default all seven), C20_TMP (scratch directory root), C20_JOBS."""
import os, re, shutil, subprocess, sys, tempfile
from concurrent.futures import ThreadPoolExecutor

HERE = os.path.dirname(os.path.abspath(__file__))
sys.path.insert(0, HERE)
import C20_okl as O

ALL_MODES = ["serial", "openmp", "cuda", "hip", "opencl", "metal", "dpcpp"]
GPU = ["cuda", "hip", "opencl", "metal", "dpcpp"]
EMUL = os.path.join(os.path.dirname(HERE), "drivers", "C20_emul.hpp")
STUBS = ["hip/hip_runtime.h", "metal_stdlib", "metal_compute", "CL/sycl.hpp", "occa/core/kernel.hpp"]
UNDEF = {"cuda": ["threadIdx", "blockIdx", "blockDim", "gridDim"], "hip": ["threadIdx", "blockIdx", "blockDim", "gridDim"],
         "opencl": ["restrict"], "metal": ["kernel", "device", "constant", "threadgroup"], "dpcpp": []}
CXXFLAGS = ["-std=c++17", "-O0", "-g1", "-fwrapv", "-fsanitize=address", "-fno-omit-frame-pointer", "-pthread", "-w"]


def san_summary(err, rc):
    m = re.search(r"SUMMARY: (\w+Sanitizer: [^\n]{0,120})", err)
    if m:
        s = re.sub(r"0x[0-9a-f]+", "0x", m.group(1))
        s = re.sub(r"/[^ ]*/", "", s)
        s = re.sub(r"[0-9a-f]{16}", "H", s)
        s = re.sub(r":\d+", "", s)
        return "CRASH " + s
    m = re.search(r"C20-EMUL-ERROR: ([^\n]*)", err)
    if m:
        return "CRASH emulation: " + m.group(1)
    if rc is None:
        return "CRASH timeout"
    return "CRASH exit %s" % rc


def run_driver_lines(cmd, lines, env, timeout=600):
    """one observation (text after 'R ') per line; a process death is attributed to the line it died on"""
    res = []
    pos = 0
    while pos < len(lines):
        try:
            p = subprocess.run(cmd, input="\n".join(lines[pos:]) + "\n", env=env, text=True, errors="replace",
                               stdout=subprocess.PIPE, stderr=subprocess.PIPE, timeout=timeout)
            rc, out, err = p.returncode, p.stdout, p.stderr
        except subprocess.TimeoutExpired as ex:
            rc, out, err = None, (ex.stdout or b"").decode("utf8", "replace") if isinstance(ex.stdout, bytes) else (ex.stdout or ""), ""
        got = [l[2:] for l in out.splitlines() if l.startswith("R ")][:len(lines) - pos]
        res.extend(got)
        pos += len(got)
        if pos < len(lines):
            res.append(san_summary(err, rc))
            pos += 1
    return res


def split_params(text):
    """parameter list text -> list of parameter texts (top-level commas)"""
    out, depth, cur = [], 0, ""
    for ch in text:
        if ch in "([<":
            depth += 1
        elif ch in ")]>":
            depth -= 1
        if ch == "," and depth == 0:
            out.append(cur)
            cur = ""
        else:
            cur += ch
    if cur.strip():
        out.append(cur)
    return [x.strip() for x in out]


def device_kernel_params(src, fname):
    """parameter texts of the (last) definition of fname in the translated source"""
    idx = [m.end() for m in re.finditer(r"\b%s\s*\(" % re.escape(fname), src)]
    if not idx:
        return None
    i = idx[-1]
    depth, j = 1, i
    while j < len(src) and depth:
        if src[j] == "(":
            depth += 1
        elif src[j] == ")":
            depth -= 1
        j += 1
    return split_params(src[i:j - 1])


def glue_functions(K, mode, ksrc, tag):
    """glue for one kernel: c20_call_<tag>_<q> per device kernel and run_<tag>() -> list of lines, or None"""
    nk = len(K["obs"])
    out = []
    nargs, narr = len(K["args"]), len(K["garr"])
    for q in range(nk):
        fname = "_occa_%s_%d" % (K["name"], q)
        params = device_kernel_params(ksrc, fname)
        if params is None:
            return None
        call = []
        if mode == "dpcpp":
            # (sycl::queue*, sycl::nd_range<3>*, user arguments...)
            user = params[2:]
            call += ["&q_", "&r_"]
        elif mode == "metal":
            user = params[:-2]
        else:
            user = params
        if len(user) != nargs + narr:
            return None
        for n, ptxt in enumerate(user):
            if n < nargs:
                if "*" in ptxt:
                    return None
                call.append("*(int*) a[%d]" % n)
            else:
                if "*" not in ptxt:
                    return None
                call.append("(int*) a[%d]" % n)
        if mode == "metal":
            call += ["c20::g_block", "c20::g_thread"]
        out.append("static void c20_call_%s_%d(void **a) {" % (tag, q))
        if mode == "dpcpp":
            out.append("  sycl::queue q_; sycl::nd_range<3> r_ = c20::dpcpp_range();")
        out.append("  %s(%s);" % (fname, ", ".join(call)))
        out.append("}")
    out.append("static void run_%s() {" % tag)
    for n, v in enumerate(K["args"]):
        out.append("  int p%d = %d;" % (n, v))
    for a, n in enumerate(K["garr"]):
        out.append("  int *g%d = (int*) malloc(sizeof(int) * %d);" % (a, n))
        out.append("  for (int i = 0; i < %d; ++i) g%d[i] = ((i * 7 + %d * 13 + 5) %% 23) - 9;" % (n, a, a))
        out.append("  occa::modeMemory_t m%d = { g%d };" % (a, a))
    out.append("  occa::modeKernel_t ks[%d];" % nk)
    out.append("  occa::modeKernel_t *kp[%d];" % nk)
    for q in range(nk):
        out.append("  ks[%d].call = c20_call_%s_%d; ks[%d].per_thread = %s; kp[%d] = &ks[%d];" % (
            q, tag, q, q, "false" if mode == "dpcpp" else "true", q, q))
    out.append("  c20_launcher_%s::%s(kp%s%s);" % (tag, K["name"], "".join(", p%d" % n for n in range(nargs)),
                                                   "".join(", &m%d" % a for a in range(narr))))
    out.append('  printf("R V ");')
    for a, n in enumerate(K["garr"]):
        out.append('  printf("%sg%d=");' % (";" if a else "", a))
        out.append('  for (int i = 0; i < %d; ++i) printf(i ? ",%%d" : "%%d", g%d[i]);' % (n, a))
    out.append('  printf("\\n");')
    for a in range(narr):
        out.append("  free(g%d);" % a)
    out.append("}")
    return out


def make_stubs(d):
    for s in STUBS:
        p = os.path.join(d, s)
        os.makedirs(os.path.dirname(p), exist_ok=True)
        if not os.path.exists(p):
            open(p, "w").write("// stub for the C20 emulation\n")


def build_program(mode, members, d, stubdir):
    """one program for the kernels `members` = [(tag, K, kernel source path, launcher source path)] of one mode:
       all kernel sources (dialect macros on), #undefs, all launcher sources, glue, main(argv[1] = tag).
       -> (exe or None, error text)"""
    os.makedirs(d, exist_ok=True)
    out = ["// generated by tools/C20_run.py"]
    glue = []
    for tag, K, kf, lf in members:
        g = glue_functions(K, mode, open(kf).read(), tag)
        if g is None:
            return None, "device kernel signature not understood (%s)" % K["name"]
        glue += g
        out.append('#include "%s"' % kf)
    for u in UNDEF[mode]:
        out.append("#undef " + u)
    for tag, K, kf, lf in members:
        # the launcher is a host translation unit of its own in the library (it repeats the file's helper functions)
        out.append("namespace c20_launcher_%s {" % tag)
        out.append('#include "%s"' % lf)
        out.append("}")
    out += glue
    out.append("int main(int argc, char **argv) {")
    out.append("  if (argc < 2) return 2;")
    for tag, K, kf, lf in members:
        out.append('  if (!strcmp(argv[1], "%s")) { run_%s(); return 0; }' % (tag, tag))
    out.append("  return 2;")
    out.append("}")
    src = os.path.join(d, "prog.cpp")
    open(src, "w").write("\n".join(out) + "\n")
    exe = os.path.join(d, "prog")
    cmd = ["g++"] + CXXFLAGS + ["-DC20_" + mode.upper(), "-include", EMUL, "-I", stubdir, src, "-o", exe]
    p = subprocess.run(cmd, stdout=subprocess.PIPE, stderr=subprocess.PIPE, text=True, errors="replace")
    if p.returncode != 0:
        msg = [l for l in p.stderr.splitlines() if "error" in l]
        m = re.sub(r"^[^ ]*: ", "", msg[0]) if msg else "?"
        return None, m[:160]
    return exe, ""


def run_program(exe, tag, env):
    try:
        r = subprocess.run([exe, tag], stdout=subprocess.PIPE, stderr=subprocess.PIPE, text=True, errors="replace", env=env, timeout=300)
    except subprocess.TimeoutExpired:
        return "CRASH timeout"
    lines = [l[2:] for l in r.stdout.splitlines() if l.startswith("R ")]
    if r.returncode == 0 and lines:
        return lines[0]
    return san_summary(r.stderr, r.returncode)


def emulate_mode(mode, prepared, root, stubdir, env, pool):
    """-> {case index: observation} for one GPU mode; the kernels of the batch share one program (split on a compile error)"""
    res = {}
    members = []
    for i, (K, bad, kdir, okl) in enumerate(prepared):
        if K is None:
            continue
        kf, lf = os.path.join(kdir, mode + ".kernel"), os.path.join(kdir, mode + ".launcher")
        if not (os.path.exists(kf) and os.path.exists(lf)):
            res[i] = "TRERR"
            continue
        members.append(("c%d" % i, K, kf, lf))

    def build_and_run(ms, depth):
        if not ms:
            return
        exe, err = build_program(mode, ms, os.path.join(root, "prog-%s-%d-%s" % (mode, depth, ms[0][0])), stubdir)
        if exe is None:
            if len(ms) == 1:
                res[int(ms[0][0][1:])] = "CCERR " + err
                return
            h = len(ms) // 2
            build_and_run(ms[:h], depth + 1)
            build_and_run(ms[h:], depth + 1)
            return
        for tag, o in zip([m[0] for m in ms], pool.map(lambda m: run_program(exe, m[0], env), ms)):
            res[int(tag[1:])] = o
    build_and_run(members, 0)
    return res


def exclusive_index_check(K, src):
    """(T) premise of serial_exclusive_array_ok on an emitted Serial / OpenMP source: inside every outer block that declares
    an @exclusive variable, each inner nest has exactly one `_occa_exclusive_index = 0;` directly in the body of the
    inner-most @outer loop and exactly one `++_occa_exclusive_index;`, directly in the body of the inner-most @inner loop
    (one increment per inner tuple).  -> list of complaints"""
    bad = []
    depth = 0
    ob, ob_depth = -1, None
    nouter = 0
    nob = len(K["obs"])
    resets = [0] * nob
    incs = [0] * nob
    for raw in src.splitlines():
        l = raw.strip()
        if re.match(r"^for \(int o0 = 0;", l):
            ob, ob_depth = nouter, depth
            nouter += 1
        if 0 <= ob < nob:
            o = K["obs"][ob]
            nod, nid = len(o["odims"]), len(o["idims"])
            if l == "_occa_exclusive_index = 0;":
                resets[ob] += 1
                if depth != ob_depth + nod:
                    bad.append("X1 exclusive index reset at nesting depth %d, expected %d (body of the inner-most @outer loop)"
                               % (depth - ob_depth, nod))
            if re.match(r"^(\+\+_occa_exclusive_index|_occa_exclusive_index\+\+|_occa_exclusive_index \+= 1);$", l):
                incs[ob] += 1
                if depth != ob_depth + nod + nid:
                    bad.append("X2 exclusive index incremented at nesting depth %d, expected %d (body of the inner-most @inner loop)"
                               % (depth - ob_depth, nod + nid))
        elif "_occa_exclusive_index" in l and not l.startswith("int "):
            bad.append("X? exclusive index used outside an outer loop: " + l[:60])
        depth += l.count("{") - l.count("}")
        if ob != -1 and depth <= ob_depth:
            ob = -1
    want = [len(o["secs"]) if o["nexc"] else 0 for o in K["obs"]]
    if nouter != nob:
        bad.append("X? %d outer-most @outer loops found, %d expected" % (nouter, nob))
    if resets != want:
        bad.append("X1 exclusive index resets per outer block %s, expected %s (one per inner nest)" % (resets, want))
    if incs != want:
        bad.append("X2 exclusive index increments per outer block %s, expected %s (one per inner nest)" % (incs, want))
    out = []
    for b in bad:
        if b not in out:
            out.append(b)
    return out


def driver_line(mode, K, okl):
    return "%s %s %s %d %s %d %s" % ({"serial": "Serial", "openmp": "OpenMP"}[mode], okl, K["name"], len(K["args"]),
                                     " ".join(map(str, K["args"])), len(K["garr"]), " ".join(map(str, K["garr"])))


def asan_env(base):
    env = dict(base)
    env["ASAN_OPTIONS"] = "detect_leaks=0:exitcode=97:detect_odr_violation=0:allocator_may_return_null=1"
    return env


def prepare(lines, root):
    """-> list of (K or None, badmsg, kdir, okl path)"""
    res = []
    for n, line in enumerate(lines):
        try:
            K = O.parse_case(line)
            kdir = os.path.join(root, "c%d" % n)
            os.makedirs(kdir, exist_ok=True)
            okl = os.path.join(kdir, K["name"] + ".okl")
            open(okl, "w").write(O.okl_text(K))
            res.append((K, None, kdir, okl))
        except (O.Bad, ValueError, IndexError, KeyError) as e:
            res.append((None, str(e) or "parse", None, None))
    return res


def translate_all(trexe, prepared, modes, env, jobs):
    """run the translation driver over every (case, mode); shards over processes"""
    work = []
    for K, bad, kdir, okl in prepared:
        if K is None:
            continue
        for m in modes:
            work.append("%s %s %s %s" % (m, okl, os.path.join(kdir, m + ".kernel"),
                                         os.path.join(kdir, m + ".launcher") if m in GPU else "-"))
    if not work:
        return
    k = max(1, min(jobs, len(work) // 4 or 1))
    shards = [work[i::k] for i in range(k)]
    with ThreadPoolExecutor(max_workers=k) as ex:
        list(ex.map(lambda sh: run_driver_lines([trexe], sh, env), shards))


def main():
    import time
    T0 = time.time()
    timing = os.environ.get('C20_TIMING')
    drv, trexe = sys.argv[1], sys.argv[2]
    lines = [l.rstrip("\n") for l in sys.stdin if l.strip()]
    modes = [m for m in os.environ.get("C20_MODES", ",".join(ALL_MODES)).split(",") if m in ALL_MODES]
    jobs = int(os.environ.get("C20_JOBS", str(min(16, os.cpu_count() or 4))))
    base = os.environ.get("C20_TMP") or tempfile.gettempdir()
    os.makedirs(base, exist_ok=True)
    root = tempfile.mkdtemp(prefix="c20-", dir=base)
    try:
        env = asan_env(os.environ)
        env["OCCA_CACHE_DIR"] = os.path.join(root, "occa-cache")
        env["OCCA_VERBOSE"] = "0"
        stubdir = os.path.join(root, "stubs")
        make_stubs(stubdir)
        prepared = prepare(lines, root)
        obs = [dict() for _ in lines]
        translate_all(trexe, prepared, [m for m in modes], env, jobs)
        # (T) the exclusive-index scheme in the emitted Serial / OpenMP text
        xnotes = [[] for _ in lines]
        for i, (K, bad, kdir, okl) in enumerate(prepared):
            if K is None:
                continue
            for m in ("serial", "openmp"):
                kf = os.path.join(kdir, m + ".kernel")
                if m in modes and os.path.exists(kf):
                    xnotes[i] += ["%s: %s" % (m, x) for x in exclusive_index_check(K, open(kf).read())]
        if timing:
            sys.stderr.write('translate done %.1f\n' % (time.time() - T0))

        def cpu_mode(m):
            idx = [i for i, p in enumerate(prepared) if p[0] is not None]
            k = max(1, min(jobs // 2 or 1, len(idx)))
            shards = [idx[i::k] for i in range(k)]

            def one(sh):
                r = run_driver_lines([drv], [driver_line(m, prepared[i][0], prepared[i][3]) for i in sh], env)
                return sh, r
            with ThreadPoolExecutor(max_workers=k) as ex:
                for sh, r in ex.map(one, shards):
                    for i, x in zip(sh, r):
                        obs[i][m] = x

        with ThreadPoolExecutor(max_workers=jobs) as ex, ThreadPoolExecutor(max_workers=jobs) as runpool:
            futs = []
            for m in modes:
                if m in ("serial", "openmp"):
                    futs.append((m, ex.submit(cpu_mode, m)))
                else:
                    futs.append((m, ex.submit(emulate_mode, m, prepared, root, stubdir, env, runpool)))
            for m, f in futs:
                r = f.result()
                if timing:
                    sys.stderr.write('%s done %.1f\n' % (m, time.time() - T0))
                if m in GPU:
                    for i, o in r.items():
                        obs[i][m] = o
        for i, p in enumerate(prepared):
            if p[0] is None:
                print("R BADCASE " + p[1], flush=True)
                continue
            vals = [obs[i].get(m, "MISSING") for m in modes]
            if xnotes[i]:
                print("R DIFF " + " | ".join(xnotes[i] + ["%s=%s" % (m, obs[i].get(m, "MISSING")) for m in modes]), flush=True)
            elif vals and all(v == vals[0] for v in vals) and vals[0].startswith("V "):
                print("R " + vals[0], flush=True)
            else:
                print("R DIFF " + " | ".join("%s=%s" % (m, obs[i].get(m, "MISSING")) for m in modes), flush=True)
    finally:
        if not os.environ.get("C20_KEEP"):
            shutil.rmtree(root, ignore_errors=True)
    return 0


if __name__ == "__main__":
    sys.exit(main())
