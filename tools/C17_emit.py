#!/usr/bin/env python3
"""C17 implementation side (also the library of helpers for C18 / C19).

Reads the cases of extract/C17/driver.ml on stdin and prints, per case, one line
    R T <texts> | V <values>
obtained from the REAL translators:
  * the OKL kernel of the case is translated by drivers/C17.cpp (libocca built from the tree under
    test) for Serial, OpenMP, CUDA, HIP, OpenCL, Metal, DPC++ and, for the five launcher back ends,
    the launcher source as well;
  * texts: the emitted `outer[k] = ...;` / `inner[k] = ...;` launch-size expressions and the emitted
    `int it = ... <thread index> ...;` declarations, tokenised; the thread-index identifiers of each
    back end are mapped to @o<axis> / @i<axis> by the table MAGIC below (trusted).  They have to be
    token-for-token what Expr.print gives for Model.count_tree / Model.value_tree;
  * values: every emitted expression is compiled by g++ (-fsanitize=undefined, one forked child per
    evaluation so that undefined behaviour is observed and isolated) and the launch is emulated:
    dims from the launcher statements, the decision to launch from occa::kernel::run itself
    (driver query `noop`), one iterator tuple per thread index vector.  The Serial and OpenMP
    translations are compiled as they are and run.  All seven have to agree with the specification.
"""
import os, re, subprocess, sys, tempfile, hashlib

VERIF = os.path.dirname(os.path.dirname(os.path.abspath(__file__)))
LIMIT = 4096
GPU = ["cuda", "hip", "opencl", "metal", "dpcpp"]
CPU = ["serial", "openmp"]

# thread-index identifiers -> (kind, axis)          [trusted table]
MAGIC = [
    # dpcpp.cpp dpcppDimensionOrder: SYCL's fastest dimension is 2
    (r"item_\.get_group\((\d)\)", lambda m: "@o%d" % (2 - int(m.group(1)))),
    (r"item_\.get_local_id\((\d)\)", lambda m: "@i%d" % (2 - int(m.group(1)))),
    (r"blockIdx\.([xyz])", lambda m: "@o%d" % "xyz".index(m.group(1))),
    (r"threadIdx\.([xyz])", lambda m: "@i%d" % "xyz".index(m.group(1))),
    (r"get_group_id\((\d)\)", lambda m: "@o%s" % m.group(1)),
    (r"get_local_id\((\d)\)", lambda m: "@i%s" % m.group(1)),
    (r"_occa_group_position\.([xyz])", lambda m: "@o%d" % "xyz".index(m.group(1))),
    (r"_occa_thread_position\.([xyz])", lambda m: "@i%d" % "xyz".index(m.group(1))),
]

TOKEN = re.compile(r"\s*(@?[A-Za-z_][A-Za-z_0-9]*|\d+|<<|>>|<=|>=|==|!=|&&|\|\||\+\+|--|\+=|-=|[-+*/%<>&^|!~?:()\[\]=,;.])")


def tokenize(text):
    """C text -> token list (None when something is not recognised)."""
    for pat, rep in MAGIC:
        text = re.sub(pat, rep, text)
    out = []
    pos = 0
    text = text.strip()
    while pos < len(text):
        m = TOKEN.match(text, pos)
        if not m:
            return None
        out.append(m.group(1))
        pos = m.end()
    return out


def canon(text):
    t = tokenize(text)
    return " ".join(t) if t is not None else "?UNTOKENIZABLE(" + text + ")"


# --------------------------------------------------------------------------- driver access

class Translator:
    """drivers/C17.cpp as a batch service; isolates crashes of the library."""

    def __init__(self, exe):
        self.exe = exe
        self.env = dict(os.environ)
        # leaks of the translator are not this property's subject
        # (no allocation stack traces, small quarantine, no release of freed pages: the parser makes very many
        #  small allocations; invalid accesses are still detected and stop the driver)
        self.env["ASAN_OPTIONS"] = ("detect_leaks=0:abort_on_error=0:exitcode=97:allocator_may_return_null=1:"
                                    "malloc_context_size=0:quarantine_size_mb=8:allocator_release_to_os_interval_ms=-1")

    def _run(self, lines):
        p = subprocess.run([self.exe], input="\n".join(lines) + "\n", env=self.env, text=True,
                           stdout=subprocess.PIPE, stderr=subprocess.PIPE, errors="replace")
        return [l[2:] for l in p.stdout.splitlines() if l.startswith("R ")], p.stderr

    def batch(self, lines):
        res = []
        pos = 0
        while pos < len(lines):
            got, err = self._run(lines[pos:])
            res.extend(got[: len(lines) - pos])
            pos = len(res)
            if pos < len(lines):
                m = re.search(r"SUMMARY: ([^\n]{0,120})", err) or re.search(r"runtime error: ([^\n]{0,120})", err)
                res.append("CRASH " + (re.sub(r"0x[0-9a-f]+", "0x", m.group(1)) if m else "died"))
                pos += 1
        return res

    def translate(self, jobs):
        """jobs: list of (mode, 0|1|2, source) -> list of translated text / 'ERR' / 'CRASH ...';
        with 2: pairs (kernel source, launcher source) from one parse"""
        out = self.batch(["%s %d %s" % (m, l, s.encode().hex()) for m, l, s in jobs])
        res = []
        for (m, l, src), o in zip(jobs, out):
            if o == "ERR" or o.startswith("CRASH"):
                res.append((o, o) if l == 2 else o)
            elif l == 2:
                parts = o.split()
                dev = bytes.fromhex(parts[0]).decode("utf8", "replace")
                lau = bytes.fromhex(parts[1]).decode("utf8", "replace") if len(parts) > 1 else ""
                res.append((dev, lau))
            else:
                res.append(bytes.fromhex(o).decode("utf8", "replace"))
        return res

    def noop(self, dims_list):
        """dims_list: list of 6-tuples of unsigned ints -> list of bool (True = kernel::run launches)"""
        out = self.batch(["noop " + " ".join(str(d) for d in dims) for dims in dims_list])
        return [o == "1" for o in out]


# --------------------------------------------------------------------------- g++ harness

HARNESS_HEAD = r'''
#include <cstdio>
#include <cstdlib>
#include <cstring>
#include <string>
#include <vector>
#include <iostream>
#include <sstream>
#include <unistd.h>
#include <sys/wait.h>
#ifdef _OPENMP
#include <omp.h>
#endif
typedef unsigned long long u64;
static const int LIMIT = %d;
struct Out {
  std::string s; long n; bool huge;
  Out() : n(0), huge(false) {}
  void emit(std::initializer_list<long long> t) {
    if (n >= LIMIT) { huge = true; return; }
    ++n;
    bool first = true;
    for (long long x : t) { if (!first) s += ","; first = false; s += std::to_string(x); }
    s += " ";
  }
};
typedef void (*fn_t)(int, int, int, int, const u64 *, Out &);
struct Entry { const char *name; fn_t fn; };
''' % LIMIT

HARNESS_MAIN = r'''
struct Req { std::string name; int N, M, P, Q; u64 d[6]; };

static void serve(const std::vector<Req> &reqs, size_t from, int fd) {
  // child: evaluate requests from `from` on, one result line per request; dies on undefined behaviour
  for (size_t k = from; k < reqs.size(); ++k) {
    const Req &r = reqs[k];
    fn_t fn = NULL;
    for (const Entry *e = table; e->name; ++e) if (r.name == e->name) { fn = e->fn; break; }
    std::string line;
    if (!fn) {
      line = "NOFN";
    } else {
      Out out;
      fn(r.N, r.M, r.P, r.Q, r.d, out);
      line = out.huge ? std::string("HUGE") : (out.s.empty() ? std::string("-") : out.s);
    }
    line += "\n";
    size_t off = 0;
    while (off < line.size()) {
      ssize_t w = write(fd, line.data() + off, line.size() - off);
      if (w <= 0) _exit(3);
      off += (size_t) w;
    }
  }
  _exit(0);
}

int main() {
#ifdef _OPENMP
  omp_set_num_threads(1);
#endif
  std::vector<Req> reqs;
  std::string line;
  while (std::getline(std::cin, line)) {
    std::istringstream ss(line);
    Req r;
    for (int i = 0; i < 6; ++i) r.d[i] = 1;
    if (!(ss >> r.name >> r.N >> r.M >> r.P >> r.Q)) continue;
    for (int i = 0; i < 6; ++i) { u64 v; if (ss >> v) r.d[i] = v; }
    reqs.push_back(r);
  }
  size_t pos = 0;
  while (pos < reqs.size()) {
    int fd[2];
    if (pipe(fd)) return 3;
    fflush(stdout);
    pid_t pid = fork();
    if (pid == 0) {
      close(fd[0]);
      serve(reqs, pos, fd[1]);
    }
    close(fd[1]);
    std::string buf;
    char tmp[65536];
    ssize_t k;
    while ((k = read(fd[0], tmp, sizeof tmp)) > 0) buf.append(tmp, k);
    close(fd[0]);
    int st = 0;
    waitpid(pid, &st, 0);
    // complete lines are results
    size_t start = 0, nl;
    while ((nl = buf.find('\n', start)) != std::string::npos && pos < reqs.size()) {
      std::cout << "R " << buf.substr(start, nl - start) << "\n";
      start = nl + 1;
      ++pos;
    }
    if (pos < reqs.size() && !(WIFEXITED(st) && WEXITSTATUS(st) == 0)) {
      // the child died while evaluating request `pos`
      std::cout << "R UB\n";
      ++pos;
    } else if (pos < reqs.size() && start >= buf.size()) {
      // clean exit without all results: should not happen
      std::cout << "R HARNESSDIED\n";
      ++pos;
    }
  }
  std::cout.flush();
  return 0;
}
'''


class Harness:
    """Collects C++ functions `void f(int N,int M,int P,int Q,const u64 *d, Out &out)`, compiles them
    once with UBSan and evaluates requests in forked children."""

    def __init__(self, workdir):
        self.workdir = workdir
        self.funcs = []      # (name, body, owner)
        self.raw = []        # (raw top-level source (translated kernels), owner)
        self.exe = None
        self.bad = set()     # owners (case indices) whose code does not compile; they are left out
        self.error = ""

    @staticmethod
    def owner_of(name):
        m = re.match(r"^[a-z]+(\d+)", name)
        return int(m.group(1)) if m else None

    def add(self, name, body):
        self.funcs.append((name, body, self.owner_of(name)))

    def add_raw(self, src, owner=None):
        self.raw.append((src, owner))

    def _compile(self):
        pieces = [(None, HARNESS_HEAD)]
        pieces += [(o, r) for r, o in self.raw if o not in self.bad]
        funcs = [(n, b, o) for n, b, o in self.funcs if o not in self.bad]
        for name, body, o in funcs:
            pieces.append((o, "static void %s(int N, int M, int P, int Q, const u64 *d, Out &out) {\n%s\n}\n" % (name, body)))
        pieces.append((None, "static const Entry table[] = {\n" + "".join('  {"%s", %s},\n' % (n, n) for n, _, _ in funcs)
                       + "  {NULL, NULL}\n};\n"))
        pieces.append((None, HARNESS_MAIN))
        text = ""
        spans = []           # (first line, last line, owner)
        line = 1
        for o, t in pieces:
            if not t.endswith("\n"):
                t += "\n"
            n = t.count("\n")
            spans.append((line, line + n - 1, o))
            line += n
            text += t
        h = hashlib.sha1(text.encode()).hexdigest()[:12]
        cpp = os.path.join(self.workdir, "h_%s.cpp" % h)
        exe = os.path.join(self.workdir, "h_%s" % h)
        open(cpp, "w").write(text)
        cmd = ["g++", "-std=c++17", "-O0", "-w", "-fopenmp", "-fsanitize=undefined,float-divide-by-zero",
               "-fno-sanitize-recover=all", cpp, "-o", exe]
        p = subprocess.run(cmd, stdout=subprocess.PIPE, stderr=subprocess.PIPE, text=True)
        if p.returncode == 0:
            self.exe = exe
            return True, set()
        self.error = p.stderr[-3000:]
        owners = set()
        for m in re.finditer(r"\.cpp:(\d+):\d+: error", p.stderr):
            ln = int(m.group(1))
            for a, b, o in spans:
                if a <= ln <= b and o is not None:
                    owners.add(o)
        return False, owners

    def build(self):
        """compile; code of a case that does not compile is left out (self.bad) so that it cannot take the other
        cases of the batch with it"""
        for _ in range(6):
            ok, owners = self._compile()
            if ok:
                return True
            if not owners:
                return False
            self.bad |= owners
        return False

    def run(self, reqs):
        """reqs: list of (name, (N,M,P,Q), dims or None) -> list of result strings"""
        if not reqs:
            return []
        lines = []
        for name, envv, dims in reqs:
            lines.append("%s %d %d %d %d%s" % (name, envv[0], envv[1], envv[2], envv[3],
                                               "".join(" %d" % x for x in (dims or []))))
        env = dict(os.environ)
        env["UBSAN_OPTIONS"] = "print_stacktrace=0:halt_on_error=1"
        p = subprocess.run([self.exe], input="\n".join(lines) + "\n", stdout=subprocess.PIPE,
                           stderr=subprocess.DEVNULL, text=True, env=env)
        out = [l[2:] for l in p.stdout.splitlines() if l.startswith("R ")]
        while len(out) < len(reqs):
            out.append("HARNESSDIED")
        return out


def c_ident(tok):
    """model token -> C++ token inside the harness"""
    if tok.startswith("@"):
        return "_" + tok[1:]
    return tok


def c_text(tokens):
    return " ".join(c_ident(t) for t in tokens.split())


def show_tuples(raw):
    """'a,b c,d ...' (unsorted) -> sorted with multiplicities, '-' when empty"""
    if raw in ("UB", "HUGE", "-", "OOS", "NOFN", "HARNESSDIED") or raw.startswith("CRASH"):
        return raw
    ts = [tuple(int(x) for x in t.split(",")) for t in raw.split()]
    ts.sort()
    out = []
    i = 0
    while i < len(ts):
        j = i
        while j < len(ts) and ts[j] == ts[i]:
            j += 1
        s = ",".join(str(x) for x in ts[i])
        out.append(s if j - i == 1 else "%s*%d" % (s, j - i))
        i = j
    return " ".join(out) if out else "-"


# --------------------------------------------------------------------------- C17 cases

CMP = {"lt": "<", "le": "<=", "gt": ">", "ge": ">="}
NAMES = {"o": ["o0", "o1", "o2"], "i": ["i0", "i1", "i2"]}


class Malformed(Exception):
    pass


def split_kw(tokens, kw):
    res, cur = [], None
    for t in tokens:
        if t == kw:
            if cur is not None:
                res.append(cur)
            cur = []
        elif cur is not None:
            cur.append(t)
    if cur is not None:
        res.append(cur)
    return res


def parse_case(line):
    t = line.split()
    if len(t) < 3 or t[0] != "K":
        raise Malformed("case")
    try:
        no, ni = int(t[1]), int(t[2])
    except ValueError:
        raise Malformed("nest")
    if not (1 <= no <= 3 and 1 <= ni <= 3):
        raise Malformed("nest")
    rest = t[3:]
    fork = 0
    if rest[:1] == ["fork"]:
        try:
            fork = int(rest[1])
        except (ValueError, IndexError):
            raise Malformed("fork")
        if not (1 <= fork <= no + ni - 1):
            raise Malformed("fork")
    head = rest[: rest.index("loop")] if "loop" in rest else rest
    envs = []
    for e in split_kw(head, "env"):
        if len(e) != 4:
            raise Malformed("env")
        try:
            envs.append(tuple(int(x) for x in e))
        except ValueError:
            raise Malformed("env")
    if not envs:
        raise Malformed("env")
    loops = []
    for l in split_kw(rest, "loop"):
        if len(l) < 3 or l[0] not in CMP or l[1] not in ("L", "R") or l[2] not in ("inc", "pinc", "dec", "pdec", "add", "sub"):
            raise Malformed("loop")
        sect = None
        ops = {"i": [], "b": [], "s": []}
        for x in l[3:]:
            if x in ops:
                sect = x
            elif sect is None:
                raise Malformed("operand")
            else:
                ops[sect].append(x)
        if not ops["i"] or not ops["b"]:
            raise Malformed("operand")
        if (l[2] in ("add", "sub")) != bool(ops["s"]):
            raise Malformed("step")
        loops.append(dict(cmp=l[0], side=l[1], upd=l[2], init=" ".join(ops["i"]), bound=" ".join(ops["b"]),
                          step=" ".join(ops["s"])))
    if len(loops) != no + ni:
        raise Malformed("loops")
    for k, l in enumerate(loops):
        l["kind"] = "o" if k < no else "i"
        l["name"] = NAMES[l["kind"]][k if k < no else k - no]
    return no, ni, envs, loops, fork


def header_text(l):
    it = l["name"]
    cond = "%s %s %s" % (it, CMP[l["cmp"]], l["bound"]) if l["side"] == "L" else "%s %s %s" % (l["bound"], CMP[l["cmp"]], it)
    upd = {"inc": "++" + it, "pinc": it + "++", "dec": "--" + it, "pdec": it + "--",
           "add": "%s += %s" % (it, l["step"]), "sub": "%s -= %s" % (it, l["step"])}[l["upd"]]
    return "int %s = %s; %s; %s" % (it, l["init"], cond, upd)


def chains(loops, fork):
    """-> (common prefix, [chain, ...]): with a fork the loops fork.. appear twice (second copy: iterators x<name>)"""
    if not fork:
        return loops, [[]]
    second = []
    for l in loops[fork:]:
        c = dict(l)
        c["name"] = "x" + l["name"]
        second.append(c)
    return loops[:fork], [loops[fork:], second]


def okl_source(kname, loops, fork=0):
    prefix, chs = chains(loops, fork)
    width = len(loops) + (1 if fork else 0)
    lines = ["@kernel void %s(const int N, const int M, const int P, const int Q, int *h) {" % kname]

    def open_loops(ls, ind):
        for l in ls:
            lines.append("%sfor (%s; @%s) {" % (ind, header_text(l), "outer" if l["kind"] == "o" else "inner"))
            ind += "  "
        return ind

    def close_loops(ls, ind):
        for l in ls:
            ind = ind[:-2]
            lines.append("%s}" % ind)
        return ind
    ind = open_loops(prefix, "  ")
    for tagv, ch in enumerate(chs):
        ind2 = open_loops(ch, ind)
        names = [l["name"] for l in prefix + ch]
        vals = ([str(tagv)] if fork else []) + names
        lines.append("%sint p = h[0];" % ind2)
        lines.append("%sh[0] = p + 1;" % ind2)
        lines.append("%sif (p < %d) {" % (ind2, LIMIT))
        for j, v in enumerate(vals):
            lines.append("%s  h[1 + %d * p + %d] = %s;" % (ind2, width, j, v))
        lines.append("%s}" % ind2)
        close_loops(ch, ind2)
    close_loops(prefix, ind)
    lines.append("}")
    return "\n".join(lines) + "\n"


ASSIGN_DIM = re.compile(r"^\s*(outer|inner)\[(\d+)\] = (.*);\s*$")
DECL = re.compile(r"^\s*int ([A-Za-z_][A-Za-z_0-9]*) = (.*);\s*$")
FOR = re.compile(r"^\s*for \((.*)\) \{\s*$")


def launcher_records(text, itnames):
    """launcher source -> ordered statements [('decl', var, text) | ('dim', kind, axis, text, var)]"""
    st = []
    last = None
    for ln in text.splitlines():
        m = DECL.match(ln)
        if m and m.group(1) in itnames:
            last = m.group(1)
            st.append(("decl", m.group(1), canon(m.group(2))))
            continue
        m = ASSIGN_DIM.match(ln)
        if m:
            st.append(("dim", m.group(1)[0], int(m.group(2)), canon(m.group(3)), last))
    return st


def device_decls(text, itnames):
    res = []
    for ln in text.splitlines():
        m = DECL.match(ln)
        if m and m.group(1) in itnames:
            res.append((m.group(1), canon(m.group(2))))
    return res


def for_headers(text):
    return [canon(m.group(1)) for m in (FOR.match(l) for l in text.splitlines()) if m]


def gpu_texts(launcher, device, itnames):
    """-> (records text as the model prints it, launcher statements, device decls)"""
    st = launcher_records(launcher, itnames)
    dd = device_decls(device, itnames)
    ddm = dict(dd)
    recs = []
    for s in st:
        if s[0] == "dim":
            var = s[4]
            recs.append("%s %s%d count= %s decl= %s" % (var, s[1], s[2], s[3], ddm.get(var, "?MISSING")))
    seen = set(s[4] for s in st if s[0] == "dim")
    for var, txt in dd:
        if var not in seen:
            recs.append("%s decl= %s" % (var, txt))
    return " ; ".join(recs), st, dd


def gpu_functions(h, fname, st, dd, itnames, branches=None):
    """harness functions for one set of emitted texts:
         <fname>_c : evaluates the launcher statements, emits the six dims (as one tuple)
         <fname>_t : given dims, enumerates thread index vectors and emits the iterator tuples"""
    body = ["  u64 outer[3] = {1, 1, 1}, inner[3] = {1, 1, 1};"]
    for s in st:
        if s[0] == "decl":
            body.append("  int %s = %s;" % (s[1], c_text(s[2])))
        else:
            body.append("  %s[%d] = %s;" % ("outer" if s[1] == "o" else "inner", s[2], c_text(s[3])))
    body.append("  (void) d;")
    # dims can exceed long long: print as two halves is overkill; values above 2^63 are printed negative,
    # the caller reinterprets them as unsigned
    body.append("  out.emit({(long long) outer[0], (long long) outer[1], (long long) outer[2], "
                "(long long) inner[0], (long long) inner[1], (long long) inner[2]});")
    h.add(fname + "_c", "\n".join(body))
    body = []
    ind = "  "
    for k, ax in enumerate(["_o2", "_o1", "_o0", "_i2", "_i1", "_i0"]):
        idx = [2, 1, 0, 5, 4, 3][k]
        body.append("%sfor (unsigned int %s = 0; %s < d[%d]; ++%s) {" % (ind, ax, ax, idx, ax))
        ind += "  "
    for var, txt in dd:
        body.append("%sint %s = %s;" % (ind, var, c_text(txt)))
    if branches is None:
        body.append("%sout.emit({%s});" % (ind, ", ".join("(long long) " + v for v in itnames if v in dict(dd))))
    else:
        # sibling chains: every thread runs the body of each chain once
        for tagv, names in enumerate(branches):
            body.append("%sout.emit({%d, %s});" % (ind, tagv, ", ".join("(long long) " + v for v in names)))
    body.append("%sif (out.huge) return;" % ind)
    for _ in range(6):
        ind = ind[:-2]
        body.append("%s}" % ind)
    h.add(fname + "_t", "\n".join(body))


def cpu_function(h, fname, src, kname, nloops):
    """the Serial / OpenMP translation compiled as it is, under the name <fname>_k"""
    src = re.sub(r"\b%s\b" % re.escape(kname), fname + "_k", src)
    h.add_raw(src, Harness.owner_of(fname))
    body = ["  std::vector<int> hbuf(1 + %d * LIMIT + 8, 0);" % nloops,
            "  %s_k(N, M, P, Q, hbuf.data());" % fname,
            "  (void) d;",
            "  if (hbuf[0] > LIMIT) { out.huge = true; return; }",
            "  for (int p = 0; p < hbuf[0]; ++p) {",
            "    out.emit({%s});" % ", ".join("(long long) hbuf[1 + %d * p + %d]" % (nloops, j) for j in range(nloops)),
            "  }"]
    h.add(fname, "\n".join(body))


def steps_function(h, fname, loops):
    body = ["  (void) d;"]
    vals = []
    for k, l in enumerate(loops):
        if l["step"]:
            body.append("  int s%d = %s;" % (k, l["step"]))
            vals.append("(long long) s%d" % k)
    if vals:
        body.append("  out.emit({%s});" % ", ".join(vals))
    h.add(fname, "\n".join(body))
    return bool(vals)


def u64(x):
    return x % (1 << 64)


def process(lines, driver_exe, workdir):
    tr = Translator(driver_exe)
    cases = []
    jobs = []
    for idx, line in enumerate(lines):
        c = dict(idx=idx, line=line)
        try:
            no, ni, envs, loops, fork = parse_case(line)
            c.update(no=no, ni=ni, envs=envs, loops=loops, fork=fork, kname="k%d" % idx)
            c["src"] = okl_source(c["kname"], loops, fork)
            c["job0"] = len(jobs)
            for m in CPU:
                jobs.append((m, 0, c["src"]))
            for m in GPU:
                jobs.append((m, 2, c["src"]))
        except Malformed:
            c["malformed"] = True
        cases.append(c)
    outs = tr.translate(jobs)
    h = Harness(workdir)
    for c in cases:
        if c.get("malformed"):
            continue
        j = c["job0"]
        c["tr"] = {}
        for m in CPU:
            c["tr"][m] = outs[j]
            j += 1
        for m in GPU:
            c["tr"][m] = outs[j]
            j += 1
        flat = [c["tr"][m] for m in CPU] + [x for m in GPU for x in c["tr"][m]]
        c["all_err"] = all(x == "ERR" for x in flat)
        c["any_bad"] = any(x == "ERR" or x.startswith("CRASH") for x in flat)
        if c["any_bad"]:
            continue
        prefix, chs = chains(c["loops"], c["fork"])
        allloops = prefix + [l for ch in chs for l in ch]
        itnames = [l["name"] for l in allloops]
        branches = [[l["name"] for l in prefix + ch] for ch in chs] if c["fork"] else None
        width = len(c["loops"]) + (1 if c["fork"] else 0)
        # texts per GPU mode, grouped
        c["groups"] = {}     # records text -> (group id, [modes])
        for m in GPU:
            dev, lau = c["tr"][m]
            recs, st, dd = gpu_texts(lau, dev, itnames)
            if recs not in c["groups"]:
                gid = len(c["groups"])
                c["groups"][recs] = (gid, [m])
                gpu_functions(h, "g%d_%d" % (c["idx"], gid), st, dd, itnames, branches)
            else:
                c["groups"][recs][1].append(m)
        # kept loops
        want = [canon(header_text(l)) for l in allloops]
        c["kept"] = {}
        for m in CPU:
            got = for_headers(c["tr"][m])
            c["kept"][m] = "same" if got == want else "DIFF(" + " / ".join(got) + ")"
            cpu_function(h, "%s%d" % (m[0], c["idx"]), c["tr"][m], c["kname"], width)
        c["has_steps"] = steps_function(h, "p%d" % c["idx"], c["loops"])
    live = [c for c in cases if not c.get("malformed") and not c["any_bad"]]
    if live:
        if not h.build():
            for c in live:
                c["harness_error"] = h.error
            live_run = []
        else:
            live_run = live
    else:
        live_run = []
    # phase P: steps
    reqs = []
    for c in live_run:
        c["oos"] = [False] * len(c["envs"])
        if c["has_steps"]:
            for e, envv in enumerate(c["envs"]):
                reqs.append((c, e, ("p%d" % c["idx"], envv, None)))
    res = h.run([r[2] for r in reqs]) if reqs else []
    for (c, e, _), r in zip(reqs, res):
        if r in ("UB", "HARNESSDIED", "NOFN"):
            c["oos"][e] = True
        else:
            c["oos"][e] = any(int(x) <= 0 for x in r.split()[0].split(","))
    # phase C: counts
    reqs = []
    for c in live_run:
        c["vals"] = [dict() for _ in c["envs"]]
        for e, envv in enumerate(c["envs"]):
            if c["oos"][e]:
                continue
            for recs, (gid, modes) in c["groups"].items():
                reqs.append((c, e, gid, ("g%d_%d_c" % (c["idx"], gid), envv, None)))
    res = h.run([r[3] for r in reqs]) if reqs else []
    noopq = []
    for (c, e, gid, _), r in zip(reqs, res):
        if r in ("UB", "HARNESSDIED", "NOFN", "HUGE"):
            c["vals"][e][gid] = r
        else:
            dims = [u64(int(x)) for x in r.split()[0].split(",")]
            noopq.append((c, e, gid, dims))
    runs = tr.noop([q[3] for q in noopq]) if noopq else []
    reqs = []
    for (c, e, gid, dims), ran in zip(noopq, runs):
        if not ran:
            c["vals"][e][gid] = "-"
        elif any(x > LIMIT for x in dims):
            c["vals"][e][gid] = "HUGE"
        else:
            reqs.append((c, e, gid, ("g%d_%d_t" % (c["idx"], gid), c["envs"][e], dims)))
    res = h.run([r[3] for r in reqs]) if reqs else []
    for (c, e, gid, _), r in zip(reqs, res):
        c["vals"][e][gid] = show_tuples(r)
    # phase S/O: the kept loops
    reqs = []
    for c in live_run:
        for e, envv in enumerate(c["envs"]):
            if c["oos"][e]:
                continue
            for m in CPU:
                reqs.append((c, e, m, ("%s%d" % (m[0], c["idx"]), envv, None)))
    res = h.run([r[3] for r in reqs]) if reqs else []
    for (c, e, m, _), r in zip(reqs, res):
        c["vals"][e][m] = show_tuples(r)
    # assemble
    out = []
    for c in cases:
        if c.get("malformed"):
            out.append("R ERR")
            continue
        if c["all_err"]:
            out.append("R ERR")
            continue
        if c["any_bad"]:
            flat = [(m, c["tr"][m]) for m in CPU] + [(m + ("-launcher" if k else ""), c["tr"][m][k]) for m in GPU for k in (0, 1)]
            out.append("R PARTIAL " + " ".join("%s=%s" % (m, "ok" if not (x == "ERR" or x.startswith("CRASH")) else x.replace(" ", "_"))
                                               for m, x in flat))
            continue
        if "harness_error" in c:
            out.append("R HARNESS-BUILD-FAILED " + c["harness_error"].replace("\n", " ")[-400:])
            continue
        if c["idx"] in h.bad:
            # the emitted text of this case is not compilable C++ (e.g. an identifier that is no thread index)
            texts = " ;; ".join("%s{ %s }" % ("+".join(ms), recs) for recs, (gid, ms) in c["groups"].items())
            out.append("R T %s | V UNCOMPILABLE-EMITTED-SOURCE" % texts)
            continue
        if len(c["groups"]) == 1:
            texts = list(c["groups"].keys())[0]
        else:
            texts = " ;; ".join("%s{ %s }" % ("+".join(ms), recs) for recs, (gid, ms) in c["groups"].items())
        for m in CPU:
            if c["kept"][m] != "same":
                texts += " ; kept-%s=%s" % (m, c["kept"][m])
        vals = []
        for e in range(len(c["envs"])):
            if c["oos"][e]:
                vals.append("OOS")
                continue
            per = {}
            for recs, (gid, ms) in c["groups"].items():
                for m in ms:
                    per[m] = c["vals"][e].get(gid, "?")
            for m in CPU:
                per[m] = c["vals"][e].get(m, "?")
            distinct = set(per.values())
            if len(distinct) == 1:
                vals.append(distinct.pop())
            else:
                vals.append("DIFF{ " + " ;; ".join("%s= %s" % (m, per[m]) for m in CPU + GPU) + " }")
        out.append("R T %s | V %s" % (texts, " ; ".join(vals)))
    return out


def main():
    driver_exe = sys.argv[1]
    lines = [l.rstrip("\n") for l in sys.stdin]
    lines = [l for l in lines if l.strip()]
    # bounded batches: one driver process / one harness per 120 cases (memory of the leaking parser, size of
    # the generated C++), results printed as they become available
    for k in range(0, len(lines), 120):
        with tempfile.TemporaryDirectory(prefix="c17h-") as wd:
            for o in process(lines[k:k + 120], driver_exe, wd):
                print(o, flush=True)


if __name__ == "__main__":
    main()
