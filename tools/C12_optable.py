#!/usr/bin/env python3
"""Translator: src/occa/internal/lang/operator.cpp  ->  coq/gen/C12_OpTable.v   (used by C12 and C15)

Reads four blocks of operator.cpp and nothing else:
  namespace rawOperatorType { const rawOpType_t NAME (((uint64_t) 1) << K); ... }
  namespace operatorType    { const opType_t NAME (A, B);  |  const opType_t NAME = (X | Y | ...); ... }
  namespace op              { const <class>_t NAME ("sym", operatorType::T, PREC);  pairs;  associativity[] }
  void getOperators(...)    { operators.add(op::X.str, &op::X); ... }
Every statement inside these blocks must match one of the shapes above; anything else makes the
translator fail (exit 2) rather than guess.  The output is deterministic and only rewritten when it
changes, so make does not rebuild needlessly.
"""
import hashlib, os, re, sys


class Refuse(Exception):
    pass


def strip_comments(txt):
    out, i, n = [], 0, len(txt)
    while i < n:
        c = txt[i]
        if c == '"':
            k = i + 1
            while k < n and txt[k] != '"':
                if txt[k] == "\\" or txt[k] == "\n":
                    raise Refuse("string literal with an escape or a line break near offset %d" % i)
                k += 1
            if k >= n:
                raise Refuse("unterminated string literal near offset %d" % i)
            out.append(txt[i:k + 1])
            i = k + 1
        elif c == "'":
            m = re.match(r"'(\\.|[^'\\])'", txt[i:])
            if not m:
                raise Refuse("unreadable character literal near offset %d" % i)
            out.append(m.group(0))
            i += m.end()
        elif txt.startswith("//", i):
            k = txt.find("\n", i)
            i = n if k < 0 else k
        elif txt.startswith("/*", i):
            k = txt.find("*/", i + 2)
            if k < 0:
                raise Refuse("unterminated block comment")
            out.append(" ")
            i = k + 2
        else:
            out.append(c)
            i += 1
    return "".join(out)


def block(txt, header_re, what):
    """Return the text between the braces that follow the (unique) header."""
    ms = list(re.finditer(header_re, txt))
    if len(ms) != 1:
        raise Refuse("expected exactly one %s, found %d" % (what, len(ms)))
    i = ms[0].end()
    if txt[i - 1] != "{":
        raise Refuse("header of %s does not end in '{'" % what)
    depth = 1
    j = i
    while j < len(txt) and depth:
        if txt[j] == "{":
            depth += 1
        elif txt[j] == "}":
            depth -= 1
        elif txt[j] == '"':
            k = txt.index('"', j + 1)
            j = k
        j += 1
    if depth:
        raise Refuse("unbalanced braces in " + what)
    return txt[i:j - 1]


def statements(body):
    """Split on ';' outside string literals and braces."""
    out, cur, depth, i = [], "", 0, 0
    while i < len(body):
        c = body[i]
        if c == '"':
            k = body.index('"', i + 1)
            cur += body[i:k + 1]
            i = k + 1
            continue
        if c == "{":
            depth += 1
        elif c == "}":
            depth -= 1
        if c == ";" and depth == 0:
            if cur.strip():
                out.append(" ".join(cur.split()))
            cur = ""
        else:
            cur += c
        i += 1
    if cur.strip():
        raise Refuse("trailing text without ';': %r" % cur.strip()[:80])
    return out


ID = r"[A-Za-z_][A-Za-z0-9_]*"


def parse(path):
    src = open(path, encoding="latin1").read()
    txt = strip_comments(src)

    raw = {}
    for st in statements(block(txt, r"namespace\s+rawOperatorType\s*\{", "namespace rawOperatorType")):
        m = re.fullmatch(r"const rawOpType_t (%s) ?\(\(\(uint64_t\) 1\) << (\d+)\)" % ID, st)
        if not m:
            raise Refuse("rawOperatorType: cannot read %r" % st)
        if m.group(1) in raw:
            raise Refuse("rawOperatorType: %s defined twice" % m.group(1))
        k = int(m.group(2))
        if k > 63:
            raise Refuse("rawOperatorType: shift %d does not fit 64 bits" % k)
        raw[m.group(1)] = 1 << k

    def rawval(tok):
        tok = tok.strip()
        if re.fullmatch(r"\d+", tok):
            return int(tok)
        m = re.fullmatch(r"rawOperatorType::(%s)" % ID, tok)
        if m and m.group(1) in raw:
            return raw[m.group(1)]
        raise Refuse("operatorType: unknown raw value %r" % tok)

    otype, otype_order = {}, []
    for st in statements(block(txt, r"namespace\s+operatorType\s*\{", "namespace operatorType")):
        m = re.fullmatch(r"const opType_t (%s) ?\(([^,()]+),([^,()]+)\)" % ID, st)
        if m:
            name, val = m.group(1), (rawval(m.group(2)), rawval(m.group(3)))
        else:
            m = re.fullmatch(r"const opType_t (%s) ?= ?\(([^()]+)\)" % ID, st)
            if not m:
                raise Refuse("operatorType: cannot read %r" % st)
            name = m.group(1)
            b1 = b2 = 0
            for part in m.group(2).split("|"):
                p = part.strip()
                if p not in otype:
                    raise Refuse("operatorType: %s uses %r before its definition" % (name, p))
                b1 |= otype[p][0]
                b2 |= otype[p][1]
            val = (b1, b2)
        if name in otype:
            raise Refuse("operatorType: %s defined twice" % name)
        otype[name] = val
        otype_order.append(name)

    ops, op_order, assoc, consts = {}, [], None, {}
    klass = {"operator_t": 0, "unaryOperator_t": 1, "binaryOperator_t": 2, "pairOperator_t": 3}
    for st in statements(block(txt, r"namespace\s+op\s*\{", "namespace op")):
        m = re.fullmatch(r'const (operator_t|unaryOperator_t|binaryOperator_t) (%s) ?\("([^"\\]*)" ?, ?operatorType::(%s) ?, ?(\d+)\)' % (ID, ID), st)
        if m:
            k, name, sym, ty, prec = m.groups()
            pair = ""
        else:
            m = re.fullmatch(r'const pairOperator_t (%s) ?\("([^"\\]*)" ?, ?"([^"\\]*)" ?, ?operatorType::(%s)\)' % (ID, ID), st)
            if m:
                name, sym, pair, ty = m.groups()
                k, prec = "pairOperator_t", "0"
            else:
                m = re.fullmatch(r"const int (%s) ?= ?(\d+)" % ID, st)
                if m:
                    consts[m.group(1)] = int(m.group(2))
                    continue
                m = re.fullmatch(r"const int associativity\[(\d+)\] ?= ?\{([^{}]*)\}", st)
                if m:
                    items = [x.strip() for x in m.group(2).split(",")]
                    if len(items) != int(m.group(1)):
                        raise Refuse("associativity: %d entries declared, %d given" % (int(m.group(1)), len(items)))
                    for x in items:
                        if x not in consts:
                            raise Refuse("associativity: unknown entry %r" % x)
                    assoc = [consts[x] for x in items]
                    continue
                raise Refuse("namespace op: cannot read %r" % st)
        if ty not in otype:
            raise Refuse("op::%s has unknown type operatorType::%s" % (name, ty))
        if name in ops:
            raise Refuse("op::%s defined twice" % name)
        if any(ord(c) == 0 or ord(c) > 126 for c in sym + pair):
            raise Refuse("op::%s: symbol outside printable ASCII" % name)
        ops[name] = dict(name=name, sym=sym, b1=otype[ty][0], b2=otype[ty][1], prec=int(prec), klass=klass[k], pair=pair, tyname=ty)
        op_order.append(name)
    if assoc is None:
        raise Refuse("namespace op: no associativity table")
    if consts.get("leftAssociative") != 0 or consts.get("rightAssociative") != 1:
        raise Refuse("leftAssociative/rightAssociative are not 0/1")
    for o in ops.values():
        if o["prec"] >= len(assoc):
            raise Refuse("op::%s: precedence %d outside the associativity table" % (o["name"], o["prec"]))

    body = block(txt, r"void\s+getOperators\s*\(\s*operatorTrie\s*&\s*operators\s*\)\s*\{", "getOperators")
    added = []
    for st in statements(body):
        m = re.fullmatch(r"operators\.add\(op::(%s)\.str ?, ?&op::(%s)\)" % (ID, ID), st)
        if not m or m.group(1) != m.group(2):
            raise Refuse("getOperators: cannot read %r" % st)
        if m.group(1) not in ops:
            raise Refuse("getOperators: unknown op::%s" % m.group(1))
        added.append(m.group(1))
    # trie::add on an existing key overwrites the value: the last add of a symbol wins
    bysym = {}
    for n in added:
        bysym[ops[n]["sym"]] = n
    tok_ops = []
    for n in added:
        if bysym[ops[n]["sym"]] == n and n not in tok_ops:
            tok_ops.append(n)
    return dict(src=src, raw=raw, otype=otype, otype_order=otype_order, ops=ops, op_order=op_order,
                assoc=assoc, tok_ops=tok_ops)


def zlist(s):
    return "[" + ";".join(str(ord(c)) for c in s) + "]"


def emit(info, relpath):
    o = []
    o.append("(* GENERATED by tools/C12_optable.py from %s (sha256 %s).  Do not edit. *)" % (
        relpath, hashlib.sha256(info["src"].encode("latin1")).hexdigest()[:16]))
    o.append("From Coq Require Import List ZArith.")
    o.append("From OV.C12 Require Import OpDefs.")
    o.append("Import ListNotations.")
    o.append("Local Open Scope Z_scope.")
    o.append("")
    o.append("(* operatorType constants as (b1, b2) bit fields *)")
    for n in info["otype_order"]:
        b1, b2 = info["otype"][n]
        o.append("Definition ot_%s : optype := (%d, %d)." % (n, b1, b2))
    o.append("")
    o.append("(* namespace op: symbol, type, precedence, class (0 operator_t, 1 unary, 2 binary, 3 pair), pair symbol *)")
    for n in info["op_order"]:
        p = info["ops"][n]
        o.append('Definition op_%s : oper := mkOper %s ot_%s %d %d %s.' % (
            n, zlist(p["sym"]), p["tyname"], p["prec"], p["klass"], zlist(p["pair"])))
    o.append("")
    o.append("Definition all_ops : list oper := [%s]." % "; ".join("op_" + n for n in info["op_order"]))
    o.append("")
    o.append("(* what getOperators() stores in the tokenizer's trie (one entry per symbol; a later add overwrites) *)")
    o.append("Definition tokenizer_ops : list oper := [%s]." % "; ".join("op_" + n for n in info["tok_ops"]))
    o.append("")
    o.append("Definition associativity : list Z := [%s]." % "; ".join(str(a) for a in info["assoc"]))
    o.append("")
    return "\n".join(o)


def generate(repo, out_path):
    rel = "src/occa/internal/lang/operator.cpp"
    info = parse(os.path.join(repo, rel))
    text = emit(info, rel)
    os.makedirs(os.path.dirname(out_path), exist_ok=True)
    old = open(out_path).read() if os.path.exists(out_path) else None
    if old != text:
        tmp = out_path + ".tmp%d" % os.getpid()
        with open(tmp, "w") as f:
            f.write(text)
        os.replace(tmp, out_path)
    return info


if __name__ == "__main__":
    repo = sys.argv[1] if len(sys.argv) > 1 else "/repo"
    out = sys.argv[2] if len(sys.argv) > 2 else os.path.join(os.path.dirname(os.path.dirname(os.path.abspath(__file__))), "coq", "gen", "C12_OpTable.v")
    try:
        info = generate(repo, out)
    except Refuse as e:
        print("C12_optable: refused: %s" % e, file=sys.stderr)
        sys.exit(2)
    print("wrote %s: %d operators, %d in the tokenizer trie, %d precedence levels" % (
        out, len(info["ops"]), len(info["tok_ops"]), len(info["assoc"])))
