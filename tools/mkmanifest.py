#!/usr/bin/env python3
"""Regenerate /verif/MANIFEST.json from the META tables of props/Cxx.py (one place to edit)."""
import importlib, json, os, sys
HERE = os.path.dirname(os.path.dirname(os.path.abspath(__file__)))
sys.path.insert(0, HERE)

NA_REASONS = {
    "C16": "Statement is about memory safety/termination of ~40 kLOC of C++ on arbitrary bytes; a Gallina model is total and "
           "memory-safe by construction, and this image has no C++ semantics for Coq (no VST/CompCert/BRiCk), so no theorem can "
           "carry it; the only honest check is sanitizer fuzzing, which is not this technique family (DESIGN.md section 6). "
           "Its model-expressible slices are claimed under C12/C13/C07.",
}


def main():
    ids = [json.loads(l)["id"] for l in open(os.path.join(HERE, "properties.jsonl"))]
    checks, na = [], []
    hooks_commits = []
    hc = os.path.join(HERE, "hooks_commits.txt")
    if os.path.exists(hc):
        hooks_commits = [l.split()[0] for l in open(hc) if l.strip() and not l.startswith("#")]
    claimed = set(l.strip() for l in open(os.path.join(HERE, "claimed.txt")) if l.strip() and not l.startswith("#"))
    for pid in ids:
        path = os.path.join(HERE, "props", pid + ".py")
        if pid not in claimed or not os.path.exists(path):
            na.append(dict(property_id=pid, reason=NA_REASONS.get(pid, "not claimed yet: model/proofs/tie for this property are not built in this revision (planned in DESIGN.md section 5)")))
            continue
        m = importlib.import_module("props." + pid)
        meta = m.META
        checks.append(dict(
            property_id=pid,
            quick_cmd="./check %s --tier quick" % pid,
            thorough_cmd="./check %s --tier thorough" % pid,
            evidence_file="/verif/evidence/%s.json" % pid,
            replay_cmd_template="./check %s --replay {path}" % pid,
            engine="coq-proof+correspondence",
            level_claimed=dict(category="proof", text=meta["level"], design_ref=meta.get("design_ref", "DESIGN.md section 5 / " + pid)),
            level_note=meta["note"],
            technique=meta["technique"]))
    man = dict(
        version=1,
        setup_cmd="./check --setup",
        hooks=dict(guard="LIBOCCA_OCCA_VERIF",
                   enable="checks build /repo's working tree out of tree into /verif/_work/build-<flavour> with -DLIBOCCA_OCCA_VERIF in CMAKE_CXX_FLAGS (vlib/common.py: FLAVOURS)",
                   baseline_off_cmd="cmake --build /repo/_build && ctest --test-dir /repo/_build -j8 --timeout 900",
                   source_commits=hooks_commits, add_only=True),
        engines=[dict(name="coq-proof+correspondence", path="/verif/check",
                      serves_properties=[c["property_id"] for c in checks],
                      kind_free_text="Coq 8.16.1 theorems about executable Gallina models (coq/Cxx), tied to /repo on every run by "
                                     "translators (tools/, coq/gen) and by differential runs of the extracted model against drivers "
                                     "linked with libocca built from /repo's working tree (vlib/common.py)")],
        checks=checks,
        not_applicable=na,
        notes="See DESIGN.md. known_findings.txt lists recorded defects; fixes are 'fix:' commits in /repo.")
    with open(os.path.join(HERE, "MANIFEST.json"), "w") as f:
        json.dump(man, f, indent=1)
        f.write("\n")
    print("MANIFEST.json: %d checks, %d not_applicable" % (len(checks), len(na)))


if __name__ == "__main__":
    main()
