#!/usr/bin/env python3
"""C19 implementation side: @dim / @dimOrder rewrites by the real translators (case format: see
extract/C19/driver.ml; machinery: tools/C17_emit.py).

Per case the kernel
    @kernel void k(const int N, const int M, const int P, const int Q, int *h,
                   int *x @dim(D0, ..) [@dimOrder(..)]) { @outer { @inner { h[0] = x(A0, ..); } } }
is translated for all seven modes; the subscript of the emitted `x[...]` is extracted from each
(`h[0] = x[ ... ];`), has to be the same text in all of them and token for token the model's, and is
compiled by g++ (-fsanitize=undefined) and evaluated in every environment of the case.
"""
import os, re, sys, tempfile
sys.path.insert(0, os.path.dirname(os.path.abspath(__file__)))
import C17_emit as E

ACCESS = re.compile(r"^\s*h\[0\] = x\[(.*)\];\s*$")


def split_commas(toks):
    res, cur = [], []
    for t in toks:
        if t == ",":
            res.append(cur)
            cur = []
        else:
            cur.append(t)
    res.append(cur)
    return res


def parse_case(line):
    t = line.split()
    if len(t) < 4 or t[0] != "DM" or t[2] != "order":
        raise E.Malformed("case")
    try:
        n = int(t[1])
    except ValueError:
        raise E.Malformed("arity")
    if not (1 <= n <= 6):
        raise E.Malformed("arity")
    rest = t[3:]
    if "dims" not in rest or "args" not in rest or rest.index("dims") > rest.index("args"):
        raise E.Malformed("sections")
    k = min(rest.index(x) for x in ("env", "dims", "args") if x in rest)
    order = rest[:k]
    if order == ["id"]:
        order = None
    else:
        try:
            order = [int(x) for x in order]
        except ValueError:
            raise E.Malformed("order")
    envs = []
    for e in E.split_kw(rest[: rest.index("dims")], "env"):
        if len(e) != 4:
            raise E.Malformed("env")
        try:
            envs.append(tuple(int(x) for x in e))
        except ValueError:
            raise E.Malformed("env")
    if not envs:
        raise E.Malformed("env")
    dims = split_commas(rest[rest.index("dims") + 1: rest.index("args")])
    args = split_commas(rest[rest.index("args") + 1:])
    if len(dims) != n or len(args) != n or any(not d for d in dims) or any(not a for a in args):
        raise E.Malformed("arity")
    return n, order, envs, [" ".join(d) for d in dims], [" ".join(a) for a in args]


def okl_source(kname, order, dims, args):
    attr = "@dim(%s)" % ", ".join(dims)
    if order is not None:
        attr += " @dimOrder(%s)" % ", ".join(str(o) for o in order)
    return ("@kernel void %s(const int N, const int M, const int P, const int Q, int *h, int *x %s) {\n"
            "  for (int wo = 0; wo < 1; ++wo; @outer) {\n"
            "    for (int wi = 0; wi < 1; ++wi; @inner) {\n"
            "      h[0] = x(%s);\n"
            "    }\n  }\n}\n" % (kname, attr, ", ".join(args)))


def subscript(src):
    for ln in src.splitlines():
        m = ACCESS.match(ln)
        if m:
            return E.canon(m.group(1))
    return "?MISSING"


def process(lines, driver_exe, workdir):
    tr = E.Translator(driver_exe)
    cases, jobs = [], []
    modes = E.CPU + E.GPU
    for idx, line in enumerate(lines):
        c = dict(idx=idx)
        try:
            n, order, envs, dims, args = parse_case(line)
            c.update(envs=envs)
            c["src"] = okl_source("k%d" % idx, order, dims, args)
            c["job0"] = len(jobs)
            for m in modes:
                jobs.append((m, 0, c["src"]))
        except E.Malformed:
            c["malformed"] = True
        cases.append(c)
    outs = tr.translate(jobs)
    h = E.Harness(workdir)
    for c in cases:
        if c.get("malformed"):
            continue
        c["tr"] = {m: outs[c["job0"] + k] for k, m in enumerate(modes)}
        flat = list(c["tr"].values())
        c["all_err"] = all(x == "ERR" for x in flat)
        c["any_bad"] = any(x == "ERR" or x.startswith("CRASH") for x in flat)
        if c["any_bad"]:
            continue
        c["sub"] = {m: subscript(c["tr"][m]) for m in modes}
        if all(v == "?MISSING" for v in c["sub"].values()):
            # no rewritten access anywhere: the attribute was refused (a diagnostic is printed; for an
            # invalid @dimOrder the translators nevertheless report success and drop the argument)
            c["all_err"] = True
            c["any_bad"] = True
            continue
        c["texts"] = sorted(set(c["sub"].values()))
        for k, txt in enumerate(c["texts"]):
            if txt.startswith("?"):
                continue
            h.add("x%d_%d" % (c["idx"], k), "  (void) d;\n  int idx_ = %s;\n  out.emit({(long long) idx_});" % E.c_text(txt))
    live = [c for c in cases if not c.get("malformed") and not c["any_bad"]]
    ok = h.build() if live else True
    reqs = []
    if ok:
        for c in live:
            for e, envv in enumerate(c["envs"]):
                for k in range(len(c["texts"])):
                    reqs.append((c, e, k, ("x%d_%d" % (c["idx"], k), envv, None)))
    res = h.run([r[3] for r in reqs]) if reqs else []
    for c in live:
        c["vals"] = [dict() for _ in c["envs"]]
    for (c, e, k, _), r in zip(reqs, res):
        c["vals"][e][k] = r.strip()
    out = []
    for c in cases:
        if c.get("malformed") or c["all_err"]:
            out.append("R ERR")
            continue
        if c["any_bad"]:
            out.append("R PARTIAL " + " ".join("%s=%s" % (m, "ok" if not (x == "ERR" or x.startswith("CRASH")) else x.replace(" ", "_"))
                                               for m, x in c["tr"].items()))
            continue
        if not ok:
            out.append("R HARNESS-BUILD-FAILED " + h.error.replace("\n", " ")[-400:])
            continue
        if c["idx"] in h.bad:
            out.append("R T %s | V UNCOMPILABLE-EMITTED-SOURCE" % " ;; ".join(c["texts"]))
            continue
        if len(c["texts"]) == 1:
            texts = c["texts"][0]
        else:
            texts = " ;; ".join("%s{ %s }" % (m, c["sub"][m]) for m in modes)
        vals = []
        for e in range(len(c["envs"])):
            per = {m: c["vals"][e].get(c["texts"].index(c["sub"][m]), "?") for m in modes}
            distinct = set(per.values())
            vals.append(distinct.pop() if len(distinct) == 1 else
                        "DIFF{ " + " ;; ".join("%s= %s" % (m, per[m]) for m in modes) + " }")
        out.append("R T %s | V %s" % (texts, " ; ".join(vals)))
    return out


def main():
    driver_exe = sys.argv[1]
    lines = [l.rstrip("\n") for l in sys.stdin]
    lines = [l for l in lines if l.strip()]
    # bounded batches: one driver process / one harness per 120 cases (memory of the leaking parser, size of
    # the generated C++), results printed as they become available
    for k in range(0, len(lines), 120):
        with tempfile.TemporaryDirectory(prefix="c19h-") as wd:
            for o in process(lines[k:k + 120], driver_exe, wd):
                print(o, flush=True)


if __name__ == "__main__":
    main()
