#!/usr/bin/env python3
"""C06 translator: the composition of the kernel cache key, read from the C++ text.

Reads (from the tree given as argv[1], default /repo)
    src/core/device.cpp                         device::setupKernelInfo, device::hash
    src/occa/internal/core/device.cpp           modeDevice_t::versionedHash
    src/occa/internal/modes/serial/device.cpp   serial::device::hash, ::kernelHash, ::buildKernel, ::parseFile
    src/occa/internal/modes/openmp/device.cpp   openmp::device::hash, ::kernelHash, ::buildKernel
    src/core/kernel.cpp                         kernelHeaderHash, kernelPropsHash (when present), assembleKernelHeader
    src/occa/internal/lang/{preprocessor,parser}.cpp, lang/modes/{serial,openmp}.cpp   (which settings are read)
    include/occa/defines/occa.hpp               OCCA_VERSION_STR
and writes coq/gen/C06_KeyFields.v (definitions: gen_shape, gen_reads) and coq/gen/C06_KeyChecks.v (the
obligations about them).  It understands exactly these operand forms of a `a ^ b ^ c` expression

    occa::hash(props["name"])  |  props["name"]               -> TField name   (the value alone)
    occa::hash("literal")                                     -> TConst literal
    occa::hash(settings()["version"])                         -> TConstVal (JStr OCCA_VERSION_STR)
    kernelPropsHash(props, {"a", "b", ...})                   -> TRecord [sorted names]
    hash() / serial::device::hash() / modeDevice->versionedHash()
    modeDevice->kernelHash(kernelProps) / serial::device::kernelHash(props)
    kernelHeaderHash(kernelProps) / sourceHash                -> expanded / TSource

and REFUSES (exception -> the check reports that it could not establish the property) anything else.
"""
import os, re, sys


class Refuse(Exception):
    pass


def read(repo, rel):
    p = os.path.join(repo, rel)
    if not os.path.exists(p):
        raise Refuse("missing source file " + rel)
    return open(p, errors="replace").read()


def strip_comments(txt):
    txt = re.sub(r"/\*.*?\*/", lambda m: re.sub(r"[^\n]", " ", m.group(0)), txt, flags=re.S)
    out = []
    for line in txt.split("\n"):
        # remove // comments that are not inside a string literal
        res, instr, i = [], False, 0
        while i < len(line):
            ch = line[i]
            if ch == '"' and (i == 0 or line[i - 1] != "\\"):
                instr = not instr
            if not instr and line.startswith("//", i):
                break
            res.append(ch)
            i += 1
        out.append("".join(res))
    return "\n".join(out)


def function_body(txt, signature_re, what):
    """text between the braces of the first function whose header matches signature_re"""
    m = re.search(signature_re, txt)
    if not m:
        raise Refuse("function not found: " + what)
    i = txt.find("{", m.end() - 1)
    if i < 0:
        raise Refuse("no body for " + what)
    depth, j, instr = 0, i, False
    while j < len(txt):
        ch = txt[j]
        if ch == '"' and txt[j - 1] != "\\":
            instr = not instr
        elif not instr:
            if ch == "{":
                depth += 1
            elif ch == "}":
                depth -= 1
                if depth == 0:
                    return txt[i + 1:j]
        j += 1
    raise Refuse("unbalanced braces in " + what)


def split_top(expr, sep):
    parts, depth, cur, instr = [], 0, [], False
    for i, ch in enumerate(expr):
        if ch == '"' and (i == 0 or expr[i - 1] != "\\"):
            instr = not instr
        if not instr:
            if ch in "([{":
                depth += 1
            elif ch in ")]}":
                depth -= 1
            elif ch == sep and depth == 0:
                parts.append("".join(cur))
                cur = []
                continue
        cur.append(ch)
    parts.append("".join(cur))
    return [p.strip() for p in parts]


def unparen(e):
    e = e.strip()
    while e.startswith("(") and e.endswith(")"):
        depth = 0
        ok = True
        for i, ch in enumerate(e):
            if ch == "(":
                depth += 1
            elif ch == ")":
                depth -= 1
                if depth == 0 and i != len(e) - 1:
                    ok = False
                    break
        if not ok:
            break
        e = e[1:-1].strip()
    return e


def returned_expr(body, what):
    m = re.findall(r"\breturn\b(.*?);", body, flags=re.S)
    if len(m) != 1:
        raise Refuse("%s: expected exactly one return statement, found %d" % (what, len(m)))
    return unparen(m[0])


NAME = r'"((?:[^"\\]|\\.)*)"'


class Translator:
    def __init__(self, repo):
        self.repo = repo
        g = lambda rel: strip_comments(read(repo, rel))
        self.core_device = g("src/core/device.cpp")
        self.int_device = g("src/occa/internal/core/device.cpp")
        self.serial = g("src/occa/internal/modes/serial/device.cpp")
        self.openmp = g("src/occa/internal/modes/openmp/device.cpp")
        self.kernel = g("src/core/kernel.cpp")
        m = re.search(r'#define\s+OCCA_VERSION_STR\s+"([^"]*)"', read(repo, "include/occa/defines/occa.hpp"))
        if not m:
            raise Refuse("OCCA_VERSION_STR not found")
        self.version = m.group(1)
        env = g("src/occa/internal/utils/env.cpp")
        if not re.search(r'settings_\s*\[\s*"version"\s*\]\s*=\s*OCCA_VERSION_STR', env):
            raise Refuse('settings()["version"] is no longer OCCA_VERSION_STR')

    # ---- operands
    def operand(self, e, ctx):
        e = unparen(e)
        m = re.fullmatch(r'(?:occa::)?hash\s*\(\s*(?:props|kernelProps)\s*\[\s*%s\s*\]\s*\)' % NAME, e)
        if m:
            return [("TField", m.group(1))]
        m = re.fullmatch(r'(?:props|kernelProps)\s*\[\s*%s\s*\]' % NAME, e)
        if m:
            return [("TField", m.group(1))]
        m = re.fullmatch(r'(?:occa::)?hash\s*\(\s*%s\s*\)' % NAME, e)
        if m:
            return [("TConst", m.group(1))]
        if re.fullmatch(r'(?:occa::)?hash\s*\(\s*settings\s*\(\s*\)\s*\[\s*"version"\s*\]\s*\)', e):
            return [("TConstVal", self.version)]
        m = re.fullmatch(r'kernelPropsHash\s*\(\s*(?:props|kernelProps)\s*,\s*\{(.*)\}\s*\)', e, flags=re.S)
        if m:
            self.check_props_hash()
            names = [x for x in split_top(m.group(1), ",") if x != ""]
            out = []
            for n in names:
                mm = re.fullmatch(NAME, n)
                if not mm:
                    raise Refuse("%s: kernelPropsHash name list entry not a string literal: %r" % (ctx, n))
                out.append(mm.group(1))
            return [("TRecord", tuple(sorted(out, key=lambda s: s.encode())))]
        if e == "sourceHash":
            return [("TSource", None)]
        if e == "hash()" and ctx == "device::setupKernelInfo":
            return self.device_hash()
        if e == "hash()" and ctx == "modeDevice_t::versionedHash":
            return [("MODEHASH", None)]
        if re.fullmatch(r"modeDevice\s*->\s*kernelHash\s*\(\s*kernelProps\s*\)", e):
            return [("MODEKERNELHASH", None)]
        if re.fullmatch(r"kernelHeaderHash\s*\(\s*kernelProps\s*\)", e):
            return self.expr(returned_expr(function_body(self.kernel, r"hash_t\s+kernelHeaderHash\s*\([^)]*\)\s*\{", "kernelHeaderHash"), "kernelHeaderHash"), "kernelHeaderHash")
        if re.fullmatch(r"serial::device::hash\s*\(\s*\)", e):
            return self.serial_hash()
        if re.fullmatch(r"serial::device::kernelHash\s*\(\s*props\s*\)", e):
            return self.serial_kernel_hash()
        raise Refuse("%s: operand not understood: %r" % (ctx, e))

    def expr(self, e, ctx):
        out = []
        for part in split_top(unparen(e), "^"):
            if part == "":
                raise Refuse("%s: empty operand in %r" % (ctx, e))
            out += self.operand(part, ctx)
        return out

    def check_props_hash(self):
        """kernelPropsHash must build one object from the initialized named values and hash it"""
        body = function_body(self.kernel, r"hash_t\s+kernelPropsHash\s*\([^)]*\)\s*\{", "kernelPropsHash")
        b = re.sub(r"\s+", " ", body)
        need = [r"for \( ?const std::string ?& ?(\w+) ?: ?names ?\)",
                r"props ?\[ ?\w+ ?\]",
                r"\.isInitialized ?\( ?\)",
                r"\.set ?\( ?\w+ ?, ?\w+ ?\)",
                r"return (?:occa::)?hash ?\( ?\w+ ?\) ?;"]
        for n in need:
            if not re.search(n, b):
                raise Refuse("kernelPropsHash no longer has the shape the translator understands (missing /%s/)" % n)
        if "^" in b:
            raise Refuse("kernelPropsHash combines hashes with ^")

    # ---- the functions
    def device_hash(self):
        body = function_body(self.core_device, r"hash_t\s+device::hash\s*\(\s*\)\s*const\s*\{", "device::hash")
        if not re.search(r"return\s+modeDevice\s*->\s*versionedHash\s*\(\s*\)\s*;", body):
            raise Refuse("device::hash no longer returns modeDevice->versionedHash()")
        vb = function_body(self.int_device, r"hash_t\s+modeDevice_t::versionedHash\s*\(\s*\)\s*const\s*\{", "versionedHash")
        return self.expr(returned_expr(vb, "versionedHash"), "modeDevice_t::versionedHash")

    def serial_hash(self):
        body = function_body(self.serial, r"hash_t\s+device::hash\s*\(\s*\)\s*const\s*\{", "serial::device::hash")
        m = re.search(r"hash_\s*=\s*(.*?);", body, flags=re.S)
        if not m or not re.search(r"return\s+hash_\s*;", body):
            raise Refuse("serial::device::hash: expected `hash_ = <expr>; ... return hash_;`")
        return self.expr(m.group(1), "serial::device::hash")

    def openmp_hash(self):
        body = function_body(self.openmp, r"hash_t\s+device::hash\s*\(\s*\)\s*const\s*\{", "openmp::device::hash")
        return self.expr(returned_expr(body, "openmp::device::hash"), "openmp::device::hash")

    def serial_kernel_hash(self):
        body = function_body(self.serial, r"hash_t\s+device::kernelHash\s*\([^)]*\)\s*const\s*\{", "serial::device::kernelHash")
        return self.expr(returned_expr(body, "serial::device::kernelHash"), "serial::device::kernelHash")

    def openmp_kernel_hash(self):
        body = function_body(self.openmp, r"hash_t\s+device::kernelHash\s*\([^)]*\)\s*const\s*\{", "openmp::device::kernelHash")
        return self.expr(returned_expr(body, "openmp::device::kernelHash"), "openmp::device::kernelHash")

    def setup(self):
        body = function_body(self.core_device, r"void\s+device::setupKernelInfo\s*\(", "device::setupKernelInfo")
        m = re.findall(r"\bkernelHash\s*=\s*(.*?);", body, flags=re.S)
        if len(m) != 2 or not re.fullmatch(r"applyDependencyHash\s*\(\s*kernelHash\s*\)", m[1].strip()):
            raise Refuse("device::setupKernelInfo: expected `kernelHash = <expr>; kernelHash = applyDependencyHash(kernelHash);`")
        if not re.search(r"kernelProps\s*=\s*kernelProperties\s*\(\s*props\s*\)\s*;", body):
            raise Refuse("device::setupKernelInfo: kernelProps is no longer kernelProperties(props)")
        return self.expr(m[0], "device::setupKernelInfo")

    def shape(self, mode):
        out = []
        for t in self.setup():
            if t[0] == "MODEHASH":
                out += self.serial_hash() if mode == "Serial" else self.openmp_hash()
            elif t[0] == "MODEKERNELHASH":
                out += self.serial_kernel_hash() if mode == "Serial" else self.openmp_kernel_hash()
            else:
                out.append(t)
        return out

    # ---- which properties the build reads
    def reads(self):
        lang = lambda f: strip_comments(read(self.repo, "src/occa/internal/lang/" + f))
        pre, par = lang("preprocessor.cpp"), lang("parser.cpp")
        ser, omp = lang("modes/serial.cpp"), lang("modes/openmp.cpp")
        pieces = [
            function_body(self.serial, r"modeKernel_t\*\s+device::buildKernel\s*\([^)]*const\s+bool\s+isLauncherKernel\s*\)\s*\{", "serial::device::buildKernel"),
            function_body(self.serial, r"bool\s+device::parseFile\s*\(", "serial::device::parseFile"),
            function_body(self.openmp, r"modeKernel_t\*\s+device::buildKernel\s*\(", "openmp::device::buildKernel"),
            function_body(self.openmp, r"bool\s+device::parseFile\s*\(", "openmp::device::parseFile"),
            function_body(self.kernel, r"std::string\s+assembleKernelHeader\s*\(", "assembleKernelHeader"),
            pre, par, ser, omp,
        ]
        names = []
        pat = re.compile(r'\b(?:kernelProps|allKernelProps|settings|props)\s*(?:\.\s*get\s*(?:<[^>]*>)?\s*\(|\[)\s*"([^"]+)"')
        for p in pieces:
            for m in pat.finditer(p):
                if m.group(1) not in names:
                    names.append(m.group(1))
        # tokenizer / file naming options, not kernel properties
        return [n for n in names if n not in ("input_name",)]


def coq_string(s):
    if "\n" in s or "\\" in s:
        raise Refuse("string literal with escape not supported: %r" % s)
    return '"' + s.replace('"', '""') + '"'


def coq_term(t):
    k, v = t
    if k == "TField":
        return "TField " + coq_string(v)
    if k == "TConst":
        return "TConst " + coq_string(v)
    if k == "TConstVal":
        return "TConstVal (JStr %s)" % coq_string(v)
    if k == "TRecord":
        return "TRecord [" + "; ".join(coq_string(x) for x in v) + "]"
    if k == "TSource":
        return "TSource"
    raise Refuse("internal: " + repr(t))


def translate(repo):
    tr = Translator(repo)
    shapes = {m: tr.shape(m) for m in ("Serial", "OpenMP")}
    return dict(version=tr.version, shapes=shapes, reads=tr.reads())


SERIAL_FIXED = ("compiler", "compiler_env_script", "compiler_flags", "compiler_language", "compiler_linker_flags",
                "compiler_shared_flags", "compiler_vendor", "kernel/include_occa", "kernel/link_occa", "mode", "okl/enabled",
                "okl/include_paths", "okl/restrict", "okl/strict_headers", "okl/validate", "serial/include_std")
HEADER_FIXED = ("defines", "functions", "headers", "includes")
READS_REF = ["verbose", "compiler_language", "okl/enabled", "compiler", "compiler_flags", "compiler_shared_flags",
             "compiler_linker_flags", "compiler_env_script", "kernel/include_occa", "kernel/link_occa", "silent", "vendor",
             "defines", "includes", "headers", "functions", "okl/strict_headers", "okl/include_paths", "mode", "hash",
             "okl/restrict", "okl/validate", "serial/include_std"]


def reference(version="2.0.0"):
    """the composition after fixes/C06-1.patch (Model.fixed_shape); used only to keep searching for a failing
    input when the translator refuses the source"""
    base = [("TConstVal", version), ("TConst", "host")]
    ser = base + [("TRecord", SERIAL_FIXED), ("TRecord", HEADER_FIXED), ("TSource", None)]
    omp = base + [("TConst", "openmp device::hash"), ("TRecord", SERIAL_FIXED), ("TConst", "openmp device::kernelHash"),
                  ("TRecord", HEADER_FIXED), ("TSource", None)]
    return dict(version=version, shapes={"Serial": ser, "OpenMP": omp}, reads=list(READS_REF))


def describe(res):
    def d(ts):
        return " ^ ".join(("H{%s}" % ",".join(v) if k == "TRecord" else "H(%s)" % v if k == "TField" else
                           "H'%s'" % v if k == "TConst" else "H(version)" if k == "TConstVal" else "H(source)") for k, v in ts)
    return "Serial: %s\nOpenMP: %s\nreads: %s" % (d(res["shapes"]["Serial"]), d(res["shapes"]["OpenMP"]), ", ".join(res["reads"]))


def write_coq(res, gen_dir, repo):
    os.makedirs(gen_dir, exist_ok=True)
    defs = ["(* GENERATED by tools/C06_keyfields.py from the C++ text under %s; do not edit. *)" % repo,
            "From Coq Require Import List String ZArith.",
            "From OV.C06 Require Import Model.",
            "Import ListNotations.", "Local Open Scope string_scope.", "",
            "Definition gen_version : string := %s." % coq_string(res["version"]),
            "Definition gen_shape : shape := fun m =>",
            "  match m with"]
    for m in ("Serial", "OpenMP"):
        defs.append("  | %s => [%s]" % (m, ";\n      ".join(coq_term(t) for t in res["shapes"][m])))
    defs += ["  end.", "",
             "(* property paths read by buildKernel / parseFile / assembleKernelHeader / the OKL preprocessor and parsers *)",
             "Definition gen_reads : list string := [%s]." % "; ".join(coq_string(r) for r in res["reads"]), ""]
    checks = ["(* GENERATED by tools/C06_keyfields.py; obligations about the key composition found in the C++ text. *)",
              "From Coq Require Import List String ZArith Bool.",
              "From OV.C06 Require Import Model Spec Statements Proofs.",
              "From OV.gen Require Import C06_KeyFields.",
              "Import ListNotations.", "Local Open Scope string_scope.", "",
              "(* the composition found in the source is one hash per named record, covering every effective property *)",
              "Example gen_shape_good : good_shape effective_paths gen_shape = true.",
              "Proof. vm_compute. reflexivity. Qed.", "",
              "(* every property the build reads is accounted for: effective (must be in the key) or inert *)",
              "Example gen_reads_known : forallb (fun p => mem p effective_paths || mem p inert_paths) gen_reads = true.",
              "Proof. vm_compute. reflexivity. Qed.", "",
              "(* and the specification does not name properties that the build never reads *)",
              "Example gen_effective_read : forallb (fun p => mem p gen_reads) effective_paths = true.",
              "Proof. vm_compute. reflexivity. Qed.", "",
              "(* hence, for the tree this file was generated from: *)",
              "Theorem current_tree_key_injective : forall c1 c2,",
              "  dom_sepb gen_shape c1 = true -> dom_sepb gen_shape c2 = true ->",
              "  key gen_shape c1 = key gen_shape c2 -> effective c1 = effective c2.",
              "Proof. intros c1 c2. exact (key_injective gen_shape c1 c2 gen_shape_good). Qed.", ""]
    for name, lines in (("C06_KeyFields.v", defs), ("C06_KeyChecks.v", checks)):
        p = os.path.join(gen_dir, name)
        txt = "\n".join(lines)
        if not os.path.exists(p) or open(p).read() != txt:
            with open(p, "w") as f:
                f.write(txt)


if __name__ == "__main__":
    repo = sys.argv[1] if len(sys.argv) > 1 else "/repo"
    try:
        res = translate(repo)
    except Refuse as e:
        print("REFUSED: %s" % e)
        sys.exit(2)
    print(describe(res))
    if len(sys.argv) > 2:
        write_coq(res, sys.argv[2], repo)
