#!/usr/bin/env python3
"""Translator (T) for C08/C09: strace -f -y log of a real kernel build  ->  the op lists of coq/C08/Model.v.

Only paths under the run's cache directory are kept.  Path classes:
  <dir>/<16 hex>.<name>   staged temp (io::getStagedTempFilename)  -> T k   (k numbered by first appearance)
  <dir>/<name>            final, completion-tested name            -> F n   (n = 100*dirIndex + role(name))
Write-capable descriptors are tracked per process (open, dup*, fork/clone inheritance, O_CLOEXEC at execve,
close, exit) so that `OClose p` is emitted exactly when the last writer of p is gone.
The translator refuses (raises) on lines it does not understand that mention the cache directory.
"""
import os, re, sys

ROLE = [
    (re.compile(r"^string_source\.cpp$"), 1),
    (re.compile(r".*\.raw_source\.(cpp|c)$"), 2),
    (re.compile(r".*\.source\.(cpp|c)$"), 3),
    (re.compile(r"^build\.json$"), 4),
    (re.compile(r"^binary$"), 5),
    (re.compile(r"^launcher_binary$"), 6),
    (re.compile(r"^launcher_build\.json$"), 7),
    (re.compile(r".*\.launcher_source\.cpp$"), 8),
    (re.compile(r"^findCompilerVendor\.cpp$"), 10),
    (re.compile(r"^build\.log$"), 11),
    (re.compile(r"^output$"), 12),
    (re.compile(r"^compilerSupportsOpenMP\.cpp$"), 13),
]
TEMP_RE = re.compile(r"^([0-9a-f]{16})\.(.+)$")


class Unknown(Exception):
    pass


def role_of(name, extra):
    for rx, r in ROLE:
        if rx.match(name):
            return r
    if name not in extra:
        extra[name] = 20 + len(extra)
    return extra[name]


class Translator:
    def __init__(self, cache_dir):
        self.cache = os.path.realpath(cache_dir).rstrip("/") + "/"
        self.dirs = {}          # hash dir name -> index
        self.temps = {}         # temp path -> k
        self.extra = {}
        self.ops = []           # (op, pathA, pathB) with model paths ('F',n)|('T',k)
        self.fdt = {}           # pid -> {fd: (path, cloexec)}
        self.pending_clone = []  # pids with an unfinished clone/fork/vfork
        self.names = {}         # model path -> real relative path (for reports)
        self.unfinished = {}    # pid -> partial line
        self.parent_of = {}     # child pid -> parent pid (first pass)

    # ---- path mapping
    def rel(self, p):
        p = os.path.normpath(p)
        if not (p + "/").startswith(self.cache) and not p.startswith(self.cache):
            return None
        r = p[len(self.cache):].lstrip("/")
        return r

    def mpath(self, p):
        r = self.rel(p)
        if r is None or r == "":
            return None
        parts = r.split("/")
        if parts[0] == "cache":
            parts = parts[1:]
        if len(parts) < 2:
            return None          # a directory such as cache/<hash>
        d, name = parts[0], "/".join(parts[1:])
        if d not in self.dirs:
            self.dirs[d] = len(self.dirs)
        m = TEMP_RE.match(name)
        if m:
            key = d + "/" + name
            if key not in self.temps:
                self.temps[key] = len(self.temps)
            mp = ("T", self.temps[key])
        else:
            mp = ("F", 100 * self.dirs[d] + role_of(name, self.extra))
        self.names[mp] = r
        return mp

    def emit(self, op, a=None, b=None):
        self.ops.append((op, a, b))

    # ---- fd tables
    def table(self, pid):
        if pid not in self.fdt:
            # first appearance of a process: it inherits its parent's descriptors as they are now.
            # The parent is known from a first pass over the log (clone/fork/vfork return values);
            # with several builders forking at the same time "the most recent pending clone" is not reliable.
            src = self.parent_of.get(pid)
            if src is None and self.pending_clone:
                src = self.pending_clone[-1]
            self.fdt[pid] = dict(self.fdt.get(src, {})) if src is not None else {}
        return self.fdt[pid]

    def writers(self, mp):
        return sum(1 for t in self.fdt.values() for (p, _) in t.values() if p == mp)

    def drop(self, pid, fd):
        t = self.table(pid)
        if fd in t:
            mp, _ = t.pop(fd)
            if self.writers(mp) == 0:
                self.emit("OClose", mp)

    def feed(self, line):
        m = re.match(r"^(\d+)\s+(.*)$", line.rstrip("\n"))
        if not m:
            return
        pid, rest = int(m.group(1)), m.group(2)
        if rest.endswith("<unfinished ...>"):
            self.unfinished[pid] = rest[: -len("<unfinished ...>")]
            if re.match(r"^(clone3?|fork|vfork)\(", rest):
                self.pending_clone.append(pid)
            self.table(pid)
            return
        mr = re.match(r"^<\.\.\. (\w+) resumed>(.*)$", rest)
        if mr:
            rest = self.unfinished.pop(pid, mr.group(1) + "(") + mr.group(2)
        self.table(pid)
        if rest.startswith("+++ exited") or rest.startswith("+++ killed"):
            for fd in list(self.table(pid).keys()):
                self.drop(pid, fd)
            self.fdt.pop(pid, None)
            return
        if rest.startswith("---"):
            return
        mc = re.match(r"^(\w+)\((.*)\)\s+=\s+(-?\d+|\?)(.*)$", rest)
        if not mc:
            if self.cache in rest:
                raise Unknown("cannot parse: " + rest[:200])
            return
        sc, args, ret, tail = mc.group(1), mc.group(2), mc.group(3), mc.group(4)
        ok = ret not in ("?",) and not ret.startswith("-")
        t = self.table(pid)
        if sc in ("clone", "clone3", "fork", "vfork"):
            if pid in self.pending_clone:
                self.pending_clone.remove(pid)
            if ok:
                child = int(ret)
                if child not in self.fdt:
                    self.fdt[child] = dict(t)
                if "CLONE_FILES" in args:
                    self.fdt[child] = t
            return
        if sc in ("open", "openat", "creat"):
            mpth = re.search(r'"((?:[^"\\]|\\.)*)"', args)
            if not mpth:
                return
            path = mpth.group(1)
            if not path.startswith("/"):
                mcwd = re.match(r"^AT_FDCWD<([^>]*)>", args)
                if mcwd:
                    path = os.path.join(mcwd.group(1), path)
            mp = self.mpath(path)
            if mp is None or not ok:
                return
            flags = args[mpth.end():]
            wr = ("O_WRONLY" in flags) or ("O_RDWR" in flags) or sc == "creat"
            if wr:
                if "O_TRUNC" in flags or "O_CREAT" in flags or sc == "creat":
                    self.emit("OCreate", mp)
                t[int(ret)] = (mp, "O_CLOEXEC" in flags)
            else:
                self.emit("ORead", mp)
            return
        if sc in ("dup", "dup2", "dup3") or (sc == "fcntl" and "F_DUPFD" in args):
            msrc = re.match(r"^(\d+)", args)
            if not msrc or not ok:
                return
            src = int(msrc.group(1))
            new = int(ret)
            if sc in ("dup2", "dup3") and new in t and new != src:
                self.drop(pid, new)
            if src in t:
                t[new] = (t[src][0], "O_CLOEXEC" in args)
            return
        if sc == "close":
            mfd = re.match(r"^(\d+)", args)
            if mfd:
                self.drop(pid, int(mfd.group(1)))
            return
        if sc == "execve":
            if ok:
                for fd in [fd for fd, (_, ce) in t.items() if ce]:
                    self.drop(pid, fd)
                mpth = re.search(r'"((?:[^"\\]|\\.)*)"', args)
                if mpth:
                    mp = self.mpath(mpth.group(1))
                    if mp:
                        self.emit("ORead", mp)
            return
        if sc in ("write", "pwrite64", "writev", "pwritev", "ftruncate", "fallocate"):
            mfd = re.match(r"^(\d+)", args)
            if mfd and int(mfd.group(1)) in t and ok:
                self.emit("OWrite", t[int(mfd.group(1))][0])
            return
        if sc in ("rename", "renameat", "renameat2"):
            ps = re.findall(r'"((?:[^"\\]|\\.)*)"', args)
            if len(ps) == 2 and ok:
                a, b = self.mpath(ps[0]), self.mpath(ps[1])
                if a is not None and b is not None:
                    self.emit("ORename", a, b)
                elif a is not None or b is not None:
                    raise Unknown("rename across the cache boundary: " + rest[:200])
            return
        if sc in ("unlink", "unlinkat"):
            mpth = re.search(r'"((?:[^"\\]|\\.)*)"', args)
            if mpth and ok:
                mp = self.mpath(mpth.group(1))
                if mp:
                    self.emit("OUnlink", mp)
            return
        if sc in ("link", "linkat", "symlink", "symlinkat", "truncate", "mmap") and self.cache in args:
            if sc == "mmap" and "PROT_WRITE" not in args:
                return
            if sc == "mmap" and "MAP_PRIVATE" in args:
                return
            raise Unknown("unmodelled operation on a cache path: " + rest[:200])
        # everything else (stat, access, mkdir, read, fsync, chmod, readlink ...) has no effect on file states
        return

    def finish(self):
        return self.ops


def coq_path(mp):
    return "(%s %d)" % (mp[0], mp[1])


def coq_op(o):
    op, a, b = o
    if op == "ORename":
        return "ORename %s %s" % (coq_path(a), coq_path(b))
    return "%s %s" % (op, coq_path(a))


def coq_ops(ops):
    return "[" + "; ".join(coq_op(o) for o in ops) + "]"


CLONE_RET = re.compile(r"^(\d+)\s+(?:(?:clone3?|fork|vfork)\(.*\)|<\.\.\. (?:clone3?|fork|vfork) resumed>.*\))\s+=\s+(\d+)\s*$")


def translate(strace_file, cache_dir):
    tr = Translator(cache_dir)
    lines = open(strace_file, errors="replace").read().splitlines()
    for line in lines:
        m = CLONE_RET.match(line)
        if m:
            tr.parent_of[int(m.group(2))] = int(m.group(1))
    for line in lines:
        tr.feed(line)
    return tr


if __name__ == "__main__":
    tr = translate(sys.argv[1], sys.argv[2])
    for o in tr.ops:
        print(coq_op(o), "   #", tr.names.get(o[1]), tr.names.get(o[2]) if o[2] else "")
