"""C05: generator of allocation histories on a device and the accounting oracle that is applied
to the implementation's observation line.

Observation (drivers/C05.cpp, extract/C05/driver.ml), steps separated by " ; ":
    <token> <ok|ERR|NUL> memoryAllocated maxMemoryAllocated mig [pid:size:reserved ...]
Specification line:  <token> <tag|?> ok
"""
import random, re

STEP_SEP = " ; "


def parse_step(part):
    m = re.match(r"^(\S+) (ok|ERR|NUL|BAD) (-?\d+) (-?\d+) (\d) \[(.*)\]$", part.strip())
    if not m:
        return None
    pools = {}
    for e in m.group(6).split():
        a, b, c = e.split(":")
        pools[int(a)] = (int(b), int(c))
    return dict(tok=m.group(1), tag=m.group(2), alloc=int(m.group(3)), max=int(m.group(4)), mig=int(m.group(5)), pools=pools)


def view_C05(line):
    """implementation observation -> what the specification line must equal; the sums are recomputed
    here from the tokens (bytes of live malloc/clone allocations) and the observed pool sizes"""
    body = line[2:] if line.startswith("R ") else line
    out = []
    live = {}        # id -> ("M"|"W", bytes)
    prev_alloc = 0
    prev_max = 0
    prev_pools = {}
    for part in body.split(STEP_SEP):
        st = parse_step(part)
        if st is None:
            out.append(part.strip())
            continue
        tok, tag = st["tok"], st["tag"]
        k = tok[0]
        if tag == "ok":
            if k == "m":
                i, n, _h = map(int, tok[1:].split(":"))
                live[i] = ("M", n)
            elif k == "c":
                i, frm = map(int, tok[1:].split(":"))
                live[i] = ("M", live[frm][1]) if frm in live else ("M", 0)
            elif k == "W":
                i, n = map(int, tok[1:].split(":"))
                live[i] = ("W", n)
            elif k == "x":
                live.pop(int(tok[1:]), None)
        flags = []
        want = sum(n for (kind, n) in live.values() if kind == "M") + sum(sz for (sz, _) in st["pools"].values())
        if st["alloc"] != want:
            flags.append("allocated!=sum-of-live(%d)" % want)
        # running maximum, including the moment of a pool migration (old and new buffer both exist)
        peak = st["alloc"]
        if k == "p" and st["mig"] == 1:
            pid = int(tok[1:tok.index(":")])
            if pid in st["pools"]:
                peak = max(peak, prev_alloc + st["pools"][pid][0])
        want_max = max(prev_max, peak)
        if st["max"] != want_max:
            flags.append("max!=running-max(%d)" % want_max)
        if not live and not st["pools"] and st["alloc"] != 0:
            flags.append("not-zero")
        s = "%s %s ok" % (tok, "?" if (k == "p" and tag != "NUL") else tag)
        if flags:
            s += " !" + ",".join(flags)
        out.append(s)
        prev_alloc, prev_max, prev_pools = st["alloc"], st["max"], st["pools"]
    return "R " + STEP_SEP.join(out)


def gen_case(rng, nops):
    toks = []
    mems = {}       # id -> bytes (plain memories incl. wrapped)
    pools = {}      # pid -> dict(res: {rid: size}, a: alignment)
    nid = [0]

    def new_id():
        nid[0] += 1
        return nid[0]

    for _ in range(nops):
        x = rng.random()
        if x < 0.22 or (not mems and not pools):
            n = rng.choice([rng.randint(1, 300), 64, 128, 1, 0]) if rng.random() < 0.95 else -rng.randint(1, 9)
            h = rng.choice([0, 1, 2, 2, 3])
            i = new_id()
            toks.append("m%d:%d:%d" % (i, n, h))
            if n > 0:
                mems[i] = n
        elif x < 0.30 and mems:
            i = new_id()
            frm = rng.choice(list(mems))
            toks.append("c%d:%d" % (i, frm))
            if mems[frm] > 0:
                mems[i] = mems[frm]
        elif x < 0.37:
            i = new_id()
            n = rng.choice([rng.randint(0, 200), 0, 16])
            toks.append("W%d:%d" % (i, n))
            mems[i] = n
        elif x < 0.52 and mems:
            i = rng.choice(list(mems))
            toks.append("x%d" % i)
            del mems[i]
        elif x < 0.60 and len(pools) < 3:
            i = new_id()
            toks.append("P%d" % i)
            pools[i] = dict(res={}, a=128)
        elif x < 0.65 and pools:
            i = rng.choice(list(pools))
            toks.append("X%d" % i)
            del pools[i]
        elif pools:
            pid = rng.choice(list(pools))
            P = pools[pid]
            y = rng.random()
            if y < 0.40 or not P["res"]:
                r = new_id()
                n = max(1, P["a"] * rng.randint(1, 3) + rng.choice([0, 0, -1, 1, 5, -P["a"] // 2]))
                toks.append("p%d:r%d:%d" % (pid, r, n))
                P["res"][r] = n
            elif y < 0.50:
                par = rng.choice(list(P["res"]))
                sz = P["res"][par]
                off = rng.randint(0, sz)
                cnt = rng.randint(0, sz - off)
                r = new_id()
                toks.append("p%d:s%d:%d:%d:%d" % (pid, r, par, off, cnt))
                P["res"][r] = cnt
            elif y < 0.75:
                r = rng.choice(list(P["res"]))
                toks.append("p%d:f%d" % (pid, r))
                del P["res"][r]
            elif y < 0.85:
                toks.append("p%d:z:%d" % (pid, rng.choice([0, 128, 256, 512, 1000, 1024, 300])))
            elif y < 0.92:
                toks.append("p%d:k" % pid)
            else:
                P["a"] = rng.choice([128, 16, 256, 64, 100])
                toks.append("p%d:a:%d" % (pid, P["a"]))
    if rng.random() < 0.5:
        # release everything: memoryAllocated() must be back at 0
        order = [("x", i) for i in mems] + [("X", i) for i in pools]
        rng.shuffle(order)
        for k, i in order:
            if k == "X" and rng.random() < 0.5:
                for r in list(pools[i]["res"]):
                    toks.append("p%d:f%d" % (i, r))
            toks.append("%s%d" % (k, i))
    return " ".join(toks)


def gen_cases(rng, n, tier):
    hi = 18 if tier == "quick" else 32
    return [gen_case(rng, rng.randint(3, hi)) for _ in range(n)]


def nontrivial(case):
    t = case.split()
    return sum(1 for x in t if x[0] in "mcP") >= 2 and any(x[0] in "xX" for x in t)


SEED_CASES = [
    "m1:64:2 x1",
    "m1:64:3 x1",
    "m1:100:0 m2:64:2 W3:40 c4:2 P5 p5:r10:200 p5:r11:50 p5:f10 p5:a:16 x2 p5:k x1 x3 x4 X5",
    "m1:16:1 c2:1 x1 x2",
    "P1 p1:r2:128 p1:r3:128 p1:r4:128 p1:f2 p1:f4 p1:r5:256 X1",
    "P1 p1:z:1000 m2:10:0 p1:r3:100 p1:a:64 x2 p1:f3 p1:k X1",
    "W1:0 c2:1 m3:0:0 m4:-5:0 x1",
]
