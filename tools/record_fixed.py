#!/usr/bin/env python3
"""Append `fixed:` lines to known_findings.txt for every fixes/Cxx-n.msg whose subject is a commit in /repo."""
import glob, os, re, subprocess
HERE = os.path.dirname(os.path.dirname(os.path.abspath(__file__)))
log = subprocess.run(["git", "-C", "/repo", "log", "--format=%h\t%s"], capture_output=True, text=True).stdout.splitlines()
bysubj = {l.split("\t", 1)[1]: l.split("\t", 1)[0] for l in log}
kf = open(os.path.join(HERE, "known_findings.txt")).read()
out = []
for m in sorted(glob.glob(os.path.join(HERE, "fixes", "C*-*.msg"))):
    prop = os.path.basename(m).split("-")[0]
    lines = open(m).read().strip().splitlines()
    subj = lines[0].strip()
    body = " ".join(l.strip() for l in lines[1:] if l.strip())
    h = bysubj.get(subj)
    if not h or ("fixed: property=%s %s" % (prop, h)) in kf:
        continue
    out.append("fixed: property=%s %s %s -- %s" % (prop, h, subj[4:].strip(), body[:400]))
with open(os.path.join(HERE, "known_findings.txt"), "a") as f:
    for l in out:
        f.write(l + "\n")
print("\n".join(out) or "nothing new")
