#!/bin/bash
# usage: tools/apply_fix.sh C27-1 C27-2 ...   applies fixes/<id>.patch to /repo as one commit each (message from fixes/<id>.msg)
set -u
for id in "$@"; do
  P=/verif/fixes/$id.patch; M=/verif/fixes/$id.msg
  [ -f "$M" ] || { echo "no message for $id"; exit 1; }
  head -1 "$M" | grep -q '^fix:' || { echo "$id: message does not start with fix:"; exit 1; }
  if git -C /repo apply --check "$P" 2>/dev/null; then git -C /repo apply "$P";
  elif git -C /repo apply --3way "$P" 2>/dev/null; then echo "$id applied with 3way";
  else echo "$id DOES NOT APPLY"; git -C /repo apply --check "$P"; exit 1; fi
  git -C /repo add -A src include && git -C /repo commit -q -F "$M" && echo "$id -> $(git -C /repo log --format=%h -1)"
done
