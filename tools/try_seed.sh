#!/bin/bash
# usage: tools/try_seed.sh <patch.diff> <Cxx> [<Cyy> ...]
# Applies a seeded change in a persistent scratch clone of /repo (outside /repo and /verif; reset to /repo's HEAD
# first), runs the given checks against it with their own incrementally rebuilt build directories, prints the
# verdict lines, and reverts the change.  Remove /tmp/seedrepo and /tmp/seedwork when seeding is over.
set -u
PATCH=$(realpath "$1"); shift
SR=/tmp/seedrepo; WK=/tmp/seedwork
exec 9>/tmp/seedrepo.lock; flock 9
if [ ! -d $SR/.git ]; then git clone -q /repo $SR || exit 2; fi
git -C $SR checkout -q -- .
H=$(git -C /repo rev-parse HEAD)
if [ "$(git -C $SR rev-parse HEAD)" != "$H" ]; then git -C $SR fetch -q origin; git -C $SR reset -q --hard $H; fi
if ! git -C $SR apply "$PATCH"; then echo "PATCH DOES NOT APPLY"; exit 2; fi
cd /verif
for P in "$@"; do
  echo "=== $P on $PATCH"
  VERIF_REPO=$SR VERIF_WORK=$WK ./check $P --tier quick > /tmp/seedrun-$P.out 2> /tmp/seedrun-$P.err
  echo "exit=$?"
  grep -E "^(VIOLATION|KNOWN-FINDING|OK )" /tmp/seedrun-$P.out | cut -c1-300
  for r in $(grep -oE "replay=[^ ]+" /tmp/seedrun-$P.out | cut -d= -f2 | head -2); do echo "--- $r"; head -12 $r | cut -c1-400; done
done
git -C $SR checkout -q -- .
