#!/bin/bash
# usage: tools/try_seed.sh <patch.diff> <Cxx> [<Cyy> ...]
# Applies a seeded change in a scratch worktree of /repo (outside /repo and /verif), runs the given checks
# against it (own build dirs), prints their verdict lines, and removes the worktree and build output.
set -u
PATCH=$(realpath "$1"); shift
TAG=$(echo "$PATCH" | md5sum | cut -c1-8)
WT=/tmp/seedrun-$TAG; WK=/tmp/seedwork-$TAG
git -C /repo worktree remove --force $WT >/dev/null 2>&1; rm -rf $WT $WK
git -C /repo worktree add --detach $WT HEAD >/dev/null 2>&1 || { echo "worktree failed"; exit 2; }
if ! git -C $WT apply "$PATCH"; then echo "PATCH DOES NOT APPLY"; git -C /repo worktree remove --force $WT; exit 2; fi
cd /verif
for P in "$@"; do
  echo "=== $P on $(basename $PATCH) ($TAG)"
  VERIF_REPO=$WT VERIF_WORK=$WK ./check $P --tier quick > /tmp/seedrun-$TAG-$P.out 2> /tmp/seedrun-$TAG-$P.err
  echo "exit=$?"
  grep -E "^(VIOLATION|KNOWN-FINDING|OK )" /tmp/seedrun-$TAG-$P.out | cut -c1-300
  for r in $(grep -oE "replay=[^ ]+" /tmp/seedrun-$TAG-$P.out | cut -d= -f2 | head -2); do echo "--- $r"; head -12 $r | cut -c1-400; done
done
git -C /repo worktree remove --force $WT >/dev/null 2>&1; rm -rf $WT $WK
