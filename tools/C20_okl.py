#!/usr/bin/env python3
"""C20/C21: the mini-OKL case format <-> abstract kernel <-> OKL source text.

Case line (one kernel + its launch arguments), tokens separated by one space:

  k<id> args:<ints|-> garr:<sizes> ob:<odims>:<idims>:<kinds>:<shared>:<nexc>:<nloc>:<attrs>
        sec:<written shared|->:<flags> <stmt> <stmt> ... sec:... ob:...

  odims/idims  comma list (1 to 3 nested loops, outer-most first) of  c<int> (literal extent) | a<n> (scalar argument p<n>)
  kinds        per global array: i (read only) | t<st> (thread-owned cells) | b<st> (block-owned) | a (@atomic +=) | n
  shared       - | comma list <stride>x<size>
  attrs        - | '+'-joined: m<a>[x<b>[x<c>]] (@max_inner_dims(a,b,c) on the outer-most @outer loop; a belongs to the
               inner-most @inner loop), s<n> (@simd_length(n)),
               r (@restrict on the pointer arguments; only looked at on the first outer block)
  sec flags    N | B (explicit @barrier(); before this inner loop) | n (@nobarrier on this inner loop), joined
  stmt         L<x>=<e>  X<x>=<e>  O<a>.<d>=<e>  B<a>.<d>=<e>  S<s>.<d>=<e>  A<a>[<e>]+=<e>  A<a>[<e>]++  A<a>[<e>]--
               I(<e>){<stmts;>}{<stmts;>}   F{<stmts;>}   R<j>,<bound>{<stmts;>}
  expr         <int>  l<x>  x<x>  o<k>  i<k>  p<n>  (<e><op><e>) op in + - * < <= == != #   m(<e>,<c>)
               g<a>[<e>]  w<a>.<d>  s<s>[<e>]  t<s>.<d>

The abstract syntax is the one of coq/C20/Lang.v (tuples tagged by constructor name).  extract/C20/driver.ml has
the same parser for the extracted model; this file prints the OKL text that the real translators get.
"""
import re, sys


class Bad(Exception):
    pass


# ---------------------------------------------------------------------------------------- parser
class Cur:
    def __init__(self, s):
        self.s, self.p = s, 0

    def peek(self):
        return self.s[self.p] if self.p < len(self.s) else "\0"

    def adv(self, n=1):
        self.p += n

    def expect(self, ch):
        if self.peek() != ch:
            raise Bad("expected %s at %d in %s" % (ch, self.p, self.s))
        self.p += 1

    def uint(self):
        m = re.compile(r"[0-9]+").match(self.s, self.p)
        if not m:
            raise Bad("number expected in " + self.s)
        self.p = m.end()
        return int(m.group(0))

    def int(self):
        if self.peek() == "-":
            self.adv()
            return -self.uint()
        return self.uint()


OPS2 = {"<=": "OLe", "==": "OEq", "!=": "ONe"}
OPS1 = {"+": "OAdd", "-": "OSub", "*": "OMul", "<": "OLt", "#": "OHlp"}
OPTEXT = {"OAdd": "+", "OSub": "-", "OMul": "*", "OLt": "<", "OLe": "<=", "OEq": "==", "ONe": "!=", "OHlp": "#"}


def p_expr(c):
    ch = c.peek()
    if ch == "(":
        c.adv()
        a = p_expr(c)
        two = c.s[c.p:c.p + 2]
        if two in OPS2:
            op = OPS2[two]
            c.adv(2)
        elif c.peek() in OPS1:
            op = OPS1[c.peek()]
            c.adv()
        else:
            raise Bad("operator expected in " + c.s)
        b = p_expr(c)
        c.expect(")")
        return ("EBin", op, a, b)
    if ch == "l":
        c.adv(); return ("ELoc", c.uint())
    if ch == "x":
        c.adv(); return ("EExc", c.uint())
    if ch == "o":
        c.adv(); return ("EOut", c.uint())
    if ch == "i":
        c.adv(); return ("EInn", c.uint())
    if ch == "p":
        c.adv(); return ("EArg", c.uint())
    if ch == "m":
        c.adv(); c.expect("("); a = p_expr(c); c.expect(","); k = c.int(); c.expect(")")
        return ("EModP", a, k)
    if ch == "g":
        c.adv(); a = c.uint(); c.expect("["); i = p_expr(c); c.expect("]")
        return ("ERdG", a, i)
    if ch == "w":
        c.adv(); a = c.uint(); c.expect("."); d = c.uint()
        return ("ERdOwn", a, d)
    if ch == "s":
        c.adv(); a = c.uint(); c.expect("["); i = p_expr(c); c.expect("]")
        return ("ERdSh", a, i)
    if ch == "t":
        c.adv(); a = c.uint(); c.expect("."); d = c.uint()
        return ("ERdShOwn", a, d)
    if ch.isdigit() or ch == "-":
        return ("EConst", c.int())
    raise Bad("expression expected at %d in %s" % (c.p, c.s))


def p_bound(c):
    if c.peek() == "c":
        c.adv(); return ("BConst", c.int())
    if c.peek() == "a":
        c.adv(); return ("BArg", c.uint())
    raise Bad("bound expected in " + c.s)


def p_stmt(c):
    ch = c.peek()
    if ch in "LX":
        c.adv(); x = c.uint(); c.expect("=")
        return ("SLoc" if ch == "L" else "SExc", x, p_expr(c))
    if ch in "OBS":
        c.adv(); a = c.uint(); c.expect("."); d = c.uint(); c.expect("=")
        return ({"O": "SWrOwn", "B": "SWrBlk", "S": "SWrSh"}[ch], a, d, p_expr(c))
    if ch == "A":
        c.adv(); a = c.uint(); c.expect("["); i = p_expr(c); c.expect("]")
        two = c.s[c.p:c.p + 2]
        c.adv(2)
        if two == "+=":
            return ("SAtom", a, i, p_expr(c))
        if two == "++":
            return ("SAtomInc", a, i)
        if two == "--":
            return ("SAtomDec", a, i)
        raise Bad("atomic form in " + c.s)
    if ch == "I":
        c.adv(); c.expect("("); e = p_expr(c); c.expect(")")
        a = p_block(c); b = p_block(c)
        return ("SIf", e, a, b)
    if ch == "F":
        c.adv(); return ("SFirst", p_block(c))
    if ch == "R":
        c.adv(); j = c.uint(); c.expect(","); b = p_bound(c)
        return ("SFor", j, b, p_block(c))
    raise Bad("statement expected at %d in %s" % (c.p, c.s))


def p_block(c):
    c.expect("{")
    out = []
    while c.peek() != "}":
        out.append(p_stmt(c))
        if c.peek() == ";":
            c.adv()
    c.adv()
    return out


def parse_stmt(tok):
    c = Cur(tok)
    s = p_stmt(c)
    if c.p != len(tok):
        raise Bad("trailing characters in " + tok)
    return s


def ints(s):
    return [] if s in ("-", "") else [int(x) for x in s.split(",")]


def parse_case(line):
    """-> dict(name, args, garr, obs=[dict(odims, idims, kinds, shared, nexc, nloc, attrs, secs=[dict(wr, flags, body)])])"""
    toks = [t for t in line.strip().split(" ") if t]
    if len(toks) < 3 or not toks[1].startswith("args:") or not toks[2].startswith("garr:"):
        raise Bad("header")
    if not re.match(r"^k[0-9A-Za-z_]+$", toks[0]):
        raise Bad("kernel name")
    K = dict(name=toks[0], args=ints(toks[1][5:]), garr=ints(toks[2][5:]), obs=[])
    ob = None
    sec = None
    for t in toks[3:]:
        if t.startswith("ob:"):
            f = t[3:].split(":")
            if len(f) != 7:
                raise Bad("ob header " + t)
            kinds = []
            for k in f[2].split(","):
                if k in ("i", "a", "n"):
                    kinds.append((k, 0))
                elif re.match(r"^[tb][0-9]+$", k):
                    kinds.append((k[0], int(k[1:])))
                else:
                    raise Bad("kind " + k)
            shared = []
            if f[3] != "-":
                for x in f[3].split(","):
                    a, b = x.split("x")
                    shared.append((int(a), int(b)))
            ob = dict(odims=[p_bound(Cur(x)) for x in f[0].split(",")], idims=[p_bound(Cur(x)) for x in f[1].split(",")],
                      kinds=kinds, shared=shared, nexc=int(f[4]), nloc=int(f[5]),
                      attrs=[] if f[6] == "-" else f[6].split("+"), secs=[])
            K["obs"].append(ob)
            sec = None
        elif t.startswith("sec:"):
            if ob is None:
                raise Bad("sec outside ob")
            f = t[4:].split(":")
            if len(f) != 2:
                raise Bad("sec header " + t)
            sec = dict(wr=ints(f[0]), flags=f[1], body=[])
            ob["secs"].append(sec)
        else:
            if sec is None:
                raise Bad("statement outside a section: " + t)
            sec["body"].append(parse_stmt(t))
    if not K["obs"]:
        raise Bad("no outer block")
    for ob in K["obs"]:
        if not ob["secs"]:
            raise Bad("no section")
        if not (1 <= len(ob["odims"]) <= 3 and 1 <= len(ob["idims"]) <= 3):
            raise Bad("nest depth")
        if len(ob["kinds"]) != len(K["garr"]):
            raise Bad("kinds length")
    return K


# ---------------------------------------------------------------------------------------- printer (case tokens)
def show_expr(e):
    t = e[0]
    if t == "EConst":
        return str(e[1])
    if t in ("ELoc", "EExc", "EOut", "EInn", "EArg"):
        return {"ELoc": "l", "EExc": "x", "EOut": "o", "EInn": "i", "EArg": "p"}[t] + str(e[1])
    if t == "EBin":
        return "(%s%s%s)" % (show_expr(e[2]), OPTEXT[e[1]], show_expr(e[3]))
    if t == "EModP":
        return "m(%s,%d)" % (show_expr(e[1]), e[2])
    if t == "ERdG":
        return "g%d[%s]" % (e[1], show_expr(e[2]))
    if t == "ERdOwn":
        return "w%d.%d" % (e[1], e[2])
    if t == "ERdSh":
        return "s%d[%s]" % (e[1], show_expr(e[2]))
    if t == "ERdShOwn":
        return "t%d.%d" % (e[1], e[2])
    raise Bad("expr " + str(e))


def show_bound(b):
    return ("c%d" if b[0] == "BConst" else "a%d") % b[1]


def show_stmt(s):
    t = s[0]
    if t == "SLoc":
        return "L%d=%s" % (s[1], show_expr(s[2]))
    if t == "SExc":
        return "X%d=%s" % (s[1], show_expr(s[2]))
    if t in ("SWrOwn", "SWrBlk", "SWrSh"):
        return "%s%d.%d=%s" % ({"SWrOwn": "O", "SWrBlk": "B", "SWrSh": "S"}[t], s[1], s[2], show_expr(s[3]))
    if t == "SAtom":
        return "A%d[%s]+=%s" % (s[1], show_expr(s[2]), show_expr(s[3]))
    if t in ("SAtomInc", "SAtomDec"):
        return "A%d[%s]%s" % (s[1], show_expr(s[2]), "++" if t == "SAtomInc" else "--")
    if t == "SIf":
        return "I(%s){%s}{%s}" % (show_expr(s[1]), ";".join(map(show_stmt, s[2])), ";".join(map(show_stmt, s[3])))
    if t == "SFirst":
        return "F{%s}" % ";".join(map(show_stmt, s[1]))
    if t == "SFor":
        return "R%d,%s{%s}" % (s[1], show_bound(s[2]), ";".join(map(show_stmt, s[3])))
    raise Bad("stmt " + str(s))


def show_case(K):
    toks = [K["name"], "args:" + (",".join(map(str, K["args"])) or "-"), "garr:" + ",".join(map(str, K["garr"]))]
    for ob in K["obs"]:
        kinds = ",".join(k if k in "ian" else "%s%d" % (k, st) for k, st in ob["kinds"])
        sh = ",".join("%dx%d" % x for x in ob["shared"]) or "-"
        toks.append("ob:%s:%s:%s:%s:%d:%d:%s" % (",".join(map(show_bound, ob["odims"])), ",".join(map(show_bound, ob["idims"])),
                                                 kinds, sh, ob["nexc"], ob["nloc"], "+".join(ob["attrs"]) or "-"))
        for sec in ob["secs"]:
            toks.append("sec:%s:%s" % (",".join(map(str, sec["wr"])) or "-", sec["flags"] or "N"))
            toks += [show_stmt(s) for s in sec["body"]]
    return " ".join(toks)


# ---------------------------------------------------------------------------------------- OKL text
def lit(v):
    return str(v) if v >= 0 else "(%d)" % v


def bound_text(b):
    return lit(b[1]) if b[0] == "BConst" else "p%d" % b[1]


class Emit:
    def __init__(self, K, ob):
        self.K, self.ob = K, ob
        od, idm = ob["odims"], ob["idims"]
        self.lo = self.linear("o", od)
        self.li = self.linear("i", idm)
        self.mi = bound_text(idm[0]) if len(idm) == 1 else "(%s)" % " * ".join(bound_text(b) for b in idm)

    @staticmethod
    def linear(v, dims):
        """row-major linear index text of the loop variables v0, v1, ... over the extents dims"""
        t = v + "0"
        for k in range(1, len(dims)):
            t = "(%s * %s + %s%d)" % (t, bound_text(dims[k]), v, k)
        return t

    def gstride(self, a):
        k, st = self.ob["kinds"][a]
        return st if k in "tb" else 0

    def own(self, a, d):
        return "((%s * %s + %s) * %d + %d)" % (self.lo, self.mi, self.li, self.gstride(a), d)

    def blk(self, a, d):
        return "(%s * %d + %d)" % (self.lo, self.gstride(a), d)

    def sh(self, s, d):
        st = self.ob["shared"][s][0] if s < len(self.ob["shared"]) else 0
        return "(%s * %d + %d)" % (self.li, st, d)

    def expr(self, e):
        t = e[0]
        if t == "EConst":
            return lit(e[1])
        if t == "ELoc":
            return "v%d" % e[1]
        if t == "EExc":
            return "x%d" % e[1]
        if t == "EOut":
            return "o%d" % e[1]
        if t == "EInn":
            return "i%d" % e[1]
        if t == "EArg":
            return "p%d" % e[1]
        if t == "EBin":
            if e[1] == "OHlp":
                return "h_%s(%s, %s)" % (self.K["name"], self.expr(e[2]), self.expr(e[3]))
            return "(%s %s %s)" % (self.expr(e[2]), OPTEXT[e[1]], self.expr(e[3]))
        if t == "EModP":
            return "(((%s) %% %d + %d) %% %d)" % (self.expr(e[1]), e[2], e[2], e[2])
        if t == "ERdG":
            return "g%d[%s]" % (e[1], self.expr(e[2]))
        if t == "ERdOwn":
            return "g%d[%s]" % (e[1], self.own(e[1], e[2]))
        if t == "ERdSh":
            return "s%d[%s]" % (e[1], self.expr(e[2]))
        if t == "ERdShOwn":
            return "s%d[%s]" % (e[1], self.sh(e[1], e[2]))
        raise Bad("expr")

    def stmts(self, body, ind, out):
        p = "  " * ind
        for s in body:
            t = s[0]
            if t == "SLoc":
                out.append("%sv%d = %s;" % (p, s[1], self.expr(s[2])))
            elif t == "SExc":
                out.append("%sx%d = %s;" % (p, s[1], self.expr(s[2])))
            elif t == "SWrOwn":
                out.append("%sg%d[%s] = %s;" % (p, s[1], self.own(s[1], s[2]), self.expr(s[3])))
            elif t == "SWrBlk":
                out.append("%sg%d[%s] = %s;" % (p, s[1], self.blk(s[1], s[2]), self.expr(s[3])))
            elif t == "SWrSh":
                out.append("%ss%d[%s] = %s;" % (p, s[1], self.sh(s[1], s[2]), self.expr(s[3])))
            elif t == "SAtom":
                out.append("%s@atomic g%d[%s] += %s;" % (p, s[1], self.expr(s[2]), self.expr(s[3])))
            elif t in ("SAtomInc", "SAtomDec"):
                out.append("%s@atomic %sg%d[%s];" % (p, "++" if t == "SAtomInc" else "--", s[1], self.expr(s[2])))
            elif t == "SIf":
                out.append("%sif (%s != 0) {" % (p, self.expr(s[1])))
                self.stmts(s[2], ind + 1, out)
                if s[3]:
                    out.append("%s} else {" % p)
                    self.stmts(s[3], ind + 1, out)
                out.append("%s}" % p)
            elif t == "SFirst":
                out.append("%sif (%s == 0) {" % (p, self.li))
                self.stmts(s[1], ind + 1, out)
                out.append("%s}" % p)
            elif t == "SFor":
                out.append("%sfor (v%d = 0; v%d < %s; ++v%d) {" % (p, s[1], s[1], bound_text(s[2]), s[1]))
                self.stmts(s[3], ind + 1, out)
                out.append("%s}" % p)
            else:
                raise Bad("stmt")


def uses_helper(x):
    if isinstance(x, (list, tuple)):
        if len(x) >= 2 and x[0] == "EBin" and x[1] == "OHlp":
            return True
        return any(uses_helper(y) for y in x)
    return False


def okl_text(K):
    out = []
    if any(uses_helper(sec["body"]) for ob in K["obs"] for sec in ob["secs"]):
        out.append("int h_%s(const int a, const int b) {" % K["name"])
        out.append("  return a * 2 + b;")
        out.append("}")
        out.append("")
    restrict = "r" in K["obs"][0]["attrs"]
    written = set()
    for ob in K["obs"]:
        for a, (k, st) in enumerate(ob["kinds"]):
            if k in "tba":
                written.add(a)
    params = ["const int p%d" % n for n in range(len(K["args"]))]
    for a in range(len(K["garr"])):
        params.append("%s%sint *g%d" % ("@restrict " if restrict else "", "" if a in written else "const ", a))
    out.append("@kernel void %s(%s) {" % (K["name"], ", ".join(params)))
    for ob in K["obs"]:
        E = Emit(K, ob)
        ind = 1
        for a in ob["attrs"]:
            m = re.match(r"^m([0-9]+)(?:x([0-9]+))?(?:x([0-9]+))?$", a)
            if m:
                out.append("  " * ind + "@max_inner_dims(%s)" % ",".join(x for x in m.groups() if x))
        simd = [a for a in ob["attrs"] if re.match(r"^s[0-9]+$", a)]
        for k, b in enumerate(ob["odims"]):
            extra = (" @simd_length(%s)" % simd[0][1:]) if (simd and k == 0) else ""
            out.append("  " * ind + "for (int o%d = 0; o%d < %s; ++o%d; @outer%s) {" % (k, k, bound_text(b), k, extra))
            ind += 1
        for s, (st, sz) in enumerate(ob["shared"]):
            out.append("  " * ind + "@shared int s%d[%d];" % (s, sz))
        for x in range(ob["nexc"]):
            out.append("  " * ind + "@exclusive int x%d;" % x)
        for q, sec in enumerate(ob["secs"]):
            if "B" in sec["flags"] and q > 0:
                out.append("  " * ind + "@barrier();")
            i2 = ind
            for k, b in enumerate(ob["idims"]):
                nb = " @nobarrier" if ("n" in sec["flags"] and k == 0) else ""
                out.append("  " * i2 + "for (int i%d = 0; i%d < %s; ++i%d; @inner%s) {" % (k, k, bound_text(b), k, nb))
                i2 += 1
            if ob["nloc"]:
                out.append("  " * i2 + "int " + ", ".join("v%d = 0" % x for x in range(ob["nloc"])) + ";")
            E.stmts(sec["body"], i2, out)
            for k in range(len(ob["idims"])):
                i2 -= 1
                out.append("  " * i2 + "}")
        for k in range(len(ob["odims"])):
            ind -= 1
            out.append("  " * ind + "}")
    out.append("}")
    return "\n".join(out) + "\n"


def extent(K, b):
    return b[1] if b[0] == "BConst" else K["args"][b[1]]


def init_array(a, n):
    return [((i * 7 + a * 13 + 5) % 23) - 9 for i in range(n)]


if __name__ == "__main__":
    for line in sys.stdin:
        if line.strip():
            sys.stdout.write(okl_text(parse_case(line)))
