#!/usr/bin/env python3
"""Translator (T) for C09's hypothesis fresh_temps: distinct processes draw distinct staged temp names.
Reads io::getStagedTempFilename (src/occa/internal/io/utils.cpp) and hash_t::random (src/utils/hash.cpp) and decides
whether every call draws fresh entropy from the operating system (a non-static std::random_device constructed and
called inside the function).  Anything else — a generator kept across calls (inherited by fork()ed children), seeding
from time/pid, rand() — is reported as not understood / not fresh.  Returns (ok, reason)."""
import os, re, sys


def strip_comments(t):
    t = re.sub(r"/\*.*?\*/", " ", t, flags=re.S)
    return re.sub(r"//[^\n]*", " ", t)


def body_of(text, header_rx):
    m = re.search(header_rx, text)
    if not m:
        return None
    i = text.index("{", m.end() - 1)
    depth, j = 0, i
    while j < len(text):
        if text[j] == "{":
            depth += 1
        elif text[j] == "}":
            depth -= 1
            if depth == 0:
                return text[i + 1:j]
        j += 1
    return None


def analyse(repo):
    utils = strip_comments(open(os.path.join(repo, "src/occa/internal/io/utils.cpp")).read())
    hsh = strip_comments(open(os.path.join(repo, "src/utils/hash.cpp")).read())
    b1 = body_of(utils, r"std::string\s+getStagedTempFilename\s*\([^)]*\)\s*\{")
    if b1 is None:
        return False, "io::getStagedTempFilename not found"
    if not re.search(r"hash_t::random\s*\(\s*\)\s*\.\s*getString\s*\(\s*\)", b1):
        return False, "getStagedTempFilename no longer names the temp file with hash_t::random().getString()"
    b2 = body_of(hsh, r"hash_t\s+hash_t::random\s*\(\s*\)\s*\{")
    if b2 is None:
        return False, "hash_t::random not found"
    for bad in ("static", "mt19937", "minstd", "default_random_engine", "srand", "rand(", "getpid", "thread_local", "seed"):
        if bad in b2:
            return False, "hash_t::random uses `%s`: its randomness is not drawn afresh from the OS on every call" % bad
    m = re.search(r"std::random_device\s+(\w+)\s*;", b2)
    if not m:
        return False, "hash_t::random does not construct a local std::random_device"
    rd = m.group(1)
    ret = re.search(r"return\s*\((.*)\)\s*;", b2, re.S) or re.search(r"return\s+(.*?);", b2, re.S)
    if not ret or not re.search(r"\b%s\s*\(\s*\)" % re.escape(rd), ret.group(1)):
        return False, "the value returned by hash_t::random does not depend on a fresh %s() draw" % rd
    return True, "hash_t::random: local std::random_device `%s`, drawn once per call and mixed into the name" % rd


if __name__ == "__main__":
    print(analyse(sys.argv[1] if len(sys.argv) > 1 else "/repo"))
