#!/usr/bin/env python3
"""Write seeded/<id>/meta.json from the seeding agent's README and the recorded try_seed result.
usage: tools/seed_meta.py <seed id> <result file>"""
import json, os, re, sys
HERE = os.path.dirname(os.path.dirname(os.path.abspath(__file__)))
sid, resf = sys.argv[1], sys.argv[2]
d = os.path.join(HERE, "seeded", sid)
prop = sid.split("-")[0]
readme = ""
for n in ("README.txt", "README.md"):
    p = os.path.join(d, n)
    if os.path.exists(p):
        readme = open(p, errors="replace").read()
        break
res = open(resf, errors="replace").read() if os.path.exists(resf) else ""
verdicts = re.findall(r"^(VIOLATION[^\n]*|OK [^\n]*|exit=\d+)", res, re.M)
cases = re.findall(r"^(?:case|first disagreeing case): ([^\n]*)", res, re.M)
caught = any(v.startswith("VIOLATION") for v in verdicts)
meta = dict(
    property=prop, seed=sid,
    breaks="see README.txt (written by the independent seeding agent, which saw only the property text)",
    needs_to_manifest=(re.search(r"(?is)(condition[^\n]*\n.*?)(?:\n\n|\Z)", readme) or re.search(r"(?s)(.{0,600})", readme)).group(1)[:900],
    ran=["tools/try_seed.sh seeded/%s/patch.diff %s  (patch applied in a scratch clone of /repo HEAD, check run against it, reverted)" % (sid, prop),
         "existing 61 tests pass with the change (confirmed by the seeding agent, see README/ctest output; demo fails with / passes without)"],
    check_verdict=verdicts[:6], replay_cases=[c[:300] for c in cases[:3]],
    caught=caught,
    caught_with_failing_input=caught and not all("no-failing-input-found" in v for v in verdicts if v.startswith("VIOLATION")))
json.dump(meta, open(os.path.join(d, "meta.json"), "w"), indent=1)
print(sid, "caught" if caught else "MISSED", verdicts[:2])
