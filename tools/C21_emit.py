#!/usr/bin/env python3
"""C21 translator check + runner (the implementation command of props/C21.py).

  C21_emit.py <C20 driver exe> <C20_tr driver exe>       case lines on stdin, one "R ..." line per case on stdout

Per case (same case format as C20, tools/C20_okl.py):
 (T) the OpenMP translation of the kernel (`occa translate -m OpenMP`, via drivers/C20_tr.cpp) is checked for the
     structural premises of coq/C21/Model.v:
       T1  exactly one `#pragma omp parallel for`, immediately before each outer-most @outer loop, and no other
           OpenMP work-sharing / parallel pragma anywhere;
       T2  every @shared / @exclusive declaration and the `_occa_exclusive_index` declaration is inside the body of
           that loop and has automatic storage (no static / thread_local / extern ... qualifier), so it is one object
           per iteration — the premise of task_state_is_private;
       T3  every statement that was `@atomic` in the OKL source is immediately preceded by `#pragma omp atomic` or
           `#pragma omp critical`;
       X1/X2 (tools/C20_run.py exclusive_index_check) one reset of `_occa_exclusive_index` per inner nest in the body of
           the inner-most @outer loop and one increment per inner nest in the body of the inner-most @inner loop.
     The checker knows the printer's line shapes and refuses (T?) a source it does not fully understand.
 (H) the kernel is JIT-built and run by the real library on an OpenMP device with OMP_NUM_THREADS in C21_THREADS
     (each value C21_REPS times) and on a Serial device; in addition the emitted OpenMP source, with
     `schedule(runtime)` appended to its pragmas (the emitted pragma has no schedule clause, so OMP_SCHEDULE would
     be ignored), is compiled with g++ -fopenmp and run under the (schedule, threads) pairs of C21_SCHEDULES.

  R V g0=..;g1=..          T1-T3 hold and every run ended with these arrays
  R DIFF <what differs>    otherwise
"""
import os, re, shutil, subprocess, sys, tempfile
from concurrent.futures import ThreadPoolExecutor

HERE = os.path.dirname(os.path.abspath(__file__))
sys.path.insert(0, HERE)
import C20_okl as O
import C20_run as R20

CXXFLAGS = ["-std=c++17", "-O0", "-g1", "-fwrapv", "-fopenmp", "-fsanitize=address", "-fno-omit-frame-pointer", "-w"]


# ---------------------------------------------------------------------------------------------- (T)
LINE_OK = [
    r"^$",
    r"^extern \"C\" void \w+\(((const )?int [&*] (__restrict__ )?\w+(, )?)+\) \{$",      # the kernel header
    r"^int \w+\(const int \w+, const int \w+\) \{$", r"^return a \* 2 \+ b;$",            # the helper function
    r"^for \((int )?\w+ = 0; \w+ < [^;]+; \+\+\w+\) \{\}?$",
    r"^\}$", r"^else \{\}?$", r"^if \(.*\) \{\}?$",
    r"^int v0 = 0(, v\d+ = 0)*;$",
    r"^((static|thread_local|extern|register|const|volatile|constexpr|__thread) )*int (s\d+|x\d+)\[\d+\];$",
    r"^((static|thread_local|extern|register|const|volatile|constexpr|__thread) )*int _occa_exclusive_index;$",
    r"^_occa_exclusive_index = 0;$", r"^\+\+_occa_exclusive_index;$",
    r"^;$",
    r"^#pragma omp (parallel for|atomic|critical)$",
    r"^(v\d+|x\d+\[_occa_exclusive_index\]|x\d+|g\d+\[.*\]|s\d+\[.*\]) (=|\+=) .*;$",
    r"^(\+\+|--)g\d+\[.*\];$",
]
LINE_OK = [re.compile(x) for x in LINE_OK]


def logical_lines(src):
    """the printer breaks long parameter / argument lists over several lines: join up to the next ; { } or pragma"""
    out, cur = [], ""
    for raw in src.splitlines():
        l = raw.strip()
        if not l:
            continue
        if l.startswith("#"):
            if cur:
                out.append(cur)
                cur = ""
            out.append(l)
            continue
        cur = (cur + " " + l) if cur else l
        if cur.endswith(";") or cur.endswith("{") or cur.endswith("}"):
            out.append(cur)
            cur = ""
    if cur:
        out.append(cur)
    return out


def count_atomics(body):
    n = 0
    for s in body:
        if s[0] in ("SAtom", "SAtomInc", "SAtomDec"):
            n += 1
        elif s[0] == "SIf":
            n += count_atomics(s[2]) + count_atomics(s[3])
        elif s[0] == "SFirst":
            n += count_atomics(s[1])
        elif s[0] == "SFor":
            n += count_atomics(s[3])
    return n


def structure_check(K, src):
    """-> list of failed premises (strings); [] when T1-T3 hold"""
    bad = []
    lines = logical_lines(src)
    for l in lines:
        if not any(r.match(l) for r in LINE_OK):
            return ["T? line not understood: " + l[:80]]
    nob = len(K["obs"])
    depth = 0
    in_kernel = False
    ob = -1                     # index of the outer block we are in (-1: none)
    ob_depth = None
    par_positions = []
    atom_targets = [set(a for a, (k, st) in enumerate(o["kinds"]) if k == "a") for o in K["obs"]]
    want_atomics = [sum(count_atomics(sec["body"]) for sec in o["secs"]) for o in K["obs"]]
    got_atomics = [0] * nob
    want_decls = [len(o["shared"]) + o["nexc"] + (1 if o["nexc"] else 0) for o in K["obs"]]
    got_decls = [0] * nob
    prev = ""
    nouter = 0
    for i, l in enumerate(lines):
        if l.startswith('extern "C" void ' + K["name"] + "("):
            in_kernel = True
        if re.match(r"^#pragma omp parallel for$", l):
            par_positions.append(i)
            if not in_kernel or depth != 1 or ob != -1:
                bad.append("T1 `omp parallel for` at nesting depth %d%s" % (depth, " inside an outer loop" if ob != -1 else ""))
            nxt = lines[i + 1] if i + 1 < len(lines) else ""
            if not re.match(r"^for \(int o0 = 0;", nxt):
                bad.append("T1 `omp parallel for` not immediately before an outer-most @outer loop")
        if re.match(r"^for \(int o0 = 0;", l):
            nouter += 1
            if not re.match(r"^#pragma omp parallel for$", prev):
                bad.append("T1 outer-most @outer loop %d without `#pragma omp parallel for`" % (nouter - 1))
            ob = nouter - 1
            ob_depth = depth
        if re.match(r"^for \(int (o1|i0|i1) = 0;", l) and prev.startswith("#pragma"):
            bad.append("T1 pragma before a nested loop: " + prev)
        m = re.match(r"^((?:\w+ )*)int (?:(?:s\d+|x\d+)\[\d+\]|_occa_exclusive_index);$", l)
        if m:
            quals = m.group(1).split()
            if quals:
                # task_state_is_private needs one object per iteration: automatic storage only
                bad.append("T2 declaration without automatic storage (%s): %s" % (" ".join(quals), l[:60]))
            if ob == -1 or ob >= nob:
                bad.append("T2 declaration outside the parallel loop: " + l)
            else:
                got_decls[ob] += 1
        m = re.match(r"^g(\d+)\[.*\] \+= .*;$|^(?:\+\+|--)g(\d+)\[.*\];$", l)
        if m:
            a = int(m.group(1) or m.group(2))
            if 0 <= ob < nob and a in atom_targets[ob]:
                got_atomics[ob] += 1
                if not re.match(r"^#pragma omp (atomic|critical)$", prev):
                    bad.append("T3 @atomic update of g%d without `omp atomic`/`omp critical`" % a)
            else:
                bad.append("T? += on a non-atomic array: " + l[:60])
        if re.match(r"^#pragma omp (atomic|critical)$", l):
            nxt = lines[i + 1] if i + 1 < len(lines) else ""
            if not re.match(r"^g\d+\[.*\] \+= .*;$|^(\+\+|--)g\d+\[.*\];$", nxt):
                bad.append("T3 atomic pragma not followed by the update")
        depth += l.count("{") - l.count("}")
        if ob != -1 and depth <= ob_depth:
            ob = -1
        if in_kernel and depth == 0 and l == "}":
            in_kernel = False
        if l:
            prev = l
    if len(par_positions) != nob or nouter != nob:
        bad.append("T1 %d `omp parallel for` for %d outer-most @outer loops (expected %d)" % (len(par_positions), nouter, nob))
    if got_decls != want_decls:
        bad.append("T2 declarations inside the parallel loops %s, expected %s" % (got_decls, want_decls))
    if got_atomics != want_atomics:
        bad.append("T3 atomic updates found %s, expected %s" % (got_atomics, want_atomics))
    seen = []
    for b in bad:
        if b not in seen:
            seen.append(b)
    return seen


# ---------------------------------------------------------------------------------------------- (H) stand-alone program
def standalone_program(members, d):
    """members = [(tag, K, path of the emitted OpenMP source)] -> exe or (None, error)"""
    os.makedirs(d, exist_ok=True)
    out = ["// generated by tools/C21_emit.py", "#include <stdio.h>", "#include <stdlib.h>", "#include <string.h>"]
    for tag, K, kf in members:
        src = open(kf).read().replace("#pragma omp parallel for", "#pragma omp parallel for schedule(runtime)")
        p = os.path.join(d, tag + ".inc")
        open(p, "w").write(src)
        out.append('#include "%s"' % p)
    for tag, K, kf in members:
        out.append("static void run_%s() {" % tag)
        for n, v in enumerate(K["args"]):
            out.append("  int p%d = %d;" % (n, v))
        for a, n in enumerate(K["garr"]):
            out.append("  int *g%d = (int*) malloc(sizeof(int) * %d);" % (a, n))
            out.append("  for (int i = 0; i < %d; ++i) g%d[i] = ((i * 7 + %d * 13 + 5) %% 23) - 9;" % (n, a, a))
        out.append("  %s(%s);" % (K["name"], ", ".join(["p%d" % n for n in range(len(K["args"]))] + ["g%d" % a for a in range(len(K["garr"]))])))
        out.append('  printf("R V ");')
        for a, n in enumerate(K["garr"]):
            out.append('  printf("%sg%d=");' % (";" if a else "", a))
            out.append('  for (int i = 0; i < %d; ++i) printf(i ? ",%%d" : "%%d", g%d[i]);' % (n, a))
        out.append('  printf("\\n");')
        for a in range(len(K["garr"])):
            out.append("  free(g%d);" % a)
        out.append("}")
    out.append("int main(int argc, char **argv) {")
    out.append("  if (argc < 2) return 2;")
    for tag, K, kf in members:
        out.append('  if (!strcmp(argv[1], "%s")) { run_%s(); return 0; }' % (tag, tag))
    out.append("  return 2;")
    out.append("}")
    src = os.path.join(d, "prog.cpp")
    open(src, "w").write("\n".join(out) + "\n")
    exe = os.path.join(d, "prog")
    p = subprocess.run(["g++"] + CXXFLAGS + [src, "-o", exe], stdout=subprocess.PIPE, stderr=subprocess.PIPE, text=True, errors="replace")
    if p.returncode != 0:
        msg = [l for l in p.stderr.splitlines() if "error" in l]
        return None, (re.sub(r"^[^ ]*: ", "", msg[0]) if msg else "?")[:160]
    return exe, ""


def parse_schedules(txt):
    """'static,1@3;dynamic,1@4' -> [('static,1', 3), ...]"""
    out = []
    for x in txt.split(";"):
        if x.strip():
            s, t = x.split("@")
            out.append((s, int(t)))
    return out


def main():
    drv, trexe = sys.argv[1], sys.argv[2]
    lines = [l.rstrip("\n") for l in sys.stdin if l.strip()]
    threads = [int(x) for x in os.environ.get("C21_THREADS", "1,2,4,16").split(",")]
    reps = int(os.environ.get("C21_REPS", "1"))
    scheds = parse_schedules(os.environ.get("C21_SCHEDULES", "static,1@3;dynamic,1@4;dynamic,2@16;guided@7;static@5"))
    jobs = int(os.environ.get("C20_JOBS", str(min(16, os.cpu_count() or 4))))
    base = os.environ.get("C20_TMP") or tempfile.gettempdir()
    os.makedirs(base, exist_ok=True)
    root = tempfile.mkdtemp(prefix="c21-", dir=base)
    try:
        env = R20.asan_env(os.environ)
        env["OCCA_CACHE_DIR"] = os.path.join(root, "occa-cache")
        env["OCCA_VERBOSE"] = "0"
        prepared = R20.prepare(lines, root)
        R20.translate_all(trexe, prepared, ["openmp"], env, jobs)
        idx = [i for i, p in enumerate(prepared) if p[0] is not None]
        notes = {i: [] for i in idx}
        # (T)
        for i in idx:
            K, _, kdir, okl = prepared[i]
            kf = os.path.join(kdir, "openmp.kernel")
            if not os.path.exists(kf):
                notes[i].append("T? no OpenMP translation")
                continue
            notes[i] += structure_check(K, open(kf).read())
            notes[i] += R20.exclusive_index_check(K, open(kf).read())
        # (H) through the library
        obs = {i: {} for i in idx}

        def lib_run(mode, nthreads, rep, shards=1):
            e = dict(env)
            if nthreads:
                e["OMP_NUM_THREADS"] = str(nthreads)
                e["OMP_DYNAMIC"] = "false"
            parts = [idx[k::shards] for k in range(shards)]
            res = {}

            def one(part):
                return part, R20.run_driver_lines([drv], [R20.driver_line(mode, prepared[i][0], prepared[i][3]) for i in part], e)
            with ThreadPoolExecutor(max_workers=shards) as ex2:
                for part, r in ex2.map(one, [p for p in parts if p]):
                    for i, x in zip(part, r):
                        res[i] = x
            return ("%s%s%s" % (mode, ("[t=%d]" % nthreads) if nthreads else "", ("#%d" % rep) if rep else ""),
                    [res.get(i, "MISSING") for i in idx])

        # the first Serial and the first OpenMP run JIT-build the kernels: sharded over processes, both at once
        nsh = max(1, min(jobs // 2, len(idx)))
        with ThreadPoolExecutor(max_workers=2) as ex:
            f1 = ex.submit(lib_run, "serial", 0, 0, nsh)
            f2 = ex.submit(lib_run, "openmp", threads[0], 0, nsh)
            first = [f1.result(), f2.result()]
        rest = [(t, rep) for t in threads for rep in range(reps) if not (t == threads[0] and rep == 0)]
        with ThreadPoolExecutor(max_workers=max(1, min(jobs // 2, len(rest) or 1))) as ex:
            more = list(ex.map(lambda tr: lib_run("openmp", tr[0], tr[1]), rest))
        for name, r in first + more:
            for i, x in zip(idx, r):
                obs[i][name] = x
        # (H) stand-alone with schedule(runtime)
        members = [("c%d" % i, prepared[i][0], os.path.join(prepared[i][2], "openmp.kernel")) for i in idx
                   if os.path.exists(os.path.join(prepared[i][2], "openmp.kernel"))]

        def build_and_run(ms, depth):
            if not ms:
                return
            exe, err = standalone_program(ms, os.path.join(root, "sa-%d-%s" % (depth, ms[0][0])))
            if exe is None:
                if len(ms) == 1:
                    obs[int(ms[0][0][1:])]["standalone"] = "CCERR " + err
                    return
                h = len(ms) // 2
                build_and_run(ms[:h], depth + 1)
                build_and_run(ms[h:], depth + 1)
                return

            def one(job):
                tag, sched, t = job
                e = dict(env)
                e["OMP_SCHEDULE"] = sched
                e["OMP_NUM_THREADS"] = str(t)
                e["OMP_DYNAMIC"] = "false"
                return tag, "sched[%s,t=%d]" % (sched, t), R20.run_program(exe, tag, e)
            with ThreadPoolExecutor(max_workers=jobs) as ex:
                for tag, name, o in ex.map(one, [(m[0], s, t) for m in ms for s, t in scheds]):
                    obs[int(tag[1:])][name] = o
        build_and_run(members, 0)
        for i, p in enumerate(prepared):
            if p[0] is None:
                print("R BADCASE " + p[1], flush=True)
                continue
            ref = obs[i].get("serial", "MISSING")
            diffs = ["%s=%s" % (k, v) for k, v in obs[i].items() if v != ref]
            if not notes[i] and not diffs and ref.startswith("V "):
                print("R " + ref, flush=True)
            else:
                parts = list(notes[i])
                if diffs or not ref.startswith("V "):
                    parts.append("serial=" + ref)
                    parts += diffs
                print("R DIFF " + " | ".join(parts), flush=True)
    finally:
        if not os.environ.get("C20_KEEP"):
            shutil.rmtree(root, ignore_errors=True)
    return 0


if __name__ == "__main__":
    sys.exit(main())
