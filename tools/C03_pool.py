"""Shared by props/C03.py and props/C04.py: history generator for occa::memoryPool, parser of the
driver observations and the two oracles (C03: placement + contents, C04: accounting) that are
applied to the *implementation's* observation line.

Observation line (drivers/C03.cpp, extract/C03/driver.ml), steps separated by " ; ":
    <token> <ok|ERR|NUL> reserved size num alignment allocated max mig [id/fam@off+size#hash ...]
Specification line: <token> <tag|?> <count> [id:size:hash ...]   (by id)
"""
import random, re

STEP_SEP = " ; "


def parse_step(part):
    part = part.strip()
    m = re.match(r"^(\S+) (ok|ERR|NUL|BAD) (-?\d+) (-?\d+) (-?\d+) (-?\d+) (-?\d+) (-?\d+) (-?\d+) \[(.*)\]$", part)
    if not m:
        return None
    ents = []
    for e in m.group(10).split():
        mm = re.match(r"^(-?\d+)/(-?\d+)@(-?\d+)\+(-?\d+)#([0-9a-f]{8})$", e)
        if not mm:
            return None
        ents.append((int(mm.group(1)), int(mm.group(2)), int(mm.group(3)), int(mm.group(4)), mm.group(5)))
    return dict(tok=m.group(1), tag=m.group(2), reserved=int(m.group(3)), size=int(m.group(4)), num=int(m.group(5)),
                a=int(m.group(6)), alloc=int(m.group(7)), max=int(m.group(8)), mig=int(m.group(9)), ents=ents)


def parse_obs(line):
    body = line[2:] if line.startswith("R ") else line
    return [(p, parse_step(p)) for p in body.split(STEP_SEP)] if body.strip() else []


def union_measure(ents, a):
    """number of byte positions covered by the ranges, each rounded out to the alignment a"""
    if a <= 0:
        return -1
    ivs = sorted(((off // a) * a, ((off + sz + a - 1) // a) * a) for (_, _, off, sz, _) in ents)
    total = 0
    cur_lo = cur_hi = None
    for lo, hi in ivs:
        if hi <= lo:
            continue
        if cur_hi is None or lo > cur_hi:
            if cur_hi is not None:
                total += cur_hi - cur_lo
            cur_lo, cur_hi = lo, hi
        else:
            cur_hi = max(cur_hi, hi)
    if cur_hi is not None:
        total += cur_hi - cur_lo
    return total


def placement_flags(st):
    """C03: every reservation inside [0,size); reservations of different families share no byte;
    every byte of a slice is a byte of its (live) root"""
    flags = []
    ents = st["ents"]
    for (_, _, off, sz, _) in ents:
        if off < 0 or sz < 0 or off + sz > st["size"]:
            flags.append("outside-pool")
            break
    done = False
    for x in range(len(ents)):
        for y in range(x + 1, len(ents)):
            A, B = ents[x], ents[y]
            if A[1] != B[1] and A[3] > 0 and B[3] > 0 and A[2] < B[2] + B[3] and B[2] < A[2] + A[3]:
                flags.append("overlap")
                done = True
                break
        if done:
            break
    byid = {e[0]: e for e in ents}
    for e in ents:
        if e[1] in byid and e[1] != e[0] and e[3] > 0:
            r = byid[e[1]]
            if not (r[2] <= e[2] and e[2] + e[3] <= r[2] + r[3]):
                flags.append("slice-outside-root")
                break
    return flags


def accounting_flags(st, prev_reserved):
    """C04: reserved == union of the rounded live ranges, num == live, size >= reserved,
    nothing live -> 0, resize below reserved must fail (and only then)"""
    flags = []
    if st["reserved"] != union_measure(st["ents"], st["a"]):
        flags.append("reserved!=union")
    if st["num"] != len(st["ents"]):
        flags.append("num")
    if st["size"] < st["reserved"]:
        flags.append("size<reserved")
    if not st["ents"] and st["reserved"] != 0:
        flags.append("not-zero")
    tok = st["tok"]
    if tok.startswith("z:"):
        b = int(tok[2:])
        want = "ERR" if b < prev_reserved else "ok"
        if st["tag"] != want:
            flags.append("resize-rule")
    return flags


def view_C03(line):
    """implementation observation -> what the C03 specification line must equal"""
    steps = parse_obs(line)
    out = []
    for raw, st in steps:
        if st is None:
            out.append(raw)          # CRASH ... / OOB
            continue
        tag = "?" if st["tok"].startswith("z:") else st["tag"]
        ents = sorted(st["ents"])
        s = "%s %s %d [%s]" % (st["tok"], tag, len(ents), " ".join("%d:%d:%s" % (e[0], e[3], e[4]) for e in ents))
        fl = placement_flags(st)
        if fl:
            s += " !" + ",".join(fl)
        out.append(s)
    return "R " + STEP_SEP.join(out)


def view_C04(line):
    steps = parse_obs(line)
    out = []
    prev = 0
    for raw, st in steps:
        if st is None:
            out.append(raw)
            continue
        tag = "?" if st["tok"].startswith("z:") else st["tag"]
        s = "%s %s %d" % (st["tok"], tag, len(st["ents"]))
        fl = accounting_flags(st, prev)
        if fl:
            s += " !" + ",".join(fl)
        out.append(s)
        prev = st["reserved"]
    return "R " + STEP_SEP.join(out)


def spec_C04(sline):
    """specification line restricted to what C04 speaks about: token, tag, number of live handles"""
    body = sline[2:]
    out = []
    for part in body.split(STEP_SEP):
        m = re.match(r"^(\S+) (\S+) (\d+) \[", part.strip())
        out.append("%s %s %s" % (m.group(1), m.group(2), m.group(3)) if m else part)
    return "S " + STEP_SEP.join(out)


# ------------------------------------------------------------------------------ generator
ALIGNS = [128, 16, 256, 64, 20, 100, 1, 128, 32]


def gen_case(rng, nops, aim=None):
    """A history of pool operations.  `aim` selects one of the targeted shapes:
       frag   : equal reservations, release every other one, then a request that fits the free
                total but no hole (reserved + aligned == size among them)
       orphan : slices at unaligned offsets whose parent is released, then growth/packing
       align  : alignment changes 128 -> 16 -> 256 in the middle
       None   : free mix"""
    toks = []
    live = {}
    nid = [0]
    a = [128]

    def new_id():
        nid[0] += 1
        return nid[0]

    def reserve(n):
        i = new_id()
        toks.append("r%d:%d" % (i, n))
        if n > 0:
            live[i] = n
        return i

    def slice_(p, off, cnt):
        i = new_id()
        toks.append("s%d:%d:%d:%d" % (i, p, off, cnt))
        sz = live[p]
        b = sz - off if cnt == -1 else cnt
        if 0 <= off and b >= 0 and off + cnt <= sz:
            live[i] = b
        return i

    def free(i):
        toks.append("f%d" % i)
        live.pop(i, None)

    def size_near_multiple():
        k = rng.randint(1, 3)
        return max(1, a[0] * k + rng.choice([0, 0, 0, -1, 1, -a[0] // 2, 5, -7]))

    def random_op():
        x = rng.random()
        if x < 0.30 or not live:
            y = rng.random()
            reserve(size_near_multiple() if y < 0.8 else rng.randint(1, 40))
        elif x < 0.47:
            p = rng.choice(list(live))
            sz = live[p]
            off = rng.randint(0, sz)
            y = rng.random()
            if y < 0.1:
                cnt = -1
            elif y < 0.2:
                cnt = 0
            else:
                cnt = rng.randint(0, sz - off)
            if rng.random() < 0.04:
                off = -rng.randint(1, 20)       # must be refused (memory::slice)
            slice_(p, off, cnt)
        elif x < 0.70:
            free(rng.choice(list(live)))
        elif x < 0.78:
            p = rng.choice(list(live))
            sz = live[p]
            off = rng.randint(0, sz)
            cnt = rng.randint(0, sz - off)
            if rng.random() < 0.05:
                cnt = sz - off + 1       # must be refused
            toks.append("w%d:%d:%d:%d" % (p, off, cnt, rng.randint(0, 99)))
        elif x < 0.85:
            base = rng.choice([0, 128, 256, 384, 512, 640, 1024, 100, 300])
            toks.append("z:%d" % max(0, base + rng.choice([0, 0, 0, 1, -1, 7])))
        elif x < 0.91:
            toks.append("k")
        else:
            a[0] = rng.choice(ALIGNS)
            toks.append("a:%d" % a[0])

    if aim == "frag":
        n = rng.randint(3, 6)
        unit = a[0] * rng.randint(1, 2) + rng.choice([0, 0, -3])
        ids = [reserve(unit) for _ in range(n)]
        for i in ids[rng.randint(0, 1)::2]:
            free(i)
        if rng.random() < 0.3:
            free(ids[1]) if ids[1] in live else None
        freed = n - len([i for i in ids if i in live])
        reserve(a[0] * max(1, freed * ((unit + a[0] - 1) // a[0]) + rng.choice([0, 0, -1, 1])) + rng.choice([0, 0, -5]))
        for _ in range(max(0, nops - len(toks))):
            random_op()
    elif aim == "orphan":
        p = reserve(a[0] * rng.randint(1, 4))
        kids = []
        for _ in range(rng.randint(1, 4)):
            sz = live[p]
            off = rng.randint(0, sz - 1)
            kids.append(slice_(p, off, rng.randint(0, min(40, sz - off))))
        if rng.random() < 0.5:
            reserve(size_near_multiple())
        free(p)
        y = rng.random()
        if y < 0.3:
            toks.append("k")
        elif y < 0.6:
            reserve(size_near_multiple())
        elif y < 0.8:
            toks.append("a:%d" % rng.choice(ALIGNS))
        for _ in range(max(0, nops - len(toks))):
            random_op()
        for k in kids:
            if k in live and rng.random() < 0.7:
                free(k)
    elif aim == "align":
        for _ in range(rng.randint(1, 4)):
            random_op()
        for al in (16, 256):
            a[0] = al
            toks.append("a:%d" % al)
            for _ in range(rng.randint(1, 4)):
                random_op()
        for _ in range(max(0, nops - len(toks))):
            random_op()
    else:
        for _ in range(nops):
            random_op()
    if rng.random() < 0.35:
        # release everything: reserved() must be back at 0
        for i in list(live):
            free(i)
        if rng.random() < 0.5:
            toks.append("k")
    return " ".join(toks)


def gen_cases(rng, n, tier):
    cases = []
    hi = 16 if tier == "quick" else 28
    for k in range(n):
        aim = (None, "frag", "orphan", "align", None)[k % 5]
        cases.append(gen_case(rng, rng.randint(3, hi), aim))
    return cases


def nontrivial(case):
    t = case.split()
    return sum(1 for x in t if x[0] == "r") >= 2 and any(x[0] in "fzka" for x in t)


# hand-written histories that every run starts with (the defects seen at design time)
SEED_CASES = [
    "r1:128 r2:128 r3:128 f1 f3 r4:256",
    "r1:512 s2:1:130:10 f1 f2",
    "r1:128 s2:1:0:10 s3:1:20:10 f1 r4:128",
    "r1:128 s2:1:0:10 s3:1:20:10 f1 z:256 k",
    "r1:100 f1 a:256 r2:100",
    "r1:40 r2:40 a:16 r3:8 f1 a:256 r4:300 k f2 f3 f4 k",
    "r1:256 s2:1:100:30 s3:2:5:10 w3:0:10:7 f1 r4:64 z:1024 k a:64 w2:0:30:9 f2 f3 f4",
]
