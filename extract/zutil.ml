(* Shared helpers prepended (after `open Model`) to every extract/<prop>/driver.ml:
   conversions between OCaml ints/strings and the extracted inductive Z/N/positive/nat. *)
let rec pos_of_int (i : int) : positive =
  if i = 1 then XH else if i land 1 = 0 then XO (pos_of_int (i lsr 1)) else XI (pos_of_int (i lsr 1))
let z_of_int (i : int) : z = if i = 0 then Z0 else if i > 0 then Zpos (pos_of_int i) else Zneg (pos_of_int (-i))
let rec int_of_pos (p : positive) : int = match p with XH -> 1 | XO q -> 2 * int_of_pos q | XI q -> 2 * int_of_pos q + 1
let int_of_z (x : z) : int = match x with Z0 -> 0 | Zpos p -> int_of_pos p | Zneg p -> - (int_of_pos p)
let rec nat_of_int (i : int) : nat = if i <= 0 then O else S (nat_of_int (i - 1))
let rec int_of_nat (n : nat) : int = match n with O -> 0 | S m -> 1 + int_of_nat m
(* arbitrary precision decimal <-> Z via strings (values may exceed 63 bits) *)
let z_of_string (s : string) : z =
  let neg = String.length s > 0 && s.[0] = '-' in
  let s' = if neg then String.sub s 1 (String.length s - 1) else s in
  (* repeated multiply by 10 using Z ops built from int pieces would need Model's arithmetic;
     drivers that need >62 bits pass hex limbs instead.  Here: fits-in-int fast path. *)
  let v = int_of_string s' in
  z_of_int (if neg then -v else v)
let string_of_z (x : z) : string = string_of_int (int_of_z x)
let hex_digit c = match c with
  | '0'..'9' -> Char.code c - 48 | 'a'..'f' -> Char.code c - 87 | 'A'..'F' -> Char.code c - 55
  | _ -> failwith "hex"
(* "616263" -> [97;98;99] *)
let bytes_of_hex (s : string) : int list =
  let n = String.length s / 2 in
  List.init n (fun i -> 16 * hex_digit s.[2*i] + hex_digit s.[2*i+1])
let hex_of_bytes (l : int list) : string = String.concat "" (List.map (fun b -> Printf.sprintf "%02x" (b land 255)) l)
let split_on c s = String.split_on_char c s |> List.filter (fun x -> x <> "")
let signed_char (b : int) : int = if b >= 128 then b - 256 else b
