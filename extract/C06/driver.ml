(* C06 model driver: one case per line (syntax: drivers/C06.cpp), prints
     R EQ | R NE             the model's verdict on the two keys, with the key composition generated from
                             the C++ text of the current tree (C06_VARIANT=pinned|fixed selects the two
                             reference shapes of Model.v instead)
     S IDENT | SAME | DIFF   the specification: identical configurations / same effective sub-record /
                             different effective sub-records.
   A configuration is what device::kernelProperties(props) yields: the kernel properties from occa::settings()
   (g tokens), overridden by the device's (d tokens), then "mode" (initialObjectProps), overridden by the build's
   properties (A/1/2 tokens).  Cases keep object-valued properties at one level per configuration, so overriding a
   whole value is what json operator+ does.  JSON values are
   parsed here (objects: keys sorted bytewise, last binding of a key wins, as std::map does). *)
let explode s = List.init (String.length s) (String.get s)

let decode s =
  let b = Buffer.create (String.length s) in
  let n = String.length s in
  let i = ref 0 in
  while !i < n do
    if s.[!i] = '%' && !i + 2 < n then begin
      Buffer.add_char b (Char.chr (int_of_string ("0x" ^ String.sub s (!i + 1) 2)));
      i := !i + 3
    end else begin
      Buffer.add_char b s.[!i];
      incr i
    end
  done;
  Buffer.contents b

(* ---- a small JSON reader (the fragment of Model.jv) *)
exception Bad of string

let parse_json (s : string) : jv =
  let n = String.length s in
  let pos = ref 0 in
  let peek () = if !pos < n then s.[!pos] else '\000' in
  let rec ws () = if !pos < n && (s.[!pos] = ' ' || s.[!pos] = '\n' || s.[!pos] = '\t' || s.[!pos] = '\r') then (incr pos; ws ()) in
  let expect c = ws (); if peek () = c then incr pos else raise (Bad (Printf.sprintf "expected %c at %d" c !pos)) in
  let str () =
    expect '"';
    let b = Buffer.create 16 in
    let fin = ref false in
    while not !fin do
      if !pos >= n then raise (Bad "unterminated string");
      let c = s.[!pos] in
      incr pos;
      if c = '"' then fin := true
      else if c = '\\' then begin
        let d = s.[!pos] in
        incr pos;
        Buffer.add_char b (match d with 'n' -> '\n' | 't' -> '\t' | 'r' -> '\r' | 'b' -> '\b' | 'f' -> '\012' | x -> x)
      end else Buffer.add_char b c
    done;
    Buffer.contents b in
  let rec value () : jv =
    ws ();
    match peek () with
    | '"' -> JStr (explode (str ()))
    | '{' ->
      incr pos; ws ();
      if peek () = '}' then (incr pos; JObj [])
      else begin
        let items = ref [] in
        let go = ref true in
        while !go do
          ws ();
          let k = str () in
          expect ':';
          let v = value () in
          items := (k, v) :: List.filter (fun (k', _) -> k' <> k) !items;
          ws ();
          if peek () = ',' then incr pos else (expect '}'; go := false)
        done;
        JObj (List.map (fun (k, v) -> (explode k, v)) (List.sort (fun (a, _) (b, _) -> compare a b) !items))
      end
    | '[' ->
      incr pos; ws ();
      if peek () = ']' then (incr pos; JArr [])
      else begin
        let items = ref [] in
        let go = ref true in
        while !go do
          let v = value () in
          items := v :: !items;
          ws ();
          if peek () = ',' then incr pos else (expect ']'; go := false)
        done;
        JArr (List.rev !items)
      end
    | 't' -> pos := !pos + 4; JBool true
    | 'f' -> pos := !pos + 5; JBool false
    | 'n' -> pos := !pos + 4; JNull
    | _ ->
      let st = !pos in
      while !pos < n && (match s.[!pos] with '0'..'9' | '-' | '+' -> true | _ -> false) do incr pos done;
      if !pos = st then raise (Bad (Printf.sprintf "value expected at %d" st));
      JInt (z_of_int (int_of_string (String.sub s st (!pos - st)))) in
  let v = value () in
  ws ();
  if !pos <> n then raise (Bad "trailing text");
  v

let shape =
  match Sys.getenv_opt "C06_VARIANT" with
  | Some "pinned" -> pinned_shape gen_version
  | Some "fixed" -> fixed_shape gen_version
  | _ -> gen_shape

let set_prop (props : (string * jv) list ref) (path : string) (v : jv) =
  props := (path, v) :: List.filter (fun (p, _) -> p <> path) !props

let () =
  try
    while true do
      let line = input_line stdin in
      let toks = split_on ' ' line in
      (try
        match toks with
        | m1 :: m2 :: rest ->
          let mode_of m = if m.[0] = 'O' then OpenMP else Serial in
          let name_of m = if m.[0] = 'O' then "OpenMP" else "Serial" in
          let p1 = ref [] and p2 = ref [] in
          (* layers in increasing precedence: settings, device, mode, build *)
          let layer (c : char) =
            List.iter (fun t ->
              if String.length t >= 4 && t.[0] = c && (t.[1] = '1' || t.[1] = '2' || t.[1] = 'A') then
                match String.index_opt t '=' with
                | Some e when e >= 2 ->
                  let path = String.sub t 2 (e - 2) in
                  let v = parse_json (decode (String.sub t (e + 1) (String.length t - e - 1))) in
                  if t.[1] = 'A' || t.[1] = '1' then set_prop p1 path v;
                  if t.[1] = 'A' || t.[1] = '2' then set_prop p2 path v
                | _ -> ()) rest in
          layer 'g'; layer 'd';
          set_prop p1 "mode" (JStr (explode (name_of m1))); set_prop p2 "mode" (JStr (explode (name_of m2)));
          let s1 = ref "k0" and s2 = ref "k0" in
          let paths = ref [] in
          List.iter (fun t ->
            if String.length t >= 3 then begin
              if t.[0] = 'x' && t.[2] = '=' then begin
                let v = decode (String.sub t 3 (String.length t - 3)) in
                if t.[1] = '1' || t.[1] = 'A' then s1 := v;
                if t.[1] = '2' || t.[1] = 'A' then s2 := v
              end else if t.[0] = 'd' || t.[0] = 'g' then begin
                match String.index_opt t '=' with
                | Some e when e >= 2 ->
                  let path = String.sub t 2 (e - 2) in
                  if not (List.mem path !paths) then paths := path :: !paths
                | _ -> ()
              end else match String.index_opt t '=' with
                | Some e when e >= 1 ->
                  let path = String.sub t 1 (e - 1) in
                  let v = parse_json (decode (String.sub t (e + 1) (String.length t - e - 1))) in
                  if not (List.mem path !paths) then paths := path :: !paths;
                  if t.[0] = 'A' || t.[0] = '1' then set_prop p1 path v;
                  if t.[0] = 'A' || t.[0] = '2' then set_prop p2 path v
                | _ -> ()
            end) rest;
          let mk m s p = { c_mode = mode_of m; c_source = explode s; c_props = List.map (fun (k, v) -> (explode k, v)) p } in
          let c1 = mk m1 !s1 !p1 and c2 = mk m2 !s2 !p2 in
          Printf.printf "R %s\n" (if keys_equal shape c1 c2 then "EQ" else "NE");
          let all_paths = List.map explode ("mode" :: !paths) in
          let ident = same_on all_paths c1 c2 in
          Printf.printf "S %s\n%!" (if ident then "IDENT" else if effective_eqb c1 c2 then "SAME" else "DIFF")
        | _ -> Printf.printf "R BAD\nS BAD\n%!"
      with Bad w | Failure w -> Printf.printf "R BAD %s\nS BAD\n%!" w
         | Invalid_argument w -> Printf.printf "R BAD %s\nS BAD\n%!" w)
    done
  with End_of_file -> ()
