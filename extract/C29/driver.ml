(* C29 model driver: one case per stdin line, prints "R <observations>" (extracted Model.run
   with cfg_fixed, or cfg_pinned when C29_PINNED=1) and "S <requirements>" (extracted
   Spec.s_run, `*` = no requirement).

   Case syntax: operations separated by spaces, fields of an operation by commas.
     literals  b:0|1 i8:<dec> u8: i16: u16: i32: u32: i64: u64: f32:<8 hex> f64:<16 hex>
               s:<hex bytes> null undef dflt p0 p1 st:<hex bytes>        value: literal | h<slot>
     C,<lit>  A,<c|uc|s|us|i|ui|l|ul>,<dec>  P,<lit>  Q,<kind>,<lit>  T,<kind>,<lit>  K,<lit>
     KR<mode>,<lit>,...                  run the echo kernel (mode 0 push, 1 runN, 2 runWithArgs)
     SD<c|a>,<lit>                       occaScopeAddConst / occaScopeAdd: the declaration in the inlined kernel
     SC<c|a>,<lit>,...                   ... and what an inlined (JIT) kernel reads (shapes: b,i8,i16,i32,i64,f32,f64 / u8,u16,u32,u64)
     n,N  f,N  u,N  v,N
     os,N,<hexkey>,<value>   og,N,<hexkey>,M,<lit default>   oh,N,<hexkey>
     ap,N,<value>  ai,N,<idx>,<value>  ag,N,<idx>,M  ao,N  ac,N  az,N
     ct,N,<b|n|s|a|o>  gb,N  gn,N,<kind>  gs,N  ty,N
   Float conversions of the model's `fops` record are instantiated with OCaml's IEEE doubles and
   Int32.bits_of_float/float_of_bits (trusted base of the correspondence, not of the theorems). *)

(* ---- 64-bit helpers (zutil's z_of_int is 63-bit) ---- *)
let rec pos_of_u64 (x : int64) : positive =
  (* x <> 0, read as unsigned *)
  if Int64.equal x 1L then XH
  else
    let half = Int64.shift_right_logical x 1 in
    if Int64.equal (Int64.logand x 1L) 0L then XO (pos_of_u64 half) else XI (pos_of_u64 half)
let z_of_u64 (x : int64) : z = if Int64.equal x 0L then Z0 else Zpos (pos_of_u64 x)
let z_of_s64 (x : int64) : z =
  if Int64.equal x 0L then Z0
  else if Int64.compare x 0L > 0 then Zpos (pos_of_u64 x)
  else Zneg (pos_of_u64 (Int64.neg x))   (* neg min_int = min_int = 2^63 read unsigned *)
let rec u64_of_pos (p : positive) : int64 =
  match p with
  | XH -> 1L
  | XO q -> Int64.shift_left (u64_of_pos q) 1
  | XI q -> Int64.logor (Int64.shift_left (u64_of_pos q) 1) 1L
(* two's complement low 64 bits *)
let u64_of_z (x : z) : int64 =
  match x with Z0 -> 0L | Zpos p -> u64_of_pos p | Zneg p -> Int64.neg (u64_of_pos p)
let dec_of_z (x : z) : string =
  match x with
  | Z0 -> "0"
  | Zpos p -> Printf.sprintf "%Lu" (u64_of_pos p)
  | Zneg p -> "-" ^ Printf.sprintf "%Lu" (u64_of_pos p)
let z_of_dec (s : string) : z =
  if String.length s > 0 && s.[0] = '-' then
    (match z_of_u64 (Int64.of_string ("0u" ^ String.sub s 1 (String.length s - 1))) with
     | Z0 -> Z0 | Zpos p -> Zneg p | x -> x)
  else z_of_u64 (Int64.of_string ("0u" ^ s))
let z_of_hex (s : string) : z = z_of_u64 (Int64.of_string ("0x" ^ (if s = "" then "0" else s)))

(* ---- the float interface ---- *)
let two63 = 9223372036854775808.0
let float_of_zint (x : z) : float =
  (* correctly rounded (double) of an integer in [-2^63, 2^64) *)
  match x with
  | Z0 -> 0.0
  | Zneg _ -> Int64.to_float (u64_of_z x)
  | Zpos p ->
    let u = u64_of_pos p in
    if Int64.compare u 0L >= 0 then Int64.to_float u
    else
      let h = Int64.logor (Int64.shift_right_logical u 1) (Int64.logand u 1L) in
      2.0 *. Int64.to_float h
let int_of_float_z (x : float) : z option =
  if Float.is_nan x || Float.abs x = Float.infinity then None
  else
    let t = Float.trunc x in
    if t >= -. two63 && t < two63 then Some (z_of_s64 (Int64.of_float t))
    else if t >= two63 && t < 2.0 *. two63 then
      Some (z_of_u64 (Int64.logor (Int64.of_float (t -. two63)) Int64.min_int))
    else Some (Zpos (XO (pos_of_u64 Int64.min_int)))   (* 2^64: outside every integer range *)
let f32_bits (x : float) : z = z_of_u64 (Int64.logand (Int64.of_int32 (Int32.bits_of_float x)) 0xFFFFFFFFL)
let f32_val (b : z) : float = Int32.float_of_bits (Int64.to_int32 (u64_of_z b))
let f64_bits (x : float) : z = z_of_u64 (Int64.bits_of_float x)
let f64_val (b : z) : float = Int64.float_of_bits (u64_of_z b)
let the_fops : fops = {
  f32_of_f64 = (fun b -> f32_bits (f64_val b));
  f64_of_f32 = (fun b -> f64_bits (f32_val b));
  f32_of_int = (fun v -> f32_bits (float_of_zint v));   (* exact for |v| < 2^53, which is what the generator sends *)
  f64_of_int = (fun v -> f64_bits (float_of_zint v));
  f32_to_int = (fun b -> int_of_float_z (f32_val b));
  f64_to_int = (fun b -> int_of_float_z (f64_val b)) }

(* ---- parsing ---- *)
let kind_of_name s = match s with
  | "b" -> KBool | "i8" -> KI8 | "u8" -> KU8 | "i16" -> KI16 | "u16" -> KU16 | "i32" -> KI32
  | "u32" -> KU32 | "i64" -> KI64 | "u64" -> KU64 | "f32" -> KF32 | "f64" -> KF64
  | _ -> failwith ("kind " ^ s)
let zbytes_of_hex h = List.map z_of_int (bytes_of_hex h)
let parse_lit (s : string) : lit =
  match s with
  | "null" -> LNull | "undef" -> LUndef | "dflt" -> LDefault | "p0" -> LPtr false | "p1" -> LPtr true
  | _ ->
    let i = String.index s ':' in
    let h = String.sub s 0 i and b = String.sub s (i + 1) (String.length s - i - 1) in
    (match h with
     | "s" -> LStr (zbytes_of_hex b)
     | "st" -> LStruct (zbytes_of_hex b)
     | "f32" | "f64" -> LScalar (kind_of_name h, z_of_hex b)
     | _ -> LScalar (kind_of_name h, z_of_dec b))
let parse_val (s : string) : vtok =
  if String.length s > 1 && s.[0] = 'h' && s.[1] >= '0' && s.[1] <= '9'
  then VSlot (nat_of_int (int_of_string (String.sub s 1 (String.length s - 1))))
  else VLit (parse_lit s)
let nat_s s = nat_of_int (int_of_string s)
let ctype_of s = match s with
  | "c" -> CtChar | "uc" -> CtUChar | "s" -> CtShort | "us" -> CtUShort | "i" -> CtInt | "ui" -> CtUInt
  | "l" -> CtLong | "ul" -> CtULong | _ -> failwith "ctype"
let cast_of s = match s with
  | "b" -> CBool | "n" -> CNum | "s" -> CStr | "a" -> CArr | "o" -> CObj | _ -> failwith "cast"
let parse_op (tok : string) : op =
  match String.split_on_char ',' tok with
  | ["C"; l] -> OpC (parse_lit l)
  | ["A"; c; v] -> OpAmb (ctype_of c, z_of_dec v)
  | ["P"; l] -> OpP (parse_lit l)
  | ["Q"; k; l] -> OpQ (kind_of_name k, parse_lit l)
  | ["T"; k; l] -> OpT (kind_of_name k, parse_lit l)
  | ["K"; l] -> OpK (parse_lit l)
  | kr :: args when String.length kr = 3 && String.sub kr 0 2 = "KR" -> OpKRun (List.map parse_lit args)
  | ["SDc"; l] -> OpScopeDecl (true, parse_lit l)
  | ["SDa"; l] -> OpScopeDecl (false, parse_lit l)
  | "SCc" :: args -> OpScopeRun (true, List.map parse_lit args)
  | "SCa" :: args -> OpScopeRun (false, List.map parse_lit args)
  | ["n"; n] -> OpNew (nat_s n)
  | ["f"; n] -> OpFree (nat_s n)
  | ["u"; n] -> OpIsUndef (nat_s n)
  | ["v"; n] -> OpView (nat_s n)
  | ["os"; n; k; v] -> OpOSet (nat_s n, zbytes_of_hex k, parse_val v)
  | ["og"; n; k; m; d] -> OpOGet (nat_s n, zbytes_of_hex k, nat_s m, parse_lit d)
  | ["oh"; n; k] -> OpOHas (nat_s n, zbytes_of_hex k)
  | ["ap"; n; v] -> OpAPush (nat_s n, parse_val v)
  | ["ai"; n; i; v] -> OpAIns (nat_s n, z_of_dec i, parse_val v)
  | ["ag"; n; i; m] -> OpAGet (nat_s n, z_of_dec i, nat_s m)
  | ["ao"; n] -> OpAPop (nat_s n)
  | ["ac"; n] -> OpAClear (nat_s n)
  | ["az"; n] -> OpASize (nat_s n)
  | ["ct"; n; c] -> OpCast (nat_s n, cast_of c)
  | ["gb"; n] -> OpGetB (nat_s n)
  | ["gn"; n; k] -> OpGetN (nat_s n, kind_of_name k)
  | ["gs"; n] -> OpGetS (nat_s n)
  | ["ty"; n] -> OpTy (nat_s n)
  | _ -> failwith ("bad op " ^ tok)

(* ---- printing ---- *)
let kind_name k = match k with
  | KBool -> "bool" | KI8 -> "int8" | KU8 -> "uint8" | KI16 -> "int16" | KU16 -> "uint16"
  | KI32 -> "int32" | KU32 -> "uint32" | KI64 -> "int64" | KU64 -> "uint64" | KF32 -> "float" | KF64 -> "double"
let hex_of_zbytes l = hex_of_bytes (List.map int_of_z l)
let val_str k v = match k with
  | KF32 -> Printf.sprintf "%08Lx" (u64_of_z v)
  | KF64 -> Printf.sprintf "%016Lx" (u64_of_z v)
  | _ -> dec_of_z v
let b01 b = if b then "1" else "0"
let payload_str k p = match p with
  | PNull -> "null" | PUser -> "user" | PBytes _ -> "buf" | PRef _ -> "ref"
  | PInt v -> (match k with Some kk -> val_str kk v | None -> dec_of_z v)
let otype_str (o : otype) : string =
  if not o.o_magic then "undefined" else
  match o.o_tag with
  | TK k -> Printf.sprintf "%s:%s:%s:%s" (kind_name k) (dec_of_z o.o_bytes) (b01 o.o_free)
              (match o.o_val with PInt v -> val_str k v | _ -> "?")
  | TDefault -> "default"
  | TNull -> "null"
  | TPtr -> Printf.sprintf "ptr:%s:%s:%s" (dec_of_z o.o_bytes) (b01 o.o_free)
              (match o.o_val with PNull -> "null" | _ -> "nonnull")
  | TString -> Printf.sprintf "string:%s:%s:%s" (dec_of_z o.o_bytes) (b01 o.o_free)
                 (match o.o_val with PBytes s -> hex_of_zbytes s | _ -> "?")
  | TStruct -> Printf.sprintf "struct:%s:%s:%s" (dec_of_z o.o_bytes) (b01 o.o_free)
                 (match o.o_val with PBytes s -> hex_of_zbytes s | _ -> "?")
  | TJson -> Printf.sprintf "json:%s:%s" (dec_of_z o.o_bytes) (b01 o.o_free)
  | t -> "tag" ^ dec_of_z (tag_code t)
let rec obs_str (o : obs) : string =
  match o with
  | OType t -> otype_str t
  | OKArg a ->
    let pt, k = (match a.ka_pt with PTNone -> "none", None | PTPtr -> "ptr", None | PTK k -> kind_name k, Some k) in
    Printf.sprintf "karg:%s:%s:%s:%s" pt (payload_str k a.ka_val) (dec_of_z (ka_size a)) (b01 (ka_isPointer a))
  | ODecl (ic, c, ip) ->
    let cn = (match c with
      | CNBool -> "bool" | CNChar -> "char" | CNUChar -> "uchar" | CNShort -> "short" | CNUShort -> "ushort"
      | CNInt -> "int" | CNUInt -> "uint" | CNLong -> "long" | CNULong -> "ulong" | CNFloat -> "float"
      | CNDouble -> "double" | CNVoid -> "void") in
    Printf.sprintf "decl:%s:%s:%s" (b01 ic) cn (b01 ip)
  | OList l -> "[" ^ String.concat "|" (List.map obs_str l) ^ "]"
  | OBool b -> if b then "true" else "false"
  | OInt z -> dec_of_z z
  | OBytes s -> "x" ^ hex_of_zbytes s
  | OFlags (a, b, c, d, e) -> "flags:" ^ b01 a ^ b01 b ^ b01 c ^ b01 d ^ b01 e
  | ONot -> "not" | OUnit -> "ok" | OErr -> "ERR" | OUB -> "UB" | OUndef -> "UNDEF"
  | OInvalid -> "INVALID" | OOut -> "OUT"
let req_str r = match r with Any -> "*" | Must o -> obs_str o

let () =
  let cf = (match Sys.getenv_opt "C29_PINNED" with Some "1" -> cfg_pinned | _ -> cfg_fixed) in
  try
    while true do
      let line = input_line stdin in
      let ops = List.map parse_op (split_on ' ' line) in
      let r = run the_fops cf ops in
      let s = s_run ops in
      print_string ("R " ^ String.concat ";" (List.map obs_str r) ^ "\n");
      print_string ("S " ^ String.concat ";" (List.map req_str s) ^ "\n")
    done
  with End_of_file -> ()
