(* C30 model driver: the same cases as drivers/C30.cpp (see there for the syntax), run on the
   extracted interleaving model (R lines) and on the reference semantics (S lines).
   The code variant the model describes comes from C30_VARIANT = "<test><bytes><multi>" (1 = the
   fixed code), as detected in the source tree by props/C30.py. *)
let nv = 8
let maxt = 16

let variant =
  let s = try Sys.getenv "C30_VARIANT" with Not_found -> "111" in
  let b i = String.length s > i && s.[i] = '1' in
  { v_test = b 0; v_bytes = b 1; v_multi = b 2 }

let var v = ((v mod nv) + nv) mod nv
let n2i = int_of_nat
let i2n = nat_of_int

let parse_ops n toks =
  let progs = Array.make n [] in
  let sched = ref [] in
  let iters = ref 1 in
  List.iter (fun tk ->
    let len = String.length tk in
    if len >= 2 && tk.[0] = 's' && tk.[1] >= '0' && tk.[1] <= '9' then
      sched := (try int_of_string (String.sub tk 1 (len - 1)) with _ -> 0) :: !sched
    else if len >= 2 && tk.[0] = 'i' then
      iters := (try max 1 (int_of_string (String.sub tk 1 (len - 1))) with _ -> 1)
    else if len >= 2 && tk.[0] = 't' then begin
      match String.index_opt tk ':' with
      | None -> ()
      | Some c when c + 1 >= len -> ()
      | Some c ->
        let t = (try int_of_string (String.sub tk 1 (c - 1)) with _ -> -1) in
        if t >= 0 && t < n then begin
          let k = tk.[c + 1] in
          let nums = List.map (fun x -> try int_of_string x with _ -> 0)
              (List.filter (fun x -> x <> "") (String.split_on_char ':' (String.sub tk (c + 2) (len - c - 2)))) in
          let add o = progs.(t) <- o :: progs.(t) in
          match k, nums with
          | 'M', a :: sz :: _ -> add (OMalloc (i2n (var a), z_of_int sz))
          | 'C', a :: b :: _ -> add (OCopy (i2n (var a), i2n (var b)))
          | 'L', a :: b :: _ -> add (OSlice (i2n (var a), i2n (var b)))
          | 'S', a :: t' :: b :: _ -> if t' >= 0 && t' < n then add (OSend (i2n (var a), i2n t', i2n (var b)))
          | 'D', a :: _ -> add (ODrop (i2n (var a)))
          | _ -> ()
        end
    end) toks;
  (Array.to_list (Array.map List.rev progs), List.rev !sched, !iters)

let tuple (s : st) =
  Printf.sprintf "%d,%d,%d,%d,%d" (n2i (obs_created_m s)) (n2i (obs_destroyed_m s))
    (n2i (obs_created_b s)) (n2i (obs_destroyed_b s)) (int_of_z s.bytes)

let thread_at c t = nth_error c.thr (i2n t)

let run_x n toks =
  let progs, sched, _ = parse_ops n toks in
  let c = ref (mk_sys progs) in
  let sp = ref sp_init in
  let trace = Buffer.create 256 in
  let entry t =
    (match thread_at !c t with
     | Some th when not (finished th) ->
       (match th.cur, th.prog with
        | PIdle, o :: _ -> sp := sp_step (i2n t) o !sp
        | _ -> ());
       c := seg_step variant !c (i2n t)
     | _ -> ());
    if Buffer.length trace > 0 then Buffer.add_char trace ';';
    Buffer.add_string trace (tuple !c.heap) in
  List.iter entry sched;
  let continue = ref true in
  let guard = ref 0 in
  while !continue && !guard < 100000 do
    continue := false;
    for t = 0 to n - 1 do
      match thread_at !c t with
      | Some th when not (finished th) -> continue := true; incr guard; entry t
      | _ -> ()
    done
  done;
  let s = !c.heap in
  Printf.printf "R m=%d/%d b=%d/%d bytes=%d bad=%d | %s\n"
    (n2i (obs_created_m s)) (n2i (obs_destroyed_m s)) (n2i (obs_created_b s)) (n2i (obs_destroyed_b s))
    (int_of_z s.bytes) (if s.ub then 1 else 0) (Buffer.contents trace);
  let p = !sp in
  Printf.printf "S m=%d/%d b=%d/%d bytes=%d bad=0\n"
    (n2i p.s_nm) (n2i p.s_mdes) (n2i p.s_nb) (n2i p.s_bdes) (int_of_z p.s_bytes)

let run_round_robin c n =
  let continue = ref true in
  let guard = ref 0 in
  while !continue && !guard < 1000000 do
    continue := false;
    for t = 0 to n - 1 do
      match thread_at !c t with
      | Some th when not (finished th) -> continue := true; incr guard; c := sys_step variant !c (i2n t)
      | _ -> ()
    done
  done

let run_z n toks =
  let progs, _, _ = parse_ops n toks in
  let c = ref (mk_sys progs) in
  run_round_robin c n;
  let drops = List.init nv (fun v -> ODrop (i2n v)) in
  c := { heap = !c.heap; thr = List.map (fun _ -> { prog = drops; cur = PIdle }) progs };
  run_round_robin c n;
  let s = !c.heap in
  let cm = n2i (obs_created_m s) and dm = n2i (obs_destroyed_m s)
  and cb = n2i (obs_created_b s) and db = n2i (obs_destroyed_b s) and by = int_of_z s.bytes in
  if (not s.ub) && cm = dm && cb = db && by = 0 then print_string "R clean\n"
  else Printf.printf "R DIRTY m=%d/%d b=%d/%d bytes=%d ub=%b\n" cm dm cb db by s.ub;
  print_string "S clean\n"

let run_m toks =
  let calls = List.fold_left (fun acc tk ->
      if String.length tk >= 2 && tk.[0] = 'c' then (try int_of_string (String.sub tk 1 (String.length tk - 1)) with _ -> acc)
      else acc) 1 toks in
  let c = ref (mk_msys [i2n calls]) in
  for _ = 1 to 4 * calls do c := msys_step variant !c O done;
  Printf.printf "R bad=%d\n" (if n2i !c.mxs.bad_unlock > 0 then 1 else 0);
  print_string "S bad=0\n"

let () =
  try
    while true do
      let line = input_line stdin in
      let toks = split_on ' ' line in
      (match toks with
       | [] -> print_string "R EMPTY\nS EMPTY\n"
       | head :: rest ->
         let kind = head.[0] in
         let numpart = String.sub head 1 (String.length head - 1) in
         let numpart = (match String.index_opt numpart '.' with Some i -> String.sub numpart 0 i | None -> numpart) in
         let n = (try int_of_string numpart with _ -> 1) in
         let n = max 1 (min maxt n) in
         (match kind with
          | 'X' -> run_x n rest
          | 'Z' -> run_z n rest
          | 'M' -> run_m toks
          | 'P' -> print_string "R clean\nS clean\n"   (* pools are outside the model: observation-only oracle *)
          | _ -> print_string "R BADCASE\nS BADCASE\n"));
      flush stdout
    done
  with End_of_file -> ()
