(* C12 model driver: same case syntax and observations as drivers/C12.cpp.
     B <hex> ...    R B <toks>|<printed hex>|<toks>          S NOCRASH
     Q tok tok ...  R Q <toks>|<printed hex>                 S Q <toks>   (the tokens themselves, when all good)
     L <hex> ...    R L <toks of //body newline x1>            S L K<//body>,N,I7831
     H <hex> ...    R H <header hex>|<cursor offset>         S NOCRASH
   The model is the *fixed* variant unless the environment variable C12_PINNED is set. *)
let fx = match Sys.getenv_opt "C12_PINNED" with Some _ -> pinned | None -> fixed

let zl_of_hex h = List.map z_of_int (bytes_of_hex h)
let hex_of_zl l = hex_of_bytes (List.map int_of_z l)
let cstring l = (* cut at the first NUL, append the terminator *)
  let rec go = function [] -> [] | c :: r -> if int_of_z c = 0 then [] else c :: go r in
  go l @ [z_of_int 0]

let show_token (t : token) : string =
  match t with
  | TIdent v -> "I" ^ hex_of_zl v
  | TPrim v -> "P" ^ hex_of_zl v
  | TOp o -> "O" ^ hex_of_zl o.op_sym
  | TNewline -> "N"
  | TChar (e, v, u) -> "C" ^ string_of_int (int_of_z e) ^ "." ^ hex_of_zl v ^ "." ^ hex_of_zl u
  | TString (e, v, u) -> "S" ^ string_of_int (int_of_z e) ^ "." ^ hex_of_zl v ^ "." ^ hex_of_zl u
  | TComment v -> "K" ^ hex_of_zl v
  | TUnknown c -> "U" ^ hex_of_zl [c]
let show_tokens ts = String.concat "," (List.map show_token ts)

let show_res (r : token list res) : string =
  match r with
  | Ok ts -> show_tokens ts
  | Oob -> "OOB"
  | NoFuel -> "NOFUEL"

let parse_token (spec : string) : token option =
  let body = String.sub spec 1 (String.length spec - 1) in
  match spec.[0] with
  | 'I' -> Some (TIdent (zl_of_hex body))
  | 'P' -> Some (TPrim (zl_of_hex body))
  | 'O' -> (match find_op (zl_of_hex body) with Some o -> Some (TOp o) | None -> None)
  | 'N' -> Some TNewline
  | 'K' -> Some (TComment (zl_of_hex body))
  | 'U' -> (match zl_of_hex body with c :: _ -> Some (TUnknown c) | [] -> None)
  | 'C' | 'S' ->
    (match String.split_on_char '.' body with
     | [e; v; u] ->
       let e = z_of_int (int_of_string e) in
       if spec.[0] = 'C' then Some (TChar (e, zl_of_hex v, zl_of_hex u))
       else Some (TString (e, zl_of_hex v, zl_of_hex u))
     | _ -> None)
  | _ -> None

let () =
  try
    while true do
      let line = input_line stdin in
      let toks = split_on ' ' line in
      (match toks with
       | "B" :: hs ->
         let h = String.concat "" hs in
         let buf = cstring (zl_of_hex h) in
         (match tokenizeT fx buf with
          | Ok t1 ->
            let printed = printSeq fx t1 in
            let r2 = tokenizeT fx (cstring printed) in
            print_string ("R B " ^ show_tokens t1 ^ "|" ^ hex_of_zl printed ^ "|" ^ show_res r2 ^ "\n")
          | r -> print_string ("R B " ^ show_res r ^ "\n"));
         print_string "S NOCRASH\n"
       | "Q" :: specs ->
         let ts = List.map parse_token specs in
         if List.exists (fun t -> t = None) ts then begin
           print_string "R Q BADTOKEN\n"; print_string "S Q BADTOKEN-IN-CASE\n"
         end else begin
           let ts = List.map (function Some t -> t | None -> assert false) ts in
           let printed = printSeq fx ts in
           let r2 = tokenizeT fx (cstring printed) in
           print_string ("R Q " ^ show_res r2 ^ "|" ^ hex_of_zl printed ^ "\n");
           (match spec_roundtrip tok_ops ts with
            | Some ts' ->
              (* the reference printer must agree with the modelled one on good tokens *)
              let sp = String.concat "20" (List.map (fun t -> hex_of_zl (spec_print t)) ts') in
              print_string ("S Q " ^ show_tokens ts' ^ "|" ^ sp ^ "\n")
            | None ->
              let bad = List.filter (fun t -> not (good tok_ops t)) ts in
              print_string ("S Q NOTGOOD " ^ show_tokens bad ^ "\n"))
         end
       | "L" :: hs ->
         (* a line comment "//" body, a newline, the identifier x1 *)
         let body = zl_of_hex (String.concat "" hs) in
         let src = List.map z_of_int [47; 47] @ body @ List.map z_of_int [10; 120; 49] in
         let r = show_res (tokenizeT fx (cstring src)) in
         print_string ("R L " ^ r ^ "\n");
         if line_ok body then
           print_string ("S L K" ^ hex_of_zl (List.map z_of_int [47; 47] @ body) ^ ",N,I7831\n")
         else print_string ("S L " ^ r ^ "\n")   (* outside the reference shapes: nothing beyond the correspondence *)
       | "H" :: hs ->
         let h = String.concat "" hs in
         let buf = cstring (zl_of_hex h) in
         (match getHeaderT fx buf with
          | Ok (Some v, cur) ->
            print_string ("R H " ^ hex_of_zl v ^ "|" ^ string_of_int (List.length buf - List.length cur) ^ "\n")
          | Ok (None, _) -> print_string "R H CRASH std::logic_error\n"
          | Oob -> print_string "R H OOB\n"
          | NoFuel -> print_string "R H NOFUEL\n");
         print_string "S NOCRASH\n"
       | _ -> print_string "R BADCASE\n"; print_string "S BADCASE-IN-GENERATOR\n")
    done
  with End_of_file -> ()
