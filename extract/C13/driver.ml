(* C13 model driver.  One translation unit per stdin line; source lines are separated by the two
   characters backslash-n.  Prints per case
     R <ids> #E<n> | R UB | R EXC      the model of OCCA's directive state machine + C14's folder
                                        (configuration `pfixed`; `ppinned` when C13_CFG=pinned):
                                        ids of the kept text lines (a text line "L<k> ..." has id k,
                                        any other text line id -1), error count; or how the process dies
     S <ids> | S UNDEF                 the specification (standard group semantics, C++17/intmax conditions)
   Directive lines understood: #define NAME [body] (a body that is one integer literal matters for
   conditions), #define NAME(args) body, #undef NAME, #if/#elif <condition>, #ifdef/#ifndef NAME,
   #else, #endif.  Conditions: integer literals, identifiers, defined(X) / defined X, true/false,
   unary ! + - ~, the C binary operators, ?:, parentheses (C precedence).

   Trusted here: this line classifier and the condition lexer/parser (the same precedence-climbing
   parser as extract/C14/driver.ml plus identifiers), the float instance (conditions with floating
   literals are outside the specification). *)

(* ---------- Z <-> machine integers *)
let rec u64_of_pos (p : positive) : int64 =
  match p with
  | XH -> 1L
  | XO q -> Int64.shift_left (u64_of_pos q) 1
  | XI q -> Int64.logor (Int64.shift_left (u64_of_pos q) 1) 1L
let rec pos_of_u64 (m : int64) : positive =
  if m = 1L then XH
  else
    let q = pos_of_u64 (Int64.shift_right_logical m 1) in
    if Int64.logand m 1L = 0L then XO q else XI q
let z_of_u64 (m : int64) : z = if m = 0L then Z0 else Zpos (pos_of_u64 m)

(* ---------- float interface (as in extract/C14/driver.ml) *)
let r32 (x : float) : float = Int32.float_of_bits (Int32.bits_of_float x)
let fl s x = if s then r32 x else x
let double_of_u64 (m : int64) : float =
  if Int64.compare m 0L >= 0 then Int64.to_float m
  else
    let half = Int64.logor (Int64.shift_right_logical m 1) (Int64.logand m 1L) in
    Int64.to_float half *. 2.0
let sticky_double_of_u64 (m : int64) : float =
  if Int64.compare m 0L >= 0 && Int64.compare m (Int64.shift_left 1L 53) < 0 then Int64.to_float m
  else
    let lo = Int64.logand m 0x7FFL in
    let hi = Int64.shift_right_logical m 11 in
    let hi = if lo <> 0L then Int64.logor hi 1L else hi in
    Int64.to_float hi *. 2048.0
let f_of_z (s : bool) (x : z) : float =
  let mag p = let m = u64_of_pos p in if s then r32 (sticky_double_of_u64 m) else double_of_u64 m in
  match x with Z0 -> 0.0 | Zpos p -> mag p | Zneg p -> -. (mag p)
let fbits_z (s : bool) (x : float) : z =
  if s then z_of_u64 (Int64.logand (Int64.of_int32 (Int32.bits_of_float x)) 0xFFFFFFFFL)
  else z_of_u64 (Int64.bits_of_float x)
let ops : float fops = {
  fadd = (fun s a b -> fl s (a +. b)); fsub = (fun s a b -> fl s (a -. b));
  fmul = (fun s a b -> fl s (a *. b)); fdiv = (fun s a b -> fl s (a /. b));
  fneg = (fun a -> -. a); flt = (fun a b -> a < b); fle = (fun a b -> a <= b); feq = (fun a b -> a = b);
  fnonzero = (fun a -> a <> 0.0); ffinite = (fun a -> Float.is_finite a);
  f_of_Z = f_of_z; f64_of_f32 = (fun a -> a); f32_of_f64 = r32; fbits = fbits_z;
}

(* ---------- names *)
let names : (string, int) Hashtbl.t = Hashtbl.create 64
let name_id (s : string) : z =
  match Hashtbl.find_opt names s with
  | Some i -> z_of_int i
  | None -> let i = Hashtbl.length names + 1 in Hashtbl.add names s i; z_of_int i

(* ---------- lexer *)
type tok = TLit of float lit | TId of string | TOp of string | TBad

let is_digit c = c >= '0' && c <= '9'
let is_alpha c = (c >= 'a' && c <= 'z') || (c >= 'A' && c <= 'Z') || c = '_'
let is_alnum c = is_digit c || is_alpha c
let digit_val c =
  match c with
  | '0'..'9' -> Char.code c - 48
  | 'a'..'f' -> Char.code c - 87
  | 'A'..'F' -> Char.code c - 55
  | _ -> 99

let parse_suffix (s : string) : (bool * int) option =
  let uns = ref 0 and longs = ref 0 and bad = ref false in
  String.iter (fun c -> match c with
    | 'u' | 'U' -> incr uns
    | 'l' | 'L' -> incr longs
    | _ -> bad := true) s;
  if !bad || !uns > 1 || !longs > 2 then None else Some (!uns = 1, !longs)

let split_digits pred s from =
  let n = String.length s in
  let i = ref from in
  while !i < n && pred s.[!i] do incr i done;
  (String.sub s from (!i - from), String.sub s !i (n - !i))

let mk_int_lit b digits suffix : ilit option =
  match parse_suffix suffix with
  | None -> None
  | Some (u, l) ->
    let ds = List.init (String.length digits) (fun i -> z_of_int (digit_val digits.[i])) in
    Some { l_base = b; l_digits = ds; l_uns = u; l_longs = z_of_int l }

let int_lit_of_word (w : string) : ilit option =
  let n = String.length w in
  if n >= 2 && w.[0] = '0' && (w.[1] = 'x' || w.[1] = 'X') then
    let (d, suf) = split_digits (fun c -> digit_val c < 16) w 2 in
    if d = "" then None else mk_int_lit Hex d suf
  else if n >= 2 && w.[0] = '0' && (w.[1] = 'b' || w.[1] = 'B') then
    let (d, suf) = split_digits (fun c -> c = '0' || c = '1') w 2 in
    if d = "" then None else mk_int_lit Bin d suf
  else if String.contains w '.' then None
  else if n >= 1 && w.[0] = '0' then
    let (d, suf) = split_digits is_digit w 1 in mk_int_lit Oct d suf
  else if n >= 1 && is_digit w.[0] then
    let (d, suf) = split_digits is_digit w 0 in mk_int_lit Dec d suf
  else None

let word_tok (w : string) : tok =
  if w = "true" then TLit (LBool true)
  else if w = "false" then TLit (LBool false)
  else if String.length w > 0 && is_alpha w.[0] then TId w
  else match int_lit_of_word w with
    | Some l -> TLit (LInt l)
    | None ->
      (* floating literal: carried so that the model can evaluate it; the specification rejects it *)
      let n = String.length w in
      let s32 = n > 0 && (w.[n-1] = 'f' || w.[n-1] = 'F') in
      let body = if s32 then String.sub w 0 (n - 1) else w in
      (match float_of_string_opt body with
       | Some x when n > 0 && (is_digit w.[0] || w.[0] = '.') -> TLit (LFloat (s32, if s32 then r32 x else x))
       | _ -> TBad)

let ops2 = ["<<"; ">>"; "<="; ">="; "=="; "!="; "&&"; "||"]

let lex (s : string) : tok list =
  let n = String.length s in
  let rec go i acc =
    if i >= n then List.rev acc
    else
      let c = s.[i] in
      if c = ' ' || c = '\t' then go (i + 1) acc
      else if is_alnum c || (c = '.' && i + 1 < n && is_digit s.[i+1]) then begin
        let j = ref i in
        while !j < n && (is_alnum s.[!j] || s.[!j] = '.') do incr j done;
        go !j (word_tok (String.sub s i (!j - i)) :: acc)
      end
      else if i + 1 < n && List.mem (String.sub s i 2) ops2 then go (i + 2) (TOp (String.sub s i 2) :: acc)
      else if String.contains "+-*/%<>&|^~!?:()," c then go (i + 1) (TOp (String.make 1 c) :: acc)
      else go (i + 1) (TBad :: acc)
  in
  go 0 []

(* ---------- condition parser *)
exception Parse_error

let binop_of (s : string) : (binop * int) option =
  match s with
  | "*" -> Some (Mul, 10) | "/" -> Some (Div, 10) | "%" -> Some (Mod, 10)
  | "+" -> Some (Add, 9) | "-" -> Some (Sub, 9)
  | "<<" -> Some (Shl, 8) | ">>" -> Some (Shr, 8)
  | "<" -> Some (Lt0, 7) | "<=" -> Some (Le, 7) | ">" -> Some (Gt0, 7) | ">=" -> Some (Ge, 7)
  | "==" -> Some (Eq0, 6) | "!=" -> Some (Ne, 6)
  | "&" -> Some (BAnd, 5) | "^" -> Some (BXor, 4) | "|" -> Some (BOr, 3)
  | "&&" -> Some (LAnd, 2) | "||" -> Some (LOr, 1)
  | _ -> None

let parse_cond (toks : tok list) : float pexpr =
  let rest = ref toks in
  let peek () = match !rest with t :: _ -> Some t | [] -> None in
  let advance () = match !rest with _ :: r -> rest := r | [] -> raise Parse_error in
  let rec primary () =
    match peek () with
    | Some (TLit l) -> advance (); PLit l
    | Some (TId "defined") ->
      advance ();
      (match peek () with
       | Some (TOp "(") ->
         advance ();
         (match peek () with
          | Some (TId x) ->
            advance ();
            (match peek () with Some (TOp ")") -> advance (); PDefined (name_id x) | _ -> raise Parse_error)
          | _ -> raise Parse_error)
       | Some (TId x) -> advance (); PDefined (name_id x)
       | _ -> raise Parse_error)
    | Some (TId x) -> advance (); PIdent (name_id x)
    | Some (TOp "(") ->
      advance ();
      let e = ternary () in
      (match peek () with Some (TOp ")") -> advance (); e | _ -> raise Parse_error)
    | Some (TOp "!") -> advance (); PUn (UNot, primary ())
    | Some (TOp "+") -> advance (); PUn (UPlus, primary ())
    | Some (TOp "-") -> advance (); PUn (UNeg, primary ())
    | Some (TOp "~") -> advance (); PUn (UTilde, primary ())
    | _ -> raise Parse_error
  and binary (minp : int) =
    let lhs = ref (primary ()) in
    let continue_ = ref true in
    while !continue_ do
      match peek () with
      | Some (TOp s) ->
        (match binop_of s with
         | Some (o, p) when p >= minp ->
           advance ();
           let rhs = binary (p + 1) in
           lhs := PBin (o, !lhs, rhs)
         | _ -> continue_ := false)
      | _ -> continue_ := false
    done;
    !lhs
  and ternary () =
    let c = binary 1 in
    match peek () with
    | Some (TOp "?") ->
      advance ();
      let a = ternary () in
      (match peek () with
       | Some (TOp ":") -> advance (); let b = ternary () in PTern (c, a, b)
       | _ -> raise Parse_error)
    | _ -> c
  in
  if toks = [] then PEmpty
  else
    try
      if List.mem TBad toks then raise Parse_error;
      let e = ternary () in
      if !rest <> [] then raise Parse_error;
      e
    with Parse_error -> PBad

(* ---------- translation unit -> items *)
let strip (s : string) : string = String.trim s

let starts_with (p : string) (s : string) : bool =
  String.length s >= String.length p && String.sub s 0 (String.length p) = p

let split_lines (s : string) : string list =
  (* separator: backslash followed by n *)
  let n = String.length s in
  let buf = Buffer.create 64 in
  let res = ref [] in
  let i = ref 0 in
  while !i < n do
    if s.[!i] = '\\' && !i + 1 < n && s.[!i+1] = 'n' then begin
      res := Buffer.contents buf :: !res; Buffer.clear buf; i := !i + 2
    end else begin Buffer.add_char buf s.[!i]; incr i end
  done;
  res := Buffer.contents buf :: !res;
  List.rev !res

let ident_prefix (s : string) : string * string =
  (* leading identifier of s and the remainder *)
  let n = String.length s in
  let i = ref 0 in
  while !i < n && is_alnum s.[!i] do incr i done;
  (String.sub s 0 !i, String.sub s !i (n - !i))

let item_of_line (line : string) : (float pexpr, dir) item option =
  let l = strip line in
  if l = "" then None
  else if l.[0] = '#' then begin
    let body = strip (String.sub l 1 (String.length l - 1)) in
    let (d, rest) = ident_prefix body in
    let rest' = strip rest in
    match d with
    | "define" ->
      let (name, after) = ident_prefix rest' in
      if name = "" then None
      else if String.length after > 0 && after.[0] = '(' then Some (IDir (DDefine (name_id name, BOther)))
      else
        let b = strip after in
        if b = "" then Some (IDir (DDefine (name_id name, BEmpty)))
        else (match lex b with
            | [TLit (LInt il)] -> Some (IDir (DDefine (name_id name, BLit il)))
            | _ -> Some (IDir (DDefine (name_id name, BOther))))
    | "undef" -> let (name, _) = ident_prefix rest' in Some (IDir (DUndef (name_id name)))
    | "if" -> Some (IIf (parse_cond (lex rest')))
    | "elif" -> Some (IElif (parse_cond (lex rest')))
    | "ifdef" -> let (name, _) = ident_prefix rest' in Some (IIfdef (name_id name))
    | "ifndef" -> let (name, _) = ident_prefix rest' in Some (IIfndef (name_id name))
    | "else" -> Some IElse
    | "endif" -> Some IEndif
    | _ -> None
  end
  else begin
    (* a text line: id from a leading L<digits> *)
    let n = String.length l in
    if n >= 2 && l.[0] = 'L' && is_digit l.[1] then begin
      let j = ref 1 in
      while !j < n && is_digit l.[!j] do incr j done;
      Some (IText (z_of_int (int_of_string (String.sub l 1 (!j - 1)))))
    end else Some (IText (z_of_int (-1)))
  end

let show_ids (l : z list) : string = String.concat " " (List.map (fun x -> string_of_int (int_of_z x)) l)

let () =
  let cfg = match Sys.getenv_opt "C13_CFG" with Some "pinned" -> ppinned | _ -> pfixed in
  try
    while true do
      let line = input_line stdin in
      Hashtbl.reset names;
      let items = List.filter_map item_of_line (split_lines line) in
      let m = mrun_conc ops cfg items in
      (match m.ms_crashed with
       | Some how -> print_string (if int_of_z how = 0 then "R UB\n" else "R EXC\n")
       | None ->
         (* #B: a condition that is not an expression was handed to the evaluator; how the library's expression
            parser treats such token lines (it accepts some of them) is not modelled *)
         let bad = List.exists (fun c -> c = PBad || c = PEmpty) m.ms_trace in
         print_string ("R " ^ show_ids (List.rev m.ms_out) ^ " #E" ^ string_of_int (int_of_z m.ms_errors)
                       ^ (if bad then " #B" else "") ^ "\n"));
      (match srun_conc ops items with
       | Some (out, _) -> print_string ("S " ^ show_ids out ^ "\n")
       | None -> print_string "S UNDEF\n")
    done
  with End_of_file -> ()
