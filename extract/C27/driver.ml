(* C27 model driver: one case per line; prints the model's observations (R) and the specification's (S).
   Tokens (separated by spaces), registers i,j in 0..3:
     I<i>:<w0>,...,<w7>   r[i] = hash_t(ints)           F<i>=<text> | F<i>:<hexbytes>   r[i] = fromString(str)
     A<i><j>  r[i] = r[j]     X<i><j>  r[i] ^= r[j]     C<i>  r[i].clear()
     S<i> getString   L<i> getFullString   T<i> fromString(getFullString) + ==   E<i><j> == != <   N<i> getInt
     H=<text> | H:<hexbytes>   hash(bytes)              P=<text> | P:<hexbytes>   fromString(arbitrary string)
   A first token Q marks a case for which no specification line is printed (strings outside the
   theorems' hypotheses: the model predicts UB there). *)
let zs x = string_of_int (int_of_z x)
let b2s b = if b then "1" else "0"
let reg c = nat_of_int (Char.code c - 48)

let str_esc (l : z list) : string =
  String.concat "" (List.map (fun x ->
    let c = (int_of_z x) land 255 in
    if c >= 33 && c <= 126 && not (List.mem (Char.chr c) ['('; ')'; ';'; '\\'; ',']) then String.make 1 (Char.chr c)
    else Printf.sprintf "\\x%02x" c) l)

let words l = String.concat "," (List.map zs l)

let chars_of_payload (tok : string) (pos : int) : z list =
  (* tok.[pos] is '=' (literal text follows) or ':' (hex-encoded bytes follow) *)
  let body = String.sub tok (pos + 1) (String.length tok - pos - 1) in
  if tok.[pos] = '=' then List.init (String.length body) (fun i -> z_of_int (signed_char (Char.code body.[i])))
  else List.map (fun b -> z_of_int (signed_char b)) (bytes_of_hex body)

let parse_tok (tok : string) : op =
  match tok.[0] with
  | 'I' ->
    let body = String.sub tok 3 (String.length tok - 3) in
    OInts (reg tok.[1], List.map (fun s -> z_of_int (int_of_string s)) (String.split_on_char ',' body))
  | 'F' -> OFrom (reg tok.[1], chars_of_payload tok 2)
  | 'A' -> OAssign (reg tok.[1], reg tok.[2])
  | 'X' -> OXor (reg tok.[1], reg tok.[2])
  | 'C' -> OClear (reg tok.[1])
  | 'S' -> OShort (reg tok.[1])
  | 'L' -> OFull (reg tok.[1])
  | 'T' -> ORound (reg tok.[1])
  | 'E' -> OCmp (reg tok.[1], reg tok.[2])
  | 'N' -> OInt (reg tok.[1])
  | 'H' -> OHash (chars_of_payload tok 1)
  | 'P' -> OParse (chars_of_payload tok 1)
  | _ -> failwith ("bad token " ^ tok)

let show (o : obs) : string =
  match o with
  | VShort s -> "S(" ^ str_esc s ^ ")"
  | VFull s -> "L(" ^ str_esc s ^ ")"
  | VRound (ws, same) -> "T(" ^ words ws ^ ";" ^ b2s same ^ ")"
  | VCmp (e, n, l) -> "E(" ^ b2s e ^ b2s n ^ b2s l ^ ")"
  | VInt z -> "N(" ^ zs z ^ ")"
  | VHash (full, short, ws) -> "H(" ^ str_esc full ^ ";" ^ str_esc short ^ ";" ^ words ws ^ ";d1)"
  | VParse ws -> "P(" ^ words ws ^ ")"
  | VHashM -> "H(_;d1)"
  | VParseM -> "P(_)"

let () =
  try
    while true do
      let line = input_line stdin in
      let toks = split_on ' ' line in
      let nospec = (match toks with "Q" :: _ -> true | _ -> false) in
      let toks = List.filter (fun t -> t <> "Q") toks in
      let ops = List.map parse_tok toks in
      (match run_now ops with
       | None -> print_string "R UB\n"
       | Some out -> print_string ("R " ^ String.concat " " (List.map show out) ^ "\n"));
      if not nospec then
        print_string ("S " ^ String.concat " " (List.map show (s_run ops)) ^ "\n")
    done
  with End_of_file -> ()
