(* C20 model driver.  One case per stdin line (format: docs/notes/C20.md, printer: tools/C20_okl.py):

     k<id> args:<ints> garr:<sizes> ob:<odims>:<idims>:<kinds>:<shared>:<nexc>:<nloc>:<attrs>
           sec:<written shared>:<flags> <stmt> ... sec:... ob:...

   Output per case:
     S V g0=..;g1=..      run_seq (the sequential reading), or  S SKIP <why> / S BADCASE <why>
     R V g0=..;g1=..      run_launch under a pseudo-random complete schedule of the launch model *)

exception Bad of string
let bad s = raise (Bad s)

(* ------------------------------------------------------------------ expression / statement parser *)
type cur = { s : string; mutable p : int }
let peek c = if c.p < String.length c.s then c.s.[c.p] else '\000'
let adv c = c.p <- c.p + 1
let expect c ch = if peek c = ch then adv c else bad (Printf.sprintf "expected %c at %d in %s" ch c.p c.s)
let is_digit ch = ch >= '0' && ch <= '9'
let p_uint c =
  let st = c.p in
  while is_digit (peek c) do adv c done;
  if c.p = st then bad ("number expected in " ^ c.s);
  int_of_string (String.sub c.s st (c.p - st))
let p_int c = if peek c = '-' then (adv c; - (p_uint c)) else p_uint c

let rec p_expr c : expr =
  match peek c with
  | '(' ->
    adv c;
    let a = p_expr c in
    let op =
      let two = if c.p + 1 < String.length c.s then String.sub c.s c.p 2 else "" in
      if two = "<=" then (c.p <- c.p + 2; OLe) else if two = "==" then (c.p <- c.p + 2; OEq)
      else if two = "!=" then (c.p <- c.p + 2; ONe)
      else match peek c with
        | '#' -> adv c; OHlp | '+' -> adv c; OAdd | '-' -> adv c; OSub | '*' -> adv c; OMul | '<' -> adv c; OLt
        | _ -> bad ("operator expected in " ^ c.s) in
    let b = p_expr c in
    expect c ')'; EBin (op, a, b)
  | 'l' -> adv c; ELoc (nat_of_int (p_uint c))
  | 'x' -> adv c; EExc (nat_of_int (p_uint c))
  | 'o' -> adv c; EOut (nat_of_int (p_uint c))
  | 'i' -> adv c; EInn (nat_of_int (p_uint c))
  | 'p' -> adv c; EArg (nat_of_int (p_uint c))
  | 'm' -> adv c; expect c '('; let a = p_expr c in expect c ','; let k = p_int c in expect c ')';
    EModP (a, z_of_int k)
  | 'g' -> adv c; let a = p_uint c in expect c '['; let i = p_expr c in expect c ']'; ERdG (nat_of_int a, i)
  | 'w' -> adv c; let a = p_uint c in expect c '.'; let d = p_uint c in ERdOwn (nat_of_int a, nat_of_int d)
  | 's' -> adv c; let a = p_uint c in expect c '['; let i = p_expr c in expect c ']'; ERdSh (nat_of_int a, i)
  | 't' -> adv c; let a = p_uint c in expect c '.'; let d = p_uint c in ERdShOwn (nat_of_int a, nat_of_int d)
  | ch when is_digit ch || ch = '-' -> EConst (z_of_int (p_int c))
  | _ -> bad ("expression expected at " ^ string_of_int c.p ^ " in " ^ c.s)

let p_bound c : bound =
  match peek c with
  | 'c' -> adv c; BConst (z_of_int (p_int c))
  | 'a' -> adv c; BArg (nat_of_int (p_uint c))
  | _ -> bad ("bound expected in " ^ c.s)

let rec p_stmt c : stmt =
  match peek c with
  | 'L' -> adv c; let x = p_uint c in expect c '='; SLoc (nat_of_int x, p_expr c)
  | 'X' -> adv c; let x = p_uint c in expect c '='; SExc (nat_of_int x, p_expr c)
  | 'O' -> adv c; let a = p_uint c in expect c '.'; let d = p_uint c in expect c '=';
    SWrOwn (nat_of_int a, nat_of_int d, p_expr c)
  | 'B' -> adv c; let a = p_uint c in expect c '.'; let d = p_uint c in expect c '=';
    SWrBlk (nat_of_int a, nat_of_int d, p_expr c)
  | 'S' -> adv c; let a = p_uint c in expect c '.'; let d = p_uint c in expect c '=';
    SWrSh (nat_of_int a, nat_of_int d, p_expr c)
  | 'A' -> adv c; let a = p_uint c in expect c '['; let i = p_expr c in expect c ']';
    let two = if c.p + 1 < String.length c.s then String.sub c.s c.p 2 else "" in
    c.p <- c.p + 2;
    (* @atomic ++x / --x  are  x += 1 / x += -1 *)
    if two = "+=" then SAtom (nat_of_int a, i, p_expr c)
    else if two = "++" then SAtom (nat_of_int a, i, EConst (z_of_int 1))
    else if two = "--" then SAtom (nat_of_int a, i, EConst (z_of_int (-1)))
    else bad ("atomic form in " ^ c.s)
  | 'I' -> adv c; expect c '('; let e = p_expr c in expect c ')';
    let a = p_block c in let b = p_block c in SIf (e, a, b)
  | 'F' -> adv c; SFirst (p_block c)
  | 'R' -> adv c; let j = p_uint c in expect c ','; let b = p_bound c in SFor (nat_of_int j, b, p_block c)
  | _ -> bad ("statement expected at " ^ string_of_int c.p ^ " in " ^ c.s)
and p_block c : stmt =
  expect c '{';
  let rec go acc =
    if peek c = '}' then (adv c; acc)
    else begin
      let s = p_stmt c in
      if peek c = ';' then adv c;
      go (match acc with SSkip -> s | _ -> SSeq (acc, s))
    end in
  go SSkip

let parse_stmt tok = let c = { s = tok; p = 0 } in let s = p_stmt c in
  if c.p <> String.length tok then bad ("trailing characters in " ^ tok); s

(* ------------------------------------------------------------------ case parser *)
let split ch s = String.split_on_char ch s
let after pre tok =
  let n = String.length pre in
  if String.length tok >= n && String.sub tok 0 n = pre then Some (String.sub tok n (String.length tok - n)) else None
let ints s = if s = "-" || s = "" then [] else List.map int_of_string (split ',' s)

type pob = { ob : oblock; nexc : int; nloc : int; nod : int; nid : int }

let parse_kinds s = List.map (fun t ->
    if t = "i" then KIn else if t = "a" then KAtom else if t = "n" then KNone
    else if String.length t >= 2 && t.[0] = 't' then KThr (nat_of_int (int_of_string (String.sub t 1 (String.length t - 1))))
    else if String.length t >= 2 && t.[0] = 'b' then KBlk (nat_of_int (int_of_string (String.sub t 1 (String.length t - 1))))
    else bad ("kind " ^ t)) (split ',' s)

let parse_bounds s = List.map (fun t -> p_bound { s = t; p = 0 }) (split ',' s)

let parse_shared s = if s = "-" then [] else
    List.map (fun t -> match split 'x' t with
        | [a; b] -> (nat_of_int (int_of_string a), nat_of_int (int_of_string b))
        | _ -> bad ("shared " ^ t)) (split ',' s)

let seq_of = function [] -> SSkip | x :: r -> List.fold_left (fun a b -> SSeq (a, b)) x r

let parse_case line =
  let toks = List.filter (fun x -> x <> "") (split ' ' line) in
  match toks with
  | name :: a :: g :: rest ->
    let args = match after "args:" a with Some s -> ints s | None -> bad "args" in
    let garr = match after "garr:" g with Some s -> ints s | None -> bad "garr" in
    (* group: ob header, then sections *)
    let obs = ref [] in
    let cur_ob = ref None and cur_secs = ref [] and cur_sec = ref None and cur_stmts = ref [] in
    let close_sec () = (match !cur_sec with
        | Some wr -> cur_secs := { sec_wr = wr; sec_body = seq_of (List.rev !cur_stmts) } :: !cur_secs
        | None -> if !cur_stmts <> [] then bad "statement outside a section");
      cur_sec := None; cur_stmts := [] in
    let close_ob () = close_sec ();
      (match !cur_ob with
       | Some (od, id, kinds, sh, nexc, nloc) ->
         obs := { ob = { ob_odims = od; ob_idims = id; ob_kinds = kinds; ob_shared = sh; ob_secs = List.rev !cur_secs };
                  nexc; nloc; nod = List.length od; nid = List.length id } :: !obs
       | None -> if !cur_secs <> [] then bad "section outside an outer block");
      cur_ob := None; cur_secs := [] in
    List.iter (fun t ->
        match after "ob:" t with
        | Some s -> close_ob ();
          (match split ':' s with
           | [od; id; kinds; sh; nexc; nloc; _attrs] ->
             cur_ob := Some (parse_bounds od, parse_bounds id, parse_kinds kinds, parse_shared sh,
                             int_of_string nexc, int_of_string nloc)
           | _ -> bad ("ob header " ^ t))
        | None ->
          match after "sec:" t with
          | Some s -> close_sec ();
            if !cur_ob = None then bad "sec outside ob";
            (match split ':' s with
             | [wr; _flags] -> cur_sec := Some (List.map nat_of_int (ints wr))
             | _ -> bad ("sec header " ^ t))
          | None -> if !cur_sec = None then bad ("statement outside a section: " ^ t);
            cur_stmts := parse_stmt t :: !cur_stmts) rest;
    close_ob ();
    (name, args, garr, List.rev !obs)
  | _ -> bad "too few tokens"

(* ------------------------------------------------------------------ well-formedness (what the OKL printer relies on) *)
let rec wf_expr nargs ngarr nsh nexc nloc nod nid e =
  let r = wf_expr nargs ngarr nsh nexc nloc nod nid in
  match e with
  | EConst z -> let v = int_of_z z in if abs v > 1000000 then bad "literal too large"
  | ELoc x -> if int_of_nat x >= nloc then bad "local index"
  | EExc x -> if int_of_nat x >= nexc then bad "exclusive index"
  | EOut k -> if int_of_nat k >= nod then bad "outer index"
  | EInn k -> if int_of_nat k >= nid then bad "inner index"
  | EArg n -> if int_of_nat n >= nargs then bad "arg index"
  | EBin (_, a, b) -> r a; r b
  | EModP (a, c) -> r a; if int_of_z c <= 0 then bad "mod literal"
  | ERdG (a, i) -> if int_of_nat a >= ngarr then bad "global index"; r i
  | ERdOwn (a, _) -> if int_of_nat a >= ngarr then bad "global index"
  | ERdSh (s, i) -> if int_of_nat s >= nsh then bad "shared index"; r i
  | ERdShOwn (s, _) -> if int_of_nat s >= nsh then bad "shared index"

let rec assigns j = function
  | SSkip -> false | SSeq (a, b) -> assigns j a || assigns j b
  | SLoc (x, _) -> int_of_nat x = j
  | SIf (_, a, b) -> assigns j a || assigns j b
  | SFirst s -> assigns j s
  | SFor (x, _, s) -> int_of_nat x = j || assigns j s
  | _ -> false

let rec wf_stmt nargs ngarr nsh nexc nloc nod nid s =
  let r = wf_stmt nargs ngarr nsh nexc nloc nod nid in
  let e = wf_expr nargs ngarr nsh nexc nloc nod nid in
  match s with
  | SSkip -> ()
  | SSeq (a, b) -> r a; r b
  | SLoc (x, v) -> if int_of_nat x >= nloc then bad "local index"; e v
  | SExc (x, v) -> if int_of_nat x >= nexc then bad "exclusive index"; e v
  | SWrOwn (a, _, v) | SWrBlk (a, _, v) -> if int_of_nat a >= ngarr then bad "global index"; e v
  | SWrSh (a, _, v) -> if int_of_nat a >= nsh then bad "shared index"; e v
  | SAtom (a, i, v) -> if int_of_nat a >= ngarr then bad "global index"; e i; e v
  | SIf (c, a, b) -> e c; r a; r b
  | SFirst a -> r a
  | SFor (j, b, a) ->
    if int_of_nat j >= nloc then bad "loop variable index";
    (match b with BArg n -> if int_of_nat n >= nargs then bad "bound arg" | BConst _ -> ());
    if assigns (int_of_nat j) a then bad "loop variable assigned in its loop";
    r a

let wf args garr (obs : pob list) =
  let nargs = List.length args and ngarr = List.length garr in
  if obs = [] then bad "no outer block";
  if ngarr = 0 then bad "no arrays";
  List.iter (fun n -> if n < 1 || n > 100000 then bad "array size") garr;
  List.iter (fun a -> if abs a > 100000 then bad "argument magnitude") args;
  List.iter (fun p ->
      if p.nod < 1 || p.nod > 3 || p.nid < 1 || p.nid > 3 then bad "loop nest depth";
      if List.length p.ob.ob_kinds <> ngarr then bad "kinds length";
      if p.ob.ob_secs = [] then bad "no section";
      let ext b = match b with BConst z -> int_of_z z
                             | BArg n -> if int_of_nat n >= nargs then bad "bound arg" else List.nth args (int_of_nat n) in
      List.iter (fun b -> let v = ext b in if v < 1 || v > 4096 then bad "extent") (p.ob.ob_odims @ p.ob.ob_idims);
      let tot = List.fold_left (fun a b -> a * ext b) 1 (p.ob.ob_odims @ p.ob.ob_idims) in
      if tot > 20000 then bad "too many iterations";
      let nsh = List.length p.ob.ob_shared in
      List.iter (fun (st, sz) -> if int_of_nat st < 1 || int_of_nat sz < 1 || int_of_nat sz > 100000 then bad "shared decl") p.ob.ob_shared;
      List.iter (fun sec ->
          List.iter (fun s -> if int_of_nat s >= nsh then bad "sec_wr index") sec.sec_wr;
          wf_stmt nargs ngarr nsh p.nexc p.nloc p.nod p.nid sec.sec_body) p.ob.ob_secs) obs

(* ------------------------------------------------------------------ memory *)
let init_mem garr : z list list =
  List.mapi (fun a n -> List.init n (fun i -> z_of_int (((i * 7 + a * 13 + 5) mod 23) - 9))) garr

let show_mem (m : z list list) =
  "V " ^ String.concat ";" (List.mapi (fun a l ->
      Printf.sprintf "g%d=%s" a (String.concat "," (List.map (fun v -> string_of_int (int_of_z v)) l))) m)

(*SPLIT: everything above is shared with extract/C21/driver.ml (props/C21.py prepends it) *)
(* ------------------------------------------------------------------ a pseudo-random complete schedule of the launch model *)
let rng = ref 12345
let rand n = rng := (!rng * 1103515245 + 12345) land 0x3fffffff; (!rng lsr 8) mod n

let launch_random (v : env) (ob : oblock) (g : z list list) : z list list option =
  let e = mk_senv v.v_args ob in
  let no = int_of_nat (extents v.v_args ob.ob_odims) and mi = int_of_nat e.e_mi in
  let secs = ob.ob_secs in
  let st = ref (init_gst e v.v_uninit ob (nat_of_int no) g) in
  (* per block: threads that may still have steps in the current phase *)
  let active = Array.init no (fun _ -> Array.to_list (Array.init mi (fun i -> i))) in
  let live = ref (List.init no (fun b -> b)) in
  let ok = ref true in
  let steps = ref 0 in
  while !ok && !live <> [] do
    incr steps;
    if !steps > 20000000 then ok := false;
    let b = List.nth !live (rand (List.length !live)) in
    (match active.(b) with
     | [] ->
       (match gstep false e secs (LBar (nat_of_int b)) !st with
        | Some s' -> st := s'; active.(b) <- Array.to_list (Array.init mi (fun i -> i))
        | None -> live := List.filter (fun x -> x <> b) !live)
     | l ->
       let i = List.nth l (rand (List.length l)) in
       (* a burst of 1..3 steps of that thread *)
       let burst = 1 + rand 3 in
       let k = ref 0 in
       let continue = ref true in
       while !continue && !k < burst do
         incr k;
         match gstep false e secs (LThr (nat_of_int b, nat_of_int i)) !st with
         | Some s' -> st := s'
         | None -> continue := false; active.(b) <- List.filter (fun x -> x <> i) active.(b)
       done)
  done;
  if !ok && finished secs !st then Some (!st).s_G else None

let () =
  try
    while true do
      let line = input_line stdin in
      (try
         let (name, args, garr, obs) = parse_case line in
         wf args garr obs;
         rng := Hashtbl.hash name + 17;
         let k = List.map (fun p -> p.ob) obs in
         let zargs = List.map z_of_int args in
         let g0 = init_mem garr in
         if not (independent k) then (print_endline "R SKIP not-independent"; print_endline "S SKIP not-independent")
         else begin
           let v0 = { v_args = zargs; v_uninit = z_of_int 0 } and v1 = { v_args = zargs; v_uninit = z_of_int 7777 } in
           if not (in_bounds k v0 g0) then (print_endline "R SKIP out-of-bounds"; print_endline "S SKIP out-of-bounds")
           else begin
             let s0 = run_seq k v0 g0 and s1 = run_seq k v1 g0 in
             if s0 <> s1 then (print_endline "R SKIP uninitialised-read"; print_endline "S SKIP uninitialised-read")
             else begin
               let r = List.fold_left (fun acc ob -> match acc with None -> None | Some g -> launch_random v0 ob g) (Some g0) k in
               (match r with
                | Some g -> print_endline ("R " ^ show_mem g)
                | None -> print_endline "R LAUNCH-INCOMPLETE");
               print_endline ("S " ^ show_mem s0)
             end
           end
         end
       with
       | Bad m -> print_endline ("R BADCASE " ^ m); print_endline ("S BADCASE " ^ m)
       | Failure m -> print_endline ("R BADCASE " ^ m); print_endline ("S BADCASE " ^ m)
       | Not_found -> print_endline "R BADCASE nf"; print_endline "S BADCASE nf");
      flush stdout
    done
  with End_of_file -> ()
