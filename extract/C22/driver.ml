(* C22 model driver.  One case per stdin line: a translation unit as depth-prefixed tokens.
     <d>:K<r>           start of a kernel, return type r: v void | p void* | i int | f float
     <d>:F<a>[/I/C/U]   for loop, a: n plain | o @outer | i @inner | b both; optional header
                          I = E | X | D<extra>,<hasval 0/1>,<ty>,<val>        ty: i c s l z p u (integer) f d (not)
                          C = E | N | B<op>,<side>,<bound>                   op: lt le gt ge ne eq; side: L R N
                          U = E | X | U<left 0/1>,<op>,<isit 0/1>            op: inc dec neg
                                    | B<op>,<side>,<step>                    op: add sub mul
                          val/bound/step: an integer, or n (not a constant)
                        default header: D0,1,i,0 / Blt,L,4 / U1,inc,1   i.e. (int x = 0; x < 4; ++x)
     <d>:I if   <d>:E else   <d>:e else-if   <d>:W while   <d>:w do-while   <d>:S switch   <d>:B block
     <d>:b break   <d>:c continue   <d>:D<k><dims> declaration, k: s @shared | e @exclusive | p plain,
                        dims: one letter per extent, c constant | n not constant
     <d>:U<k> statement using the nearest visible variable of kind k   <d>:O other statement
   A token is a child of the nearest preceding container token of smaller depth (any token list is a
   tree, so the shrinker may delete tokens freely).  Normalisation done here, before model and printer
   see the tree: else/else-if directly under an `if` come first among its kids (the order in which
   iterateStatement visits them) and are blocks anywhere else; of several `else` only the last stays
   an else; a use with no visible variable of its kind is an `other` statement.

   Output per case:   R <generic parse><7 flags>     the checker model's verdict for every translator
                      S <generic parse><7 flags>     the rules' verdict
   With --okl: the OKL source of the case on one line instead (input of drivers/C22.cpp).
   C22_VARIANT=pinned selects the model of the unpatched source (default: fixed). *)

type raw = { code : string; rdepth : int; mutable rkids : raw list }

let is_container c = match c with 'F' | 'I' | 'E' | 'e' | 'W' | 'w' | 'S' | 'B' -> true | _ -> false

let parse_tokens (toks : string list) : (string * raw list) list =
  (* returns kernels: (K code, body) *)
  let kernels = ref [] in
  let cur = ref None in
  let stack = ref [] in
  let finish () = match !cur with
    | Some (kc, top) -> kernels := (kc, List.rev top.rkids) :: !kernels
    | None -> () in
  List.iter (fun tok ->
    match String.index_opt tok ':' with
    | None -> ()
    | Some i ->
      let d = (try int_of_string (String.sub tok 0 i) with _ -> 0) in
      let code = String.sub tok (i + 1) (String.length tok - i - 1) in
      if code = "" then ()
      else if code.[0] = 'K' then begin
        finish ();
        let top = { code = "K"; rdepth = -1; rkids = [] } in
        cur := Some (code, top);
        stack := [top]
      end else
        match !cur with
        | None -> ()
        | Some _ ->
          let node = { code; rdepth = d; rkids = [] } in
          let rec pop st = match st with
            | top :: rest when top.rdepth >= d && rest <> [] -> pop rest
            | _ -> st in
          stack := pop !stack;
          (match !stack with
           | parent :: _ -> parent.rkids <- node :: parent.rkids
           | [] -> ());
          if is_container code.[0] then stack := node :: !stack)
    toks;
  finish ();
  let rec fix r = r.rkids <- List.rev r.rkids; List.iter fix r.rkids in
  let ks = List.rev !kernels in
  List.iter (fun (_, body) -> List.iter fix body) ks;
  ks

(* ---------------------------------------------------------------- headers *)
let zopt s = if s = "n" then None else (try Some (z_of_int (int_of_string s)) with _ -> None)
let fields s = String.split_on_char ',' s
let rest s = String.sub s 1 (String.length s - 1)

let default_header =
  { h_init = IDecl (O, true, TyInt, Some (z_of_int 0));
    h_check = CBin (CLt, SLeft, Some (z_of_int 4));
    h_update = UUnary (true, UInc, true) }

(* the type letter is kept for the printer *)
let parse_init s : init_t * string =
  if s = "" then (INone, "i") else
  match s.[0] with
  | 'X' -> (IExpr, "i")
  | 'D' ->
    (match fields (rest s) with
     | [ex; hv; ty; v] ->
       let extra = (try max 0 (int_of_string ex) with _ -> 0) in
       let ity = (match ty with "f" | "d" -> TyBad | _ -> TyInt) in
       (IDecl (nat_of_int extra, hv = "1", ity, (if hv = "1" then zopt v else None)), ty)
     | _ -> (INone, "i"))
  | _ -> (INone, "i")

let parse_side s = match s with "L" -> SLeft | "R" -> SRight | _ -> SNone

let parse_check s : check_t * string =
  if s = "" then (CNone, "") else
  match s.[0] with
  | 'N' -> (CNonBin, "")
  | 'B' ->
    (match fields (rest s) with
     | [op; sd; b] ->
       let c = (match op with "lt" -> CLt | "le" -> CLe | "gt" -> CGt | "ge" -> CGe | _ -> COther) in
       (CBin (c, parse_side sd, zopt b), op)
     | _ -> (CNone, ""))
  | _ -> (CNone, "")

let parse_update s : update_t =
  if s = "" then UNone else
  match s.[0] with
  | 'X' -> UOtherExpr
  | 'U' ->
    (match fields (rest s) with
     | [l; op; it] ->
       let o = (match op with "inc" -> UInc | "dec" -> UDec | _ -> UOtherUn) in
       (* there is no right-unary operator besides ++ and -- *)
       let left = (l = "1") || o = UOtherUn in
       UUnary (left, o, it = "1")
     | _ -> UNone)
  | 'B' ->
    (match fields (rest s) with
     | [op; sd; st] ->
       let o = (match op with "add" -> BAddEq | "sub" -> BSubEq | _ -> BOtherBin) in
       UBin (o, parse_side sd, zopt st)
     | _ -> UNone)
  | _ -> UNone

let ty_text t = match t with
  | "c" -> "char" | "s" -> "short" | "l" -> "long" | "z" -> "size_t" | "p" -> "ptrdiff_t"
  | "u" -> "unsigned int" | "f" -> "float" | "d" -> "double" | _ -> "int"

let lit (v : z option) = match v with
  | None -> "n"
  | Some x -> let i = int_of_z x in if i < 0 then "(" ^ string_of_int i ^ ")" else string_of_int i

let header_text (h : header) (ty : string) (opname : string) (x : string) : string =
  let init = match h.h_init with
    | INone -> ""
    | IExpr -> "n = 0"
    | IDecl (extra, hv, _, v) ->
      let first = ty_text ty ^ " " ^ x ^ (if hv then " = " ^ lit v else "") in
      let more = List.init (int_of_nat extra) (fun j -> Printf.sprintf ", y%s_%d = 0" x j) in
      first ^ String.concat "" more in
  let check = match h.h_check with
    | CNone -> ""
    | CNonBin -> x
    | CBin (c, sd, b) ->
      let op = (match c with CLt -> "<" | CLe -> "<=" | CGt -> ">" | CGe -> ">="
                            | COther -> if opname = "eq" then "==" else "!=") in
      (match sd with
       | SLeft -> x ^ " " ^ op ^ " " ^ lit b
       | SRight -> lit b ^ " " ^ op ^ " " ^ x
       | SNone -> "n " ^ op ^ " " ^ lit b) in
  let update = match h.h_update with
    | UNone -> ""
    | UOtherExpr -> x
    | UUnary (left, o, isit) ->
      let v = if isit then x else "n" in
      (match o with
       | UInc -> if left then "++" ^ v else v ^ "++"
       | UDec -> if left then "--" ^ v else v ^ "--"
       | UOtherUn -> "-" ^ v)
    | UBin (o, sd, st) ->
      let op = (match o with BAddEq -> "+=" | BSubEq -> "-=" | BOtherBin -> "*=") in
      (match sd with
       | SLeft -> x ^ " " ^ op ^ " " ^ lit st
       | SRight -> lit st ^ " " ^ op ^ " " ^ x
       | SNone -> "n " ^ op ^ " " ^ lit st) in
  init ^ "; " ^ check ^ "; " ^ update

(* ---------------------------------------------------------------- tree + source *)
let counter = ref 0
let fresh () = incr counter; !counter

type scope = (vkind * string * int) list      (* kind, name, number of subscripts *)

let is_else r = r.code.[0] = 'E' || r.code.[0] = 'e'

let rec conv (sc : scope) (in_do : bool) (r : raw) : stmt * string * scope =
  (* returns the model statement, its source text, and the scope for the following siblings *)
  let c = r.code.[0] in
  let body sc' kids = conv_list sc' in_do kids in
  match c with
  | 'F' ->
    let a = if String.length r.code > 1 then r.code.[1] else 'n' in
    let (o, i) = (match a with 'o' -> (true, false) | 'i' -> (false, true) | 'b' -> (true, true) | _ -> (false, false)) in
    let parts = String.split_on_char '/' r.code in
    let (h, ty, opname) =
      (match parts with
       | [_; si; sc_; su] ->
         let (ini, ty) = parse_init si in
         let (chk, opn) = parse_check sc_ in
         ({ h_init = ini; h_check = chk; h_update = parse_update su }, ty, opn)
       | _ -> (default_header, "i", "lt")) in
    let x = Printf.sprintf "x%d" (fresh ()) in
    let (ks, txt) = body sc r.rkids in
    let attr = (match a with 'o' -> "; @outer" | 'i' -> "; @inner" | 'b' -> "; @outer @inner" | _ -> "") in
    (Node (KFor (o, i, h), ks),
     "for (" ^ header_text h ty opname x ^ attr ^ ") { " ^ txt ^ "}", sc)
  | 'I' ->
    let elses = List.filter is_else r.rkids in
    let thens = List.filter (fun k -> not (is_else k)) r.rkids in
    let n_else = List.length elses in
    let (tk, ttxt) = conv_list sc in_do thens in
    let conv_else idx e =
      let elif = e.code.[0] = 'e' || idx < n_else - 1 in
      let (ks, txt) = conv_list sc in_do e.rkids in
      (Node (KElse elif, ks),
       (if elif then Printf.sprintf " else if (n > %d) { " (idx + 1) else " else { ") ^ txt ^ "}") in
    let ebs = List.mapi conv_else elses in
    (Node (KIf, List.map fst ebs @ tk),
     "if (n > 0) { " ^ ttxt ^ "}" ^ String.concat "" (List.map snd ebs), sc)
  | 'E' | 'e' ->
    (* not directly under an if: a plain block *)
    let (ks, txt) = body sc r.rkids in
    (Node (KBlock, ks), "{ " ^ txt ^ "}", sc)
  | 'W' -> let (ks, txt) = body sc r.rkids in (Node (KWhile false, ks), "while (n > 2) { " ^ txt ^ "}", sc)
  | 'w' -> let (ks, txt) = body sc r.rkids in (Node (KWhile true, ks), "do { " ^ txt ^ "} while (n > 3);", sc)
  | 'S' -> let (ks, txt) = body sc r.rkids in (Node (KSwitch, ks), "switch (n) { case 0: " ^ txt ^ "}", sc)
  | 'B' -> let (ks, txt) = body sc r.rkids in (Node (KBlock, ks), "{ " ^ txt ^ "}", sc)
  | 'b' -> (Node (KBreak, []), "break;", sc)
  | 'c' -> (Node (KContinue, []), "continue;", sc)
  | 'D' ->
    let kc = if String.length r.code > 1 then r.code.[1] else 'p' in
    let vk = (match kc with 's' -> VShared | 'e' -> VExclusive | _ -> VPlain) in
    let dimcodes = if String.length r.code > 2 then String.sub r.code 2 (String.length r.code - 2) else "" in
    let dims = List.init (String.length dimcodes) (fun j -> dimcodes.[j] = 'c') in
    let name = Printf.sprintf "%s%d" (match vk with VShared -> "s" | VExclusive -> "e" | VPlain -> "p") (fresh ()) in
    let attr = (match vk with VShared -> "@shared " | VExclusive -> "@exclusive " | VPlain -> "") in
    let ext = String.concat "" (List.mapi (fun j b -> if b then Printf.sprintf "[%d]" (j + 2) else "[n]") dims) in
    (Node (KDecl (vk, dims), []), attr ^ "int " ^ name ^ ext ^ ";", (vk, name, List.length dims) :: sc)
  | 'U' ->
    let kc = if String.length r.code > 1 then r.code.[1] else 'p' in
    let vk = (match kc with 's' -> VShared | 'e' -> VExclusive | _ -> VPlain) in
    (match List.find_opt (fun (k, _, _) -> k = vk) sc with
     | Some (_, name, nd) ->
       (Node (KUse vk, []), name ^ String.concat "" (List.init nd (fun _ -> "[0]")) ^ " = 1;", sc)
     | None -> (Node (KOther, []), "a[0] = n;", sc))
  | _ -> (Node (KOther, []), "a[0] = n;", sc)

and conv_list (sc : scope) (in_do : bool) (rs : raw list) : stmt list * string =
  let (_, ks, txt) =
    List.fold_left (fun (sc, ks, txt) r ->
      let (k, t, sc') = conv sc in_do r in (sc', k :: ks, txt ^ t ^ " "))
      (sc, [], "") rs in
  (List.rev ks, txt)

let conv_kernel idx (kc, body) : kernel * string =
  let r = if String.length kc > 1 then kc.[1] else 'v' in
  let (rt, rtxt) = (match r with
    | 'p' -> (RVoidPtr, "void *") | 'i' -> (ROther, "int ") | 'f' -> (ROther, "float ") | _ -> (RVoid, "void ")) in
  let (ks, txt) = conv_list [] false body in
  ({ k_ret = rt; k_body = ks },
   Printf.sprintf "@kernel %sk%d(int *a, int n) { %s}" rtxt idx txt)

let () =
  let okl = Array.length Sys.argv > 1 && Sys.argv.(1) = "--okl" in
  let variant = (match Sys.getenv_opt "C22_VARIANT" with Some "pinned" -> pinned | _ -> fixed) in
  try
    while true do
      let line = input_line stdin in
      counter := 0;
      let toks = split_on ' ' line in
      let ks = List.mapi conv_kernel (parse_tokens toks) in
      if okl then begin
        let src = if ks = [] then "void g(int *a, int n) { a[0] = n; }"
          else String.concat " " (List.map snd ks) in
        print_string src; print_newline ()
      end else begin
        let kernels = List.map fst ks in
        let flag b = String.make 7 (if b then '1' else '0') in
        (match kernelsAreValid variant kernels with
         | Some b -> print_string ("R 1" ^ flag b)
         | None -> print_string "R CRASH (integer division by zero while folding the iteration count)");
        print_newline ();
        print_string ("S 1" ^ flag (rules_all_b kernels));
        print_newline ()
      end
    done
  with End_of_file -> ()
