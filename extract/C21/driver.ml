(* C21 model driver.  props/C21.py prepends the parser / well-formedness / memory part of extract/C20/driver.ml
   (up to its SPLIT marker): same case format.

   Output per case:
     S V g0=..;g1=..      run_serial (= C20's run_seq), or  S SKIP <why> / S BADCASE <why>
     R V g0=..;g1=..      run_omp under a pseudo-random complete schedule: random chunks of outer tuples assigned to
                          1..16 threads, every thread runs its tuples in order, threads interleaved at statement
                          granularity (checked against thread_schedule) *)

let rng = ref 12345
let rand n = rng := (!rng * 1103515245 + 12345) land 0x3fffffff; (!rng lsr 8) mod n

let omp_random (v : env) (ob : oblock) (g : z list list) : z list list option =
  let e = mk_senv v.v_args ob in
  let no = int_of_nat (extents v.v_args ob.ob_odims) in
  let secs = ob.ob_secs in
  let st = ref (init_gst e v.v_uninit ob (nat_of_int no) g) in
  let nthreads = 1 + rand 16 in
  (* static,chunk or a shuffled dynamic assignment *)
  let chunk = 1 + rand 3 in
  let queues = Array.make nthreads [] in
  if rand 2 = 0 then
    for b = no - 1 downto 0 do let t = (b / chunk) mod nthreads in queues.(t) <- b :: queues.(t) done
  else
    for b = no - 1 downto 0 do let t = rand nthreads in queues.(t) <- b :: queues.(t) done;
  let sched = ref [] in
  let ok = ref true in
  let live () = List.filter (fun t -> queues.(t) <> []) (List.init nthreads (fun t -> t)) in
  let steps = ref 0 in
  let l = ref (live ()) in
  while !ok && !l <> [] do
    incr steps;
    if !steps > 20000000 then ok := false;
    let t = List.nth !l (rand (List.length !l)) in
    (match queues.(t) with
     | [] -> ()
     | b :: rest ->
       let burst = 1 + rand 4 in
       let k = ref 0 and continue = ref true in
       while !continue && !k < burst do
         incr k;
         match ostep false e secs (nat_of_int b) !st with
         | Some s' -> st := s'; sched := b :: !sched
         | None -> continue := false; queues.(t) <- rest; l := live ()
       done)
  done;
  if !ok && finished secs !st then Some (!st).s_G else None

let () =
  try
    while true do
      let line = input_line stdin in
      (try
         let (name, args, garr, obs) = parse_case line in
         wf args garr obs;
         rng := Hashtbl.hash name + 31;
         let k = List.map (fun p -> p.ob) obs in
         let zargs = List.map z_of_int args in
         let g0 = init_mem garr in
         if not (independent k) then (print_endline "R SKIP not-independent"; print_endline "S SKIP not-independent")
         else begin
           let v0 = { v_args = zargs; v_uninit = z_of_int 0 } and v1 = { v_args = zargs; v_uninit = z_of_int 7777 } in
           if not (in_bounds k v0 g0) then (print_endline "R SKIP out-of-bounds"; print_endline "S SKIP out-of-bounds")
           else begin
             let s0 = run_serial k v0 g0 and s1 = run_serial k v1 g0 in
             if s0 <> s1 then (print_endline "R SKIP uninitialised-read"; print_endline "S SKIP uninitialised-read")
             else begin
               let r = List.fold_left (fun acc ob -> match acc with None -> None | Some g -> omp_random v0 ob g) (Some g0) k in
               (match r with
                | Some g -> print_endline ("R " ^ show_mem g)
                | None -> print_endline "R OMP-INCOMPLETE");
               print_endline ("S " ^ show_mem s0)
             end
           end
         end
       with
       | Bad m -> print_endline ("R BADCASE " ^ m); print_endline ("S BADCASE " ^ m)
       | Failure m -> print_endline ("R BADCASE " ^ m); print_endline ("S BADCASE " ^ m)
       | Not_found -> print_endline "R BADCASE nf"; print_endline "S BADCASE nf");
      flush stdout
    done
  with End_of_file -> ()
