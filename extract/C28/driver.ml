(* C28 model driver: reads one history per line, prints the model's observations (R) and the
   specification's (S).  Case syntax (tokens separated by spaces):
     A0|A1            autoFreeze off/on (first token)
     a:<hexkey>=<v>   add        r:<hexkey>  remove     f freeze   d defrost   c clear
     L:<hexq> getLongest   G:<hexq> get   H:<hexq> has   S size   D dump representation *)
let key_of_hex h = List.map (fun b -> z_of_int (signed_char b)) (bytes_of_hex h)
let dflt = z_of_int (-7)
let zs x = string_of_int (int_of_z x)
let b2s b = if b then "1" else "0"

let rec dump_node (n : node) : string =
  match n with
  | Node (vi, kids) ->
    zs vi ^ "{" ^ String.concat "," (List.map (fun (c, k) -> zs c ^ ":" ^ dump_node k) kids) ^ "}"

let dump (t : trie) : string =
  let vals = "[" ^ String.concat "," (List.map zs (t_values t)) ^ "]" in
  match t_frozen t with
  | None -> "D(U " ^ dump_node (t_root t) ^ " " ^ vals ^ ")"
  | Some f ->
    "D(F " ^ zs f.f_nodeCount ^ " " ^ zs f.f_base ^ " " ^
    String.concat ";" (List.map (fun e -> zs e.e_char ^ "," ^ zs e.e_offset ^ "," ^ zs e.e_count ^ "," ^ zs e.e_vi) f.f_arr)
    ^ " " ^ dump_node (t_root t) ^ " " ^ vals ^ ")"

let after_colon tok = String.sub tok 2 (String.length tok - 2)

let () =
  try
    while true do
      let line = input_line stdin in
      let toks = split_on ' ' line in
      let t = ref (trie_init true) in
      let m = ref [] in
      let robs = Buffer.create 64 and sobs = Buffer.create 64 in
      let emit b s = (if Buffer.length b > 0 then Buffer.add_char b ';'); Buffer.add_string b s in
      List.iter (fun tok ->
        match tok.[0] with
        | 'A' -> t := trie_init (tok = "A1")
        | 'a' ->
          let body = after_colon tok in
          let i = String.index body '=' in
          let k = key_of_hex (String.sub body 0 i) in
          let v = z_of_int (int_of_string (String.sub body (i+1) (String.length body - i - 1))) in
          t := step !t (OAdd (k, v)); m := s_step !m (SAdd (k, v))
        | 'r' -> let k = key_of_hex (after_colon tok) in
          t := step !t (ORemove k); m := s_step !m (SRemove k)
        | 'f' -> t := step !t OFreeze
        | 'd' -> t := step !t ODefrost
        | 'c' -> t := step !t OClear; m := s_step !m SClear
        | 'L' ->
          let q = key_of_hex (after_colon tok) in
          (match value_of !t dflt (t_getLongest q !t) with
           | None -> emit robs "L(OOB)"
           | Some ((s, l), v) -> emit robs (Printf.sprintf "L(%s,%s,%s)" (b2s s) (zs l) (zs v)));
          (match spec_getLongest q !m with
           | None -> emit sobs "L(0,0,-7)"
           | Some (l, v) -> emit sobs (Printf.sprintf "L(1,%s,%s)" (zs l) (zs v)))
        | 'G' ->
          let q = key_of_hex (after_colon tok) in
          (match value_of !t dflt (t_get q !t) with
           | None -> emit robs "G(OOB)"
           | Some ((s, l), v) -> emit robs (Printf.sprintf "G(%s,%s)" (b2s s) (zs v)));
          (match spec_get q !m with
           | None -> emit sobs "G(0,-7)"
           | Some v -> emit sobs (Printf.sprintf "G(1,%s)" (zs v)))
        | 'H' ->
          let q = key_of_hex (after_colon tok) in
          (match t_has q !t with
           | None -> emit robs "H(OOB)"
           | Some b -> emit robs ("H" ^ b2s b));
          emit sobs ("H" ^ b2s (spec_get q !m <> None))
        | 'l' | 'g' ->
          (* explicit (pointer, length): the query is the first len bytes of the buffer *)
          let body = after_colon tok in
          let c2 = String.rindex body ':' in
          let buf = key_of_hex (String.sub body 0 c2) in
          let len = int_of_string (String.sub body (c2 + 1) (String.length body - c2 - 1)) in
          let rec take n l = if n <= 0 then [] else match l with [] -> [] | x :: r -> x :: take (n - 1) r in
          let q = take len buf in
          if tok.[0] = 'l' then begin
            (match value_of !t dflt (t_getLongest q !t) with
             | None -> emit robs "L(OOB)"
             | Some ((s, l), v) -> emit robs (Printf.sprintf "L(%s,%s,%s)" (b2s s) (zs l) (zs v)));
            (match spec_getLongest q !m with
             | None -> emit sobs "L(0,0,-7)"
             | Some (l, v) -> emit sobs (Printf.sprintf "L(1,%s,%s)" (zs l) (zs v)))
          end else begin
            (match value_of !t dflt (t_get q !t) with
             | None -> emit robs "G(OOB)"
             | Some ((s, l), v) -> emit robs (Printf.sprintf "G(%s,%s)" (b2s s) (zs v)));
            (match spec_get q !m with
             | None -> emit sobs "G(0,-7)"
             | Some v -> emit sobs (Printf.sprintf "G(1,%s)" (zs v)))
          end
        | 'S' -> emit robs ("S" ^ zs (t_size !t)); emit sobs ("S" ^ zs (spec_size !m))
        | 'D' -> emit robs (dump !t); emit sobs "D_"
        | _ -> failwith ("bad token " ^ tok)) toks;
      print_string ("R " ^ Buffer.contents robs ^ "\n");
      print_string ("S " ^ Buffer.contents sobs ^ "\n")
    done
  with End_of_file -> ()
