(* C15 model driver: same case syntax and observations as drivers/C15.cpp.
     E <hex> ...   R E <tree>|<printed hex>|<tree2>     S E <ref>|<ref>  /  S E UNPARSEABLE  /  (outside the reference fragment) S F RT
     F <hex> ...   R F <tree>|<printed hex>|<tree2>     S F RT
   The model describes the code after fixes/C12-1..5 and fixes/C15-1 unless C15_PINNED is set. *)
let pin = match Sys.getenv_opt "C15_PINNED" with Some _ -> true | None -> false
let fx = if pin then pinned else fixed
let c15fix = not pin

let zl_of_hex h = List.map z_of_int (bytes_of_hex h)
let hex_of_zl l = hex_of_bytes (List.map int_of_z l)
let cstring l =
  let rec go = function [] -> [] | c :: r -> if int_of_z c = 0 then [] else c :: go r in
  go l @ [z_of_int 0]

let op_tag (o : oper) : string =
  let (b1, b2) = o.op_type in
  hex_of_zl o.op_sym ^ "." ^ string_of_int (int_of_z b1) ^ "." ^ string_of_int (int_of_z b2)

let rec dump (e : expr) : string =
  match e with
  | EAtom (AId v) -> "I" ^ hex_of_zl v
  | EAtom (APrim v) -> "P" ^ hex_of_zl v
  | EAtom (AStr v) -> "S" ^ hex_of_zl v
  | EAtom (AChr v) -> "C" ^ hex_of_zl v
  | ELeft (o, v) -> "L" ^ op_tag o ^ "(" ^ dump v ^ ")"
  | ERight (o, v) -> "R" ^ op_tag o ^ "(" ^ dump v ^ ")"
  | EBin (o, l, r) -> "B" ^ op_tag o ^ "(" ^ dump l ^ "," ^ dump r ^ ")"
  | EParen v -> "G(" ^ dump v ^ ")"
  | ECall (f, a) -> "F(" ^ dump f ^ String.concat "" (List.map (fun x -> ";" ^ dump x) (comma_args a)) ^ ")"
  | ESub (a, i) -> "X(" ^ dump a ^ "," ^ dump i ^ ")"
  | ETern (c, a, b) -> "T(" ^ dump c ^ "," ^ dump a ^ "," ^ dump b ^ ")"
  | EEmpty -> "N"
  | ESizeof v -> "Z131072(" ^ hex_of_zl (print fx c15fix e) ^ ")"
  | EThrow v -> "Z2097152(" ^ hex_of_zl (print fx c15fix e) ^ ")"
  | ETuple v -> "Z68719476736(" ^ hex_of_zl (print fx c15fix e) ^ ")"
  | EPair (_, _) -> "PAIR"

let show_token (t : token) : string =
  match t with
  | TIdent v -> "I" ^ hex_of_zl v
  | TPrim v -> "P" ^ hex_of_zl v
  | TOp o -> "O" ^ hex_of_zl o.op_sym
  | TNewline -> "N"
  | TChar (e, v, u) -> "C" ^ string_of_int (int_of_z e) ^ "." ^ hex_of_zl v ^ "." ^ hex_of_zl u
  | TString (e, v, u) -> "S" ^ string_of_int (int_of_z e) ^ "." ^ hex_of_zl v ^ "." ^ hex_of_zl u
  | TComment v -> "K" ^ hex_of_zl v
  | TUnknown c -> "U" ^ hex_of_zl [c]
let token_dump (b : z list) : string =
  match tokenize fx tokenizer_ops (cstring b) with
  | Ok ts -> String.concat "," (List.map show_token
               (List.filter (function TNewline | TComment _ -> false | _ -> true) ts))
  | _ -> "OOB"

let parse_bytes (b : z list) : expr option option =   (* None = OOB/NOFUEL *)
  match parse_source fx (cstring b) with
  | Ok r -> Some r
  | _ -> None

let () =
  try
    while true do
      let line = input_line stdin in
      match split_on ' ' line with
      | kind :: hs when kind = "E" || kind = "F" || kind = "G" ->
        let src = zl_of_hex (String.concat "" hs) in
        (match parse_bytes src with
         | None -> print_string ("R " ^ kind ^ " OOB\n")
         | Some None -> print_string ("R " ^ kind ^ " ERR\n")
         | Some (Some (EPair (_, _))) -> print_string ("R " ^ kind ^ " PAIR\n")
         | Some (Some e) ->
           let printed = print fx c15fix e in
           let second = (match parse_bytes printed with
               | None -> "OOB" | Some None -> "ERR" | Some (Some e2) -> dump e2) in
           print_string ("R " ^ kind ^ " " ^ dump e ^ "|" ^ hex_of_zl printed ^ "|" ^ second
                         ^ "|" ^ token_dump src ^ "|" ^ token_dump printed ^ "\n"));
        if kind = "F" then print_string "S F RT\n"
        else if kind = "G" then print_string "S G RT\n"
        else begin
          match tokenize fx tokenizer_ops (cstring src) with
          | Ok ts ->
            (match spec_verdict (ptoks_of ts) with
             | VTree e -> print_string ("S E " ^ dump e ^ "|" ^ dump e ^ "\n")
             | VRejected -> print_string "S E UNPARSEABLE\n"
             | VOutside ->
               (* outside the reference fragment only the round trip is required: the tree, twice *)
               (match parse_bytes src with
                | Some (Some (EPair (_, _))) | Some None -> print_string "S E UNPARSEABLE\n"
                | Some (Some e) -> print_string ("S E " ^ dump e ^ "|" ^ dump e ^ "\n")
                | None -> print_string "S E UNTOKENIZABLE\n"))
          | _ -> print_string "S E UNTOKENIZABLE\n"
        end
      | _ -> print_string "R BADCASE\n"; print_string "S BADCASE-IN-GENERATOR\n"
    done
  with End_of_file -> ()
