(* C02 model driver: one history per stdin line; prints the model's observations (R) and the
   specification's (S).  Case syntax, tokens separated by spaces, fields by ':' (numbers decimal int64):
     M0|M1                   device mode Serial/OpenMP (first token; the model ignores it)
     m:d:n:dt                h[d] = dev.malloc(n, dtype)
     h:d:n:dt:seed:uhp       h[d] = dev.malloc(n, dtype, hostptr[, use_host_pointer])
     g:d:n:dt:s              h[d] = dev.malloc(n, dtype, h[s])
     w:d:n:dt:seed           h[d] = dev.wrapMemory(hostptr, n, dtype)
     s:d:s:off:cnt           h[d] = h[s].slice(off, cnt)
     c:d:s:dt                h[d] = h[s].cast(dtype)
     k:d:s                   h[d] = h[s].clone()
     F:a:cnt:off:seed        h[a].copyFrom(hostptr, cnt, off)
     T:a:cnt:off             h[a].copyTo(hostptr, cnt, off)
     f:a:b:cnt:doff:soff     h[a].copyFrom(h[b], cnt, doff, soff)
     t:a:b:cnt:doff:soff     h[a].copyTo(h[b], cnt, doff, soff)
     a:d:s   r:d   z:a   H:k
   Observation per op: OK | B<hex, ?? = never written> | N<n,n,n> | ERR ; a crash ends the line: CRASH <kind>.
   The model's variant is chosen by C02_CFG (seven 0/1 flags in the order of Model.cfg; default 1111111 = fixed). *)
let ten = z_of_int 10
let z_of_dec (s : string) : z =
  let neg = String.length s > 0 && s.[0] = '-' in
  let acc = ref Z0 in
  String.iteri (fun i ch ->
    if i = 0 && (ch = '-' || ch = '+') then ()
    else acc := Z.add (Z.mul !acc ten) (z_of_int (Char.code ch - 48))) s;
  if neg then Z.opp !acc else !acc

let cfg_of_env () : cfg =
  match Sys.getenv_opt "C02_CFG" with
  | Some s when String.length s = 7 ->
    let b i = s.[i] = '1' in
    { fx_other = b 0; fx_negoff = b 1; fx_this = b 2; fx_null = b 3; fx_src = b 4; fx_move = b 5; fx_ovf = b 6 }
  | _ -> fixed

let parse_op (tok : string) : op =
  let f = Array.of_list (String.split_on_char ':' tok) in
  let n i = nat_of_int (int_of_string f.(i)) in
  let z i = z_of_dec f.(i) in
  match f.(0) with
  | "m" -> OMalloc (n 1, z 2, z 3)
  | "h" -> OMallocH (n 1, z 2, z 3, z 4, f.(5) = "1")
  | "g" -> OMallocM (n 1, z 2, z 3, n 4)
  | "w" -> OWrap (n 1, z 2, z 3, z 4)
  | "s" -> OSlice (n 1, n 2, z 3, z 4)
  | "c" -> OCast (n 1, n 2, z 3)
  | "k" -> OClone (n 1, n 2)
  | "F" -> OCopyFromH (n 1, z 2, z 3, z 4)
  | "T" -> OCopyToH (n 1, z 2, z 3)
  | "f" -> OCopyFromM (n 1, n 2, z 3, z 4, z 5)
  | "t" -> OCopyToM (n 1, n 2, z 3, z 4, z 5)
  | "a" -> OAssign (n 1, n 2)
  | "r" -> OReset (n 1)
  | "z" -> OSize (n 1)
  | "H" -> OHostRead (n 1)
  | _ -> failwith ("bad token " ^ tok)

let hexb (x : z) : string =
  let i = int_of_z x in
  if i < 0 || i > 255 then "??" else Printf.sprintf "%02x" i

let crash_name = function CNull -> "NULL" | COob -> "OOB" | COvf -> "OVF" | COverlap -> "OVERLAP"

(* Some text, or None when the observation is a crash *)
let show (o : obs) : (string, string) result =
  match o with
  | OK -> Ok "OK"
  | OKB l -> Ok ("B" ^ String.concat "" (List.map hexb l))
  | OKN l -> Ok ("N" ^ String.concat "," (List.map (fun x -> string_of_int (int_of_z x)) l))
  | ERR -> Ok "ERR"
  | CRASH k -> Error ("CRASH " ^ crash_name k)

let () =
  let c = cfg_of_env () in
  try
    while true do
      let line = input_line stdin in
      let toks = split_on ' ' line in
      let toks = List.filter (fun t -> t.[0] <> 'M') toks in
      let ops = List.map parse_op toks in
      (* a request far outside anything allocatable (only reachable in the huge-argument batch) exhausts the
         stack when a list of that many bytes is built: reported as MODEL-RESOURCE *)
      let guard f = try f () with Stack_overflow | Out_of_memory | Failure _ | Invalid_argument _ -> "MODEL-RESOURCE" in
      let rline = guard (fun () ->
        let ms = ref init in
        let rb = Buffer.create 64 in
        let crashed = ref None in
        List.iter (fun o ->
          if !crashed = None then begin
            let (s', ob) = step c !ms o in
            ms := s';
            match show ob with
            | Ok t -> (if Buffer.length rb > 0 then Buffer.add_char rb ';'); Buffer.add_string rb t
            | Error t -> crashed := Some t
          end) ops;
        match !crashed with Some t -> t | None -> Buffer.contents rb) in
      let sline = guard (fun () ->
        let ss = ref sinit in
        let sb = Buffer.create 64 in
        List.iter (fun o ->
          let (s', ob) = s_step !ss o in
          ss := s';
          match show ob with
          | Ok t | Error t -> (if Buffer.length sb > 0 then Buffer.add_char sb ';'); Buffer.add_string sb t) ops;
        Buffer.contents sb) in
      print_string ("R " ^ rline ^ "\nS " ^ sline ^ "\n")
    done
  with End_of_file -> ()
