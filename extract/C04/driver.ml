(* C04 model driver: identical to extract/C03/driver.ml (same model, same observation format).
   Original header: C03/C04 model driver.  One history per line; prints the model's observation (R) in exactly the
   format of drivers/C03.cpp, and the reference semantics' observation (S).

   Tokens:  r<id>:<bytes>   s<id>:<parent>:<off>:<cnt>   f<id>   w<id>:<off>:<cnt>:<seed>
            z:<bytes> (resize)   k (shrinkToFit)   a:<alignment> (setAlignment)
   R, per operation, separated by " ; ":
     <token> <ok|ERR|NUL> reserved size numReservations alignment memoryAllocated maxMemoryAllocated mig
       [id/family@offset+size#fnv32(contents) ...]      (set order)
     or OOB when the model says the real code touches bytes outside a buffer (then the line ends)
   S, per operation:  <token> <tag|?> <count> [id:size:fnv32 ...] (by id); tag is ? for resize (whether it
     must fail depends on reserved(), which the check recomputes from the observed layout).
   The variant (pinned/fixed source) is chosen by the environment variable C03_VARIANT. *)
let variant =
  match Sys.getenv_opt "C03_VARIANT" with
  | Some "pinned" -> pinned
  | Some s when String.length s = 5 ->
    (* five flags force,round,fit,resort,sub as 0/1 *)
    { v_force = (s.[0] = '1'); v_round = (s.[1] = '1'); v_fit = (s.[2] = '1'); v_resort = (s.[3] = '1');
      v_sub = (s.[4] = '1') }
  | _ -> fixed

let zi = z_of_int
let iz = int_of_z
let fnv (l : z list) : int =
  List.fold_left (fun h c -> ((h lxor ((iz c) land 255)) * 16777619) land 0xffffffff) 2166136261 l

let fields s = List.map int_of_string (String.split_on_char ':' s)
let rest tok k = String.sub tok k (String.length tok - k)

let pat_fresh id n = List.init n (fun j -> zi ((id * 41 + j * 7 + 3) land 255))
let pat_seed seed n = List.init (max n 0) (fun j -> zi ((seed * 53 + j * 13 + 5) land 255))

let tag_s = function Ok -> "ok" | Err -> "ERR" | Nul -> "NUL"

let () =
  try
    while true do
      let line = input_line stdin in
      let toks = split_on ' ' line in
      let st = ref state0 in
      let sp = ref sstate0 in
      let fam : (int, int) Hashtbl.t = Hashtbl.create 16 in
      let robs = Buffer.create 256 and sobs = Buffer.create 256 in
      let dead = ref false in
      let sep b = if Buffer.length b > 0 then Buffer.add_string b " ; " in
      (* ---- the specification's side of a token: returns the tag it requires *)
      let spec_tok tok : string =
        match tok.[0] with
        | 'r' ->
          (match fields (rest tok 1) with
           | [id; n] ->
             let live_before = s_find (zi id) (s_live !sp) <> None in
             sp := s_step !sp (SReserve (zi id, zi n));
             if not live_before && n > 0 then
               sp := s_step !sp (SWrite (zi id, zi 0, pat_fresh id n));
             if live_before || n = 0 then "NUL" else if n < 0 then "ERR" else "ok"
           | _ -> failwith "bad r")
        | 's' ->
          (match fields (rest tok 1) with
           | [id; par; off; cnt] ->
             let live_before = s_find (zi id) (s_live !sp) <> None in
             let parent = s_find (zi par) (s_live !sp) in
             let n0 = List.length (s_live !sp) in
             sp := s_step !sp (SSlice (zi id, zi par, zi off, zi cnt));
             if live_before || parent = None then "NUL"
             else if List.length (s_live !sp) = n0 then "ERR" else "ok"
           | _ -> failwith "bad s")
        | 'f' ->
          let id = int_of_string (rest tok 1) in
          let t = if s_find (zi id) (s_live !sp) = None then "NUL" else "ok" in
          sp := s_step !sp (SFree (zi id)); t
        | 'w' ->
          (match fields (rest tok 1) with
           | [id; off; cnt; seed] ->
             let t = match s_find (zi id) (s_live !sp) with
               | None -> "NUL"
               | Some m -> if off < 0 || cnt + off > iz m.s_sz then "ERR" else "ok" in
             sp := s_step !sp (SWrite (zi id, zi off, pat_seed seed cnt)); t
           | _ -> failwith "bad w")
        | 'z' -> "?"
        | 'k' -> "ok"
        | 'a' -> if int_of_string (rest tok 2) = 0 then "ERR" else "ok"
        | _ -> failwith ("bad token " ^ tok)
      in
      (* ---- the model's side of a token *)
      let model_tok tok : outcome =
        let dostep o = let (s1, r) = step variant !st o in st := s1; r in
        match tok.[0] with
        | 'r' ->
          (match fields (rest tok 1) with
           | [id; n] ->
             let o = dostep (OReserve (zi id, zi n)) in
             (match o with
              | Ok ->
                Hashtbl.replace fam id id;
                (* the driver fills a fresh reservation with the id's pattern *)
                ignore (dostep (OWrite (zi id, zi 0, pat_fresh id n)))
              | _ -> ());
             o
           | _ -> failwith "bad r")
        | 's' ->
          (match fields (rest tok 1) with
           | [id; par; off; cnt] ->
             let o = dostep (OSlice (zi id, zi par, zi off, zi cnt)) in
             (match o with
              | Ok -> Hashtbl.replace fam id (try Hashtbl.find fam par with Not_found -> -1)
              | _ -> ());
             o
           | _ -> failwith "bad s")
        | 'f' -> dostep (OFree (zi (int_of_string (rest tok 1))))
        | 'w' ->
          (match fields (rest tok 1) with
           | [id; off; cnt; seed] -> dostep (OWrite (zi id, zi off, pat_seed seed cnt))
           | _ -> failwith "bad w")
        | 'z' -> dostep (OResize (zi (int_of_string (rest tok 2))))
        | 'k' -> dostep OShrink
        | 'a' -> dostep (OAlign (zi (int_of_string (rest tok 2))))
        | _ -> failwith ("bad token " ^ tok)
      in
      List.iter (fun tok ->
        if not !dead then begin
          let (_, p0) = !st in
          let had_res = p_res p0 <> [] in
          let gen0 = iz (p_gen p0) in
          let outcome = model_tok tok in
          let (d, p) = !st in
          let size = iz (p_size p) in
          let escaped = List.exists (fun r ->
              let o = iz (r_off r) and s = iz (r_sz r) in o < 0 || o + s > size) (p_res p) in
          sep robs;
          if p_oob p || escaped then begin
            Buffer.add_string robs (tok ^ " OOB"); dead := true
          end else begin
            let mig = if had_res && iz (p_gen p) <> gen0 then 1 else 0 in
            Buffer.add_string robs
              (Printf.sprintf "%s %s %d %d %d %d %d %d %d [" tok (tag_s outcome) (iz (p_reserved p)) size
                 (List.length (p_res p)) (iz (p_align p)) (iz (d_alloc d)) (iz (d_max d)) mig);
            let first = ref true in
            List.iter (fun r ->
              let id = iz (r_id r) in
              let bytes = match read !st (r_id r) with Some l -> l | None -> [] in
              if not !first then Buffer.add_char robs ' ';
              first := false;
              Buffer.add_string robs
                (Printf.sprintf "%d/%d@%d+%d#%08x" id (try Hashtbl.find fam id with Not_found -> -1)
                   (iz (r_off r)) (iz (r_sz r)) (fnv bytes))) (p_res p);
            Buffer.add_char robs ']'
          end
        end;
        let stag = spec_tok tok in
        sep sobs;
        let live = List.sort (fun a b -> compare (iz a.s_id) (iz b.s_id)) (s_live !sp) in
        Buffer.add_string sobs (Printf.sprintf "%s %s %d [" tok stag (List.length live));
        let first = ref true in
        List.iter (fun m ->
          (* a byte the reference semantics does not know (never written) cannot occur here: the
             driver fills every fresh reservation; it would print as 0 *)
          let bytes = match s_read !sp m.s_id with
            | Some l -> List.map (function Some v -> v | None -> zi 0) l | None -> [] in
          if not !first then Buffer.add_char sobs ' ';
          first := false;
          Buffer.add_string sobs (Printf.sprintf "%d:%d:%08x" (iz m.s_id) (iz m.s_sz) (fnv bytes))) live;
        Buffer.add_char sobs ']') toks;
      print_string ("R " ^ Buffer.contents robs ^ "\n");
      print_string ("S " ^ Buffer.contents sobs ^ "\n")
    done
  with End_of_file -> ()
