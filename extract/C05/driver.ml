(* C05 model driver.  One history per line; prints the model's observation (R) in the format of
   drivers/C05.cpp and the tags the reference bookkeeping requires (S).

   Tokens:  m<id>:<bytes>:<h>   device.malloc; h = 0 no source, 1 source copied, 2 use_host_pointer,
                                3 use_host_pointer + own_host_pointer
            c<id>:<from>        clone          W<id>:<bytes>  wrapMemory       x<id>  release memory
            P<id>  createMemoryPool            X<id>  release pool
            p<pid>:<tok>        pool operation (token syntax of extract/C03/driver.ml without writes)
   R per operation:  <token> <ok|ERR|NUL> memoryAllocated maxMemoryAllocated mig [pid:size:reserved ...]
   S per operation:  <token> <tag|?> ok      (? for pool operations: C03/C04 own their outcome)
   C05_VARIANT=pinned selects the snapshot (pool model pinned, use_host_pointer buffers wrapped). *)
let pinned_mode = (Sys.getenv_opt "C05_VARIANT" = Some "pinned")
let variant = if pinned_mode then pinned else fixed
let host_counted = not pinned_mode

let zi = z_of_int
let iz = int_of_z
let fields s = List.map int_of_string (String.split_on_char ':' s)
let rest tok k = String.sub tok k (String.length tok - k)
let tag_s = function Ok -> "ok" | Err -> "ERR" | Nul -> "NUL"

let pool_op (t : string) : op =
  match t.[0] with
  | 'r' -> (match fields (rest t 1) with [id; n] -> OReserve (zi id, zi n) | _ -> failwith "bad r")
  | 's' -> (match fields (rest t 1) with
            | [id; par; off; cnt] -> OSlice (zi id, zi par, zi off, zi cnt) | _ -> failwith "bad s")
  | 'f' -> OFree (zi (int_of_string (rest t 1)))
  | 'z' -> OResize (zi (int_of_string (rest t 2)))
  | 'k' -> OShrink
  | 'a' -> OAlign (zi (int_of_string (rest t 2)))
  | _ -> failwith ("bad pool token " ^ t)

let () =
  try
    while true do
      let line = input_line stdin in
      let toks = split_on ' ' line in
      let st = ref dstate0 in
      (* independent bookkeeping for the required tags: id -> `M bytes | `W bytes | `P *)
      let live : (int, [ `M of int | `W of int | `P ]) Hashtbl.t = Hashtbl.create 16 in
      let robs = Buffer.create 256 and sobs = Buffer.create 256 in
      let sep b = if Buffer.length b > 0 then Buffer.add_string b " ; " in
      List.iter (fun tok ->
        let mig = ref 0 in
        let o, stag =
          match tok.[0] with
          | 'm' ->
            (match fields (rest tok 1) with
             | [id; n; h] ->
               let t = if Hashtbl.mem live id || n = 0 then "NUL" else if n < 0 then "ERR" else "ok" in
               if t = "ok" then Hashtbl.replace live id (`M n);
               DMalloc (zi id, zi n, h >= 1, h >= 2, h >= 3), t
             | _ -> failwith "bad m")
          | 'c' ->
            (match fields (rest tok 1) with
             | [id; from] ->
               let sz = match Hashtbl.find_opt live from with Some (`M n) -> n | Some (`W n) -> n | _ -> -1 in
               (* cloning an empty memory raises: malloc(0) returns a null handle and setDtype asserts *)
               let t = if Hashtbl.mem live id || sz < 0 then "NUL" else if sz = 0 then "ERR" else "ok" in
               if t = "ok" then Hashtbl.replace live id (`M sz);
               DClone (zi id, zi from), t
             | _ -> failwith "bad c")
          | 'W' ->
            (match fields (rest tok 1) with
             | [id; n] ->
               let t = if Hashtbl.mem live id then "NUL" else if n < 0 then "ERR" else "ok" in
               if t = "ok" then Hashtbl.replace live id (`W n);
               DWrap (zi id, zi n), t
             | _ -> failwith "bad W")
          | 'x' ->
            let id = int_of_string (rest tok 1) in
            let t = match Hashtbl.find_opt live id with Some (`M _) | Some (`W _) -> "ok" | _ -> "NUL" in
            if t = "ok" then Hashtbl.remove live id;
            DFree (zi id), t
          | 'P' ->
            let id = int_of_string (rest tok 1) in
            let t = if Hashtbl.mem live id then "NUL" else "ok" in
            if t = "ok" then Hashtbl.replace live id `P;
            DPoolNew (zi id), t
          | 'X' ->
            let id = int_of_string (rest tok 1) in
            let t = match Hashtbl.find_opt live id with Some `P -> "ok" | _ -> "NUL" in
            if t = "ok" then Hashtbl.remove live id;
            DPoolFree (zi id), t
          | 'p' ->
            let i = String.index tok ':' in
            let pid = int_of_string (String.sub tok 1 (i - 1)) in
            let pt = rest tok (i + 1) in
            DPoolOp (zi pid, pool_op pt), (match Hashtbl.find_opt live pid with Some `P -> "?" | _ -> "NUL")
          | _ -> failwith ("bad token " ^ tok)
        in
        (* migration flag: the pool had reservations and got a new buffer *)
        let before = match o with
          | DPoolOp (pid, _) -> (match lookup pid (ds_objs !st) with Some (OPool p) -> Some (pid, p) | _ -> None)
          | _ -> None in
        let (s1, r) = dstep variant host_counted !st o in
        st := s1;
        (match before with
         | Some (pid, p0) ->
           (match lookup pid (ds_objs !st) with
            | Some (OPool p1) -> if p_res p0 <> [] && iz (p_gen p1) <> iz (p_gen p0) then mig := 1
            | _ -> ())
         | None -> ());
        let d = ds_dev !st in
        let pools = List.filter_map (fun (k, ob) ->
            match ob with OPool p -> Some (iz k, iz (p_size p), iz (p_reserved p)) | _ -> None) (ds_objs !st) in
        let pools = List.sort compare pools in
        sep robs;
        Buffer.add_string robs
          (Printf.sprintf "%s %s %d %d %d [%s]" tok (tag_s r) (iz (d_alloc d)) (iz (d_max d)) !mig
             (String.concat " " (List.map (fun (k, s, rs) -> Printf.sprintf "%d:%d:%d" k s rs) pools)));
        sep sobs;
        Buffer.add_string sobs (Printf.sprintf "%s %s ok" tok stag)) toks;
      print_string ("R " ^ Buffer.contents robs ^ "\n");
      print_string ("S " ^ Buffer.contents sobs ^ "\n")
    done
  with End_of_file -> ()
