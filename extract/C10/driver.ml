(* C10 model driver.  One case per line:
     K<id>/<tv>/<defs>/<params> <call> <call> ...
   <tv>     1 | 0: the kernel property type_validation
   <defs>   ';'-separated type definitions, numbered from 1:
              T=<type>.<ptrs>.<arrays>          typedef <type> *..* T<k>[..];
              S=<f>~<type>~<arrays>,...         typedef struct { <type> f[..]; ... } T<k>;
   <params> ';'-separated parameters  <c|n>.<type>.<ptrs>.<arrays>   (const or not)
   <type>   p:<pname>:<lq>:<unsigned>  (lq 1 = `long`, 2 = `long long`, written instead of pname)  |  t:<k>
   <arrays> "" | dims joined by 'x', '_' for an unsized dimension ([])
   <call>   '-' (no arguments) or ','-separated arguments:
              m:<dtype>   occa::memory with that dtype: a builtin name, S:<b1>,<b2>.. is written S:<b1>+<b2>..
                          (anonymous registered struct), T:<b>:<n> (registered tuple)
              z  uninitialized occa::memory      q  (void* ) NULL
              i l f d b c  scalars               r  a non-null host pointer
   Output:  R F:<O|E per call> C:<O|E per call>     S V:<O|E per call>
   (F = in the process that built the kernel, C = in a process that loaded it from the cache, V = required) *)
let cl_of_string (s : string) : char list = List.init (String.length s) (String.get s)
let string_of_cl (l : char list) : string = String.concat "" (List.map (String.make 1) l)
let kv =
  match Sys.getenv_opt "VERIF_C10_VARIANT" with
  | Some "pinned" -> kpinned
  | _ -> krepaired

exception Bad
let some = function Some x -> x | None -> raise Bad
let int_of s = match int_of_string_opt s with Some i -> i | None -> raise Bad

let parse_arrays (a : string) : z option list =
  if a = "" then [] else
  List.map (fun d -> if d = "_" then None else Some (z_of_int (int_of d))) (String.split_on_char 'x' a)

let rec parse_type (defs : decl_type list) (t : string) : decl_type =
  match String.split_on_char ':' t with
  | ["p"; pn; lq; _u] -> TPrim (cl_of_string pn, z_of_int (int_of lq))
  | ["t"; k] ->
    let k = int_of k in
    if k < 1 || k > List.length defs then raise Bad else List.nth defs (k - 1)
  | _ -> raise Bad

let parse_defs (s : string) : decl_type list =
  if s = "" then [] else
  List.fold_left (fun defs def ->
    let body = if String.length def > 2 then String.sub def 2 (String.length def - 2) else raise Bad in
    let d =
      if String.sub def 0 2 = "T=" then
        (match String.split_on_char '.' body with
         | [ty; ptrs; arrs] -> TTypedef (parse_type defs ty, nat_of_int (int_of ptrs), parse_arrays arrs)
         | _ -> raise Bad)
      else if String.sub def 0 2 = "S=" then
        TTypedef (TStruct (List.map (fun f ->
          match String.split_on_char '~' f with
          | [fname; ty; arrs] -> (cl_of_string fname, (parse_type defs ty, parse_arrays arrs))
          | _ -> raise Bad) (String.split_on_char ',' body)), O, [])
      else raise Bad in
    defs @ [d]) [] (String.split_on_char ';' s)

let parse_params (defs : decl_type list) (s : string) : param list =
  if s = "" then [] else
  List.mapi (fun i p ->
    match String.split_on_char '.' p with
    | [c; ty; ptrs; arrs] ->
      { p_type = parse_type defs ty; p_const = (match c with "c" -> true | "n" -> false | _ -> raise Bad);
        p_ptrs = nat_of_int (int_of ptrs); p_arrays = parse_arrays arrs;
        p_name = cl_of_string ("a" ^ string_of_int i) }
    | _ -> raise Bad) (String.split_on_char ';' s)

let builtin (b : string) : dtype =
  let g = getBuiltin (cl_of_string b) in
  if g == g_none || g = g_none then raise Bad else g

let mem_dtype (spec : string) : dtype =
  if String.length spec > 2 && String.sub spec 0 2 = "S:" then begin
    let bs = String.split_on_char '+' (String.sub spec 2 (String.length spec - 2)) in
    let (d, _) = List.fold_left (fun (o, i) b ->
      (some (add_field repaired o (cl_of_string ("f" ^ string_of_int i)) (builtin b) (z_of_int 1)), i + 1))
      (mk_leaf [] (z_of_int 0) false, 0) bs in
    d
  end else if String.length spec > 2 && String.sub spec 0 2 = "T:" then begin
    match String.split_on_char ':' spec with
    | [_; b; n] -> tuple_of repaired (builtin b) (z_of_int (int_of n)) false
    | _ -> raise Bad
  end else builtin spec

let parse_arg (a : string) : karg =
  if String.length a > 2 && String.sub a 0 2 = "m:" then AMem (mem_dtype (String.sub a 2 (String.length a - 2)))
  else match a with
    | "z" | "q" -> ANull
    | "i" | "l" | "f" | "d" | "b" | "c" | "r" -> AScalar
    | _ -> raise Bad

let vchar = function OK -> "O" | ERR -> "E" | CRASH -> "!"

let run_case (line : string) : string * string =
  match split_on ' ' line with
  | [] -> raise Bad
  | spec :: calls ->
    (match String.split_on_char '/' spec with
     | [kid; tv; defs; params] ->
       if String.length kid < 2 || kid.[0] <> 'K' then raise Bad;
       let name = "k" ^ string_of_int (int_of (String.sub kid 1 (String.length kid - 1))) in
       let tv = (int_of tv <> 0) in
       let defs = parse_defs defs in
       let ps = parse_params defs params in
       let calls = List.map (fun c ->
         if c = "-" then [] else List.map parse_arg (String.split_on_char ',' c)) calls in
       (match params_meta kv ps with
        | None -> ("BUILDERR", "BUILDERR")
        | Some sig_ ->
          let f = String.concat "" (List.map (fun args -> vchar (run_fresh kv tv sig_ args)) calls) in
          let c = String.concat "" (List.map (fun args -> vchar (run_cached kv tv (cl_of_string name) sig_ args)) calls) in
          let v = String.concat "" (List.map (fun args -> if tv then vchar (required sig_ args) else "O") calls) in
          ("F:" ^ f ^ " C:" ^ c, "V:" ^ v))
     | _ -> raise Bad)

let () =
  try
    while true do
      let line = input_line stdin in
      let (r, s) = try run_case line with Bad | Not_found | Failure _ | Invalid_argument _ -> ("BADCASE", "BADCASE") in
      print_string ("R " ^ r ^ "\n");
      print_string ("S " ^ s ^ "\n")
    done
  with End_of_file -> ()
