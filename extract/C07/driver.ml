(* C07 model driver: one history per line, tokens
     E<p>=<val>:<i1>,<i2>,...[^o|^f]   edit file p (0 = kernel source): rest-of-text number val, #include list
     D<p>                       delete file p
     B                          build (fresh process, shared cache directory)
   prints  R <b1>;<b2>;...  one item per build: C:<v0>,<mask> (compiled now) | L:<v0>,<mask> (cached binary
                            loaded) | F (build failed) | D (applyDependencyHash did not return)
           S <s1>;<s2>;...  what a fresh compilation of the current texts computes: <v0>,<mask> | F
   v0 = val of the kernel source, mask = OR of 2^(m-1) over the included files, m = val mod 7 > 0 (the macro X<m> the
   file defines; val div 7 = which of its #include lines use the angle-bracket form, part of the text only).
   C07_VARIANT=pinned runs the model of the code before fixes/C07-1.patch. *)
let variant = match Sys.getenv_opt "C07_VARIANT" with Some "pinned" -> Pinned | _ -> Fixed

let values (s : (nat * contents) list) : string =
  match s with
  | [] -> "F"
  | (_, r) :: rest ->
    let mask = List.fold_left (fun m (_, c) -> let v = int_of_nat c.val0 mod 7 in if v > 0 then m lor (1 lsl (v - 1)) else m) 0 rest in
    Printf.sprintf "%d,%d" (int_of_nat r.val0) mask

let parse_op (t : string) : op option =
  if t = "B" then Some Build
  else if String.length t >= 2 && t.[0] = 'D' then Some (Delete (nat_of_int (int_of_string (String.sub t 1 (String.length t - 1)))))
  else if String.length t >= 4 && t.[0] = 'E' then begin
    (* "^o" / "^f": the harness gives the file an old / a future timestamp; contents only matter here *)
    let t = match String.index_opt t '^' with Some i -> String.sub t 0 i | None -> t in
    let e = String.index t '=' and c = String.index t ':' in
    let p = int_of_string (String.sub t 1 (e - 1)) in
    let v = int_of_string (String.sub t (e + 1) (c - e - 1)) in
    let incs = split_on ',' (String.sub t (c + 1) (String.length t - c - 1)) in
    Some (Edit (nat_of_int p, { incs = List.map (fun x -> nat_of_int (int_of_string x)) incs; val0 = nat_of_int v }))
  end else None

let () =
  try
    while true do
      let line = input_line stdin in
      (try
        let ops = List.filter_map parse_op (split_on ' ' line) in
        let outs = run variant init ops in
        let r = List.map (fun (_, o) -> match o with
          | Ran (s, compiled) -> (if compiled then "C:" else "L:") ^ values s
          | Failed -> "F" | Diverged -> "D") outs in
        let s = List.map (fun (fs, _) -> match current fs with Some s -> values s | None -> "F") outs in
        Printf.printf "R %s\nS %s\n%!" (String.concat ";" r) (String.concat ";" s)
      with Not_found | Failure _ | Invalid_argument _ -> Printf.printf "R BAD\nS BAD\n%!")
    done
  with End_of_file -> ()
