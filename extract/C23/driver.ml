(* C23 model driver: one case per line; prints the model's observations (R) and the
   specification's (S), one token per operation.

   A <mode> <ty> <ts> <ti> <xs> op ...      occa::array<int|long> with contents xs (csv or -),
                                            setTileSize(ts, ti) unless both are 0
   R <mode> <ctor> <ts> <ti> - op ...       occa::range; ctor = 1:e | 2:s:e | 3:s:e:st
   F <mode> - - - - <outer>/<inner>         occa::forLoop; iterations separated by ','
                                            r:s:e:st:tile | n:N:tile | a:v;v;v:tile
   array ops   ev:P so:P fi:P fc mp:G mt:G:m rd:K:arity:c ri:K:c:init mx mn io:c li:c in:c dp:csv
               cl:lo_hi cn:lo cx:hi rv sl:k_e sr:k_e ca fl:c sc:o_c cc:o_c len
   P = ve<c> | vl<c> | ie<k> | pe<c> | m3<c>        G = l<a>_<b> | x<a>_<b> | nx
   K = sum mul bor band bxor lor land min max
   range ops   ev:P so:P fi:P fc mp:a_b ta rd:K:c ri:K:c:init len      (P = ve vl m3)
   mode (S = Serial, O = OpenMP) and ty (i = int, l = long) only select sizeof(T) here. *)
let zi = z_of_int
let iz = int_of_z
let ints_of_csv sep s = if s = "-" || s = "~" || s = "" then [] else List.map int_of_string (String.split_on_char sep s)
let zs_of_csv s = List.map zi (ints_of_csv ',' s)
let csv l = if l = [] then "-" else String.concat "," (List.map (fun x -> string_of_int (iz x)) l)
let tail_from s k = String.sub s k (String.length s - k)
let pair s = match String.split_on_char '_' s with
  | [a; b] -> (zi (int_of_string a), zi (int_of_string b))
  | _ -> failwith ("pair " ^ s)

let pred_of s =
  let c = zi (int_of_string (tail_from s 2)) in
  match String.sub s 0 2 with
  | "ve" -> PValEq c | "vl" -> PValLt c | "ie" -> PIdxEq c | "pe" -> PPtrEq c | "m3" -> PMod3 c
  | _ -> failwith ("pred " ^ s)
let mapf_of s =
  if s = "nx" then MNext else
  let (a, b) = pair (tail_from s 1) in
  match s.[0] with 'l' -> MLin (a, b) | 'x' -> MIdx (a, b) | _ -> failwith ("mapf " ^ s)
let kind_of = function
  | "sum" -> KSum | "mul" -> KMul | "bor" -> KBor | "band" -> KBand | "bxor" -> KBxor
  | "lor" -> KLor | "land" -> KLand | "min" -> KMin | "max" -> KMax | s -> failwith ("kind " ^ s)
let zint s = zi (int_of_string s)

let aop_of tok =
  match String.split_on_char ':' tok with
  | ["ev"; p] -> AEvery (pred_of p) | ["so"; p] -> ASome (pred_of p) | ["fi"; p] -> AFind (pred_of p)
  | ["fc"] -> ACount
  | ["mp"; g] -> AMap (mapf_of g)
  | ["mt"; g; m] -> AMapTo (mapf_of g, zint m)
  | ["rd"; k; a; c] -> AReduce (kind_of k, zint a, zint c)
  | ["ri"; k; c; i] -> AReduceInit (kind_of k, zint c, zint i)
  | ["mx"] -> AMax | ["mn"] -> AMin
  | ["io"; c] -> AIndexOf (zint c) | ["li"; c] -> ALastIndexOf (zint c) | ["in"; c] -> AIncludes (zint c)
  | ["dp"; l] -> ADot (zs_of_csv l)
  | ["cl"; p] -> let (a, b) = pair p in AClamp (a, b)
  | ["cn"; c] -> AClampMin (zint c) | ["cx"; c] -> AClampMax (zint c)
  | ["rv"] -> AReverse
  | ["sl"; p] -> let (a, b) = pair p in AShiftL (a, b)
  | ["sr"; p] -> let (a, b) = pair p in AShiftR (a, b)
  | ["ca"] -> ACast
  | ["fl"; c] -> AFill (zint c)
  | ["sc"; p] -> let (a, b) = pair p in ASlice (a, b)
  | ["cc"; p] -> let (a, b) = pair p in AConcat (a, b)
  | ["len"] -> ALen
  | _ -> failwith ("aop " ^ tok)

let rop_of tok =
  match String.split_on_char ':' tok with
  | ["ev"; p] -> REvery (pred_of p) | ["so"; p] -> RSome (pred_of p) | ["fi"; p] -> RFind (pred_of p)
  | ["fc"] -> RCount
  | ["mp"; p] -> let (a, b) = pair p in RMap (a, b)
  | ["ta"] -> RToArray
  | ["rd"; k; c] -> RReduce (kind_of k, zint c)
  | ["ri"; k; c; i] -> RReduceInit (kind_of k, zint c, zint i)
  | ["len"] -> RLen
  | _ -> failwith ("rop " ^ tok)

let show sorted o =
  match o with
  | OZ z -> string_of_int (iz z)
  | OL l -> if sorted then csv (List.map zi (List.sort compare (List.map iz l))) else csv l
  | OCrash -> "CRASH" | ODiverge -> "DIVERGE" | OErr -> "E"

let range_of s =
  match String.split_on_char ':' s with
  | ["1"; e] -> range1 (zint e)
  | ["2"; a; e] -> range2 (zint a) (zint e)
  | ["3"; a; e; st] -> range3 (zint a) (zint e) (zint st)
  | _ -> failwith ("range " ^ s)

let iter_of s =
  match String.split_on_char ':' s with
  | ["r"; a; e; st; t] -> IRange (range3 (zint a) (zint e) (zint st), zint t)
  | ["n"; n; t] -> IRange (range1 (zint n), zint t)
  | ["a"; l; t] -> IArray (List.map zi (ints_of_csv ';' l), zint t)
  | _ -> failwith ("iter " ^ s)
let iters_of s = if s = "" then [] else List.map iter_of (String.split_on_char ',' s)

(* executed tuples, sorted, with multiplicities: 1.2*1 1.3*2 ... ; - when the body never ran *)
let show_tuples (ts : z list list) =
  let l = List.sort compare (List.map (List.map iz) ts) in
  let rec groups = function
    | [] -> []
    | x :: t ->
      let same, rest = List.partition (fun y -> y = x) t in
      (x, 1 + List.length same) :: groups rest in
  match groups l with
  | [] -> "-"
  | g -> String.concat " " (List.map (fun (t, c) ->
           String.concat "." (List.map string_of_int t) ^ "*" ^ string_of_int c) g)

let () =
  try
    while true do
      let line = input_line stdin in
      let toks = split_on ' ' line in
      (try
        match toks with
        | "A" :: _mode :: ty :: ts :: ti :: xs :: ops ->
          let esz = zi (if ty = "l" then 8 else 4) in
          let (mts, mti) = if ts = "0" && ti = "0" then (zi (-1), zi (-1)) else set_tile (zint ts) (zint ti) in
          let st = ref { a_xs = zs_of_csv xs; a_ts = mts; a_ti = mti; a_esz = esz; a_rb = rb_none } in
          let sx = ref (zs_of_csv xs) in
          let r = Buffer.create 64 and s = Buffer.create 64 in
          List.iter (fun tok ->
            let op = aop_of tok in
            let (st', o) = model_aop fixed !st op in
            st := st';
            let (sx', so) = spec_aop !sx op in
            sx := sx';
            Buffer.add_string r (" " ^ show false o); Buffer.add_string s (" " ^ show false so)) ops;
          if ops = [] then (Buffer.add_string r " -"; Buffer.add_string s " -");
          print_string ("R" ^ Buffer.contents r ^ "\nS" ^ Buffer.contents s ^ "\n")
        | "R" :: _mode :: ctor :: ts :: ti :: _ :: ops ->
          let rg = range_of ctor in
          let (mts, mti) = if ts = "0" && ti = "0" then (zi (-1), zi (-1)) else set_tile (zint ts) (zint ti) in
          let rb = ref rb_none in
          let r = Buffer.create 64 and s = Buffer.create 64 in
          List.iter (fun tok ->
            let op = rop_of tok in
            let (rb', o) = model_rop fixed rg mts mti !rb op in
            rb := rb';
            let so = spec_rop rg op in
            let sorted = (tok = "fc") in
            Buffer.add_string r (" " ^ show sorted o); Buffer.add_string s (" " ^ show sorted so)) ops;
          if ops = [] then (Buffer.add_string r " -"; Buffer.add_string s " -");
          print_string ("R" ^ Buffer.contents r ^ "\nS" ^ Buffer.contents s ^ "\n")
        | ["F"; _mode; _; _; _; _; its] ->
          let (o, i) = match String.split_on_char '/' its with
            | [o; i] -> (iters_of o, iters_of i) | _ -> failwith "iters" in
          let r = match model_forloop fixed o i with
            | Ok l -> show_tuples l | Crash -> "CRASH" | Diverge -> "DIVERGE" in
          print_string ("R " ^ r ^ "\nS " ^ show_tuples (spec_forloop o i) ^ "\n")
        | _ -> failwith "case"
      with Failure m | Invalid_argument m -> print_string ("R BADCASE " ^ m ^ "\nS BADCASE\n")
         | Not_found -> print_string "R BADCASE\nS BADCASE\n");
      flush stdout
    done
  with End_of_file -> ()
