(* C19 model driver.  One case per line:
     DM <n> order <o_0 .. o_{n-1}> | id  { env a b c d }+ dims <toks> { , <toks> } args <toks> { , <toks> }
   (`order id` = no @dimOrder attribute).  Output:
     R T <index text> | V <values>     Model.index_tree d_current printed by Expr.print; its value read back
     S V <values>                      Spec.mixed_radix of the values of the written arguments / dimensions
   values per env: the index, or UB when the 32-bit evaluation of the re-read text is undefined. *)
open Common

let split_commas (ts : string list) : string list list =
  let rec go cur acc = function
    | [] -> List.rev (List.rev cur :: acc)
    | "," :: r -> go [] (List.rev cur :: acc) r
    | t :: r -> go (t :: cur) acc r in
  go [] [] ts

let () =
  try
    while true do
      let line = input_line stdin in
      let toks = split_on ' ' line in
      let r, s =
        try
          (match toks with
           | "DM" :: n :: "order" :: rest ->
             let n = int_of_string n in
             if n < 1 || n > 6 then raise (Malformed "arity");
             let rec before kws = function [] -> [] | t :: _ when List.mem t kws -> [] | t :: r -> t :: before kws r in
             let rec from kw = function [] -> [] | t :: r when t = kw -> r | _ :: r -> from kw r in
             let ord_toks = before ["env"; "dims"; "args"] rest in
             let order = (match ord_toks with
                 | ["id"] -> List.init n (fun k -> k)
                 | l -> List.map int_of_string l) in
             let order_n = List.map nat_of_int order in
             let envs = List.map (fun e ->
                 match e with
                 | [a; b; c; d] ->
                   let v = Array.map (fun x -> zi (int_of_string x)) [| a; b; c; d |] in
                   (fun (x : z) -> let i = iz x in if i >= 0 && i < 4 then v.(i) else zi 0)
                 | _ -> raise (Malformed "env")) (split_on_kw "env" (before ["dims"] rest)) in
             if envs = [] then raise (Malformed "no env");
             let dims = List.map parse_operand (split_commas (before ["args"] (from "dims" rest))) in
             let args = List.map parse_operand (split_commas (from "args" rest)) in
             if List.length dims <> n || List.length args <> n then raise (Malformed "arity");
             if not (wf_dim dims args) then raise (Malformed "wf");
             (* an argument of a call / attribute cannot be a comma expression; anything else goes *)
             if not (valid_order (nat_of_int n) order_n) then ("ERR", "ERR") else begin
               let v = d_current in
               match index_tree v order_n dims args with
               | None -> ("ERR", "ERR")
               | Some t ->
                 let vals = List.map (fun rho ->
                     match index_value_c v rho order_n dims args with
                     | Some x -> string_of_int (iz x)
                     | None -> "UB") envs in
                 let spec = List.map (fun rho ->
                     (* a value the written arguments do not have (undefined behaviour in an argument or
                        a dimension) is nobody's promise *)
                     let ds = List.map (evalc rho) dims and xs = List.map (evalc rho) args in
                     if List.exists (fun o -> o = None) (ds @ xs) then "UB" else
                       let get l = List.map (function Some x -> x | None -> zi 0) l in
                       string_of_int (iz (mixed_radix order_n (get ds) (get xs)))) envs in
                 ("T " ^ text "o" t ^ " | V " ^ String.concat " ; " vals, "V " ^ String.concat " ; " spec)
             end
           | _ -> raise (Malformed "case"))
        with
        | Malformed _ | Failure _ | Invalid_argument _ | Not_found -> ("ERR", "ERR")
      in
      print_string ("R " ^ r ^ "\n");
      print_string ("S " ^ s ^ "\n")
    done
  with End_of_file -> ()
