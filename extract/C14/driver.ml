(* C14 model driver.  One constant expression (C text, tokens may or may not be separated by
   spaces) per stdin line.  Prints per case
     R <kind> <value> | R ERR | R UB      the model of OCCA's folder (Model.eval, configuration
                                          `fixed`, or `pinned` when C14_CFG=pinned)
     S <kind> <value> | S UNDEF           the C++17/LP64 specification (Spec.cpp_eval)
   kind: b i8 u8 i16 u16 i32 u32 i64 u64 f32 f64; value: decimal, floats as IEEE bit patterns (hex).
   With argument --guards it prints instead "R <tags>": which known-finding guards of Spec.v are
   false on the case (tilde_bool bitop_bool ternary_type), "-" when none.
   With argument --ranks it prints the model's primitiveType rank table and exits.

   Trusted here: the lexer/parser below (C precedence, literal syntax -> Syntax.ilit) and the
   instantiation of the float interface with OCaml doubles (binary32 = doubles kept rounded to
   single; + - * / rounded once more from the double result, which is exact double rounding
   for these operations; integer -> float conversions rounded once, see f_of_z). *)

(* ---------- Z <-> machine integers (values up to 2^64) *)
let rec u64_of_pos (p : positive) : int64 =
  match p with
  | XH -> 1L
  | XO q -> Int64.shift_left (u64_of_pos q) 1
  | XI q -> Int64.logor (Int64.shift_left (u64_of_pos q) 1) 1L
let rec pos_of_u64 (m : int64) : positive =
  if m = 1L then XH
  else
    let q = pos_of_u64 (Int64.shift_right_logical m 1) in
    if Int64.logand m 1L = 0L then XO q else XI q
let z_of_u64 (m : int64) : z = if m = 0L then Z0 else Zpos (pos_of_u64 m)
let string_of_zbig (x : z) : string =
  match x with
  | Z0 -> "0"
  | Zpos p -> Printf.sprintf "%Lu" (u64_of_pos p)
  | Zneg p -> "-" ^ Printf.sprintf "%Lu" (u64_of_pos p)

(* ---------- the float interface on OCaml doubles *)
let r32 (x : float) : float = Int32.float_of_bits (Int32.bits_of_float x)
let fl s x = if s then r32 x else x
(* magnitude m (unsigned 64-bit) to double, correctly rounded *)
let double_of_u64 (m : int64) : float =
  if Int64.compare m 0L >= 0 then Int64.to_float m
  else
    let half = Int64.logor (Int64.shift_right_logical m 1) (Int64.logand m 1L) in
    Int64.to_float half *. 2.0
(* magnitude to a double that rounds to the same binary32 as m itself (sticky low bits) *)
let sticky_double_of_u64 (m : int64) : float =
  if Int64.compare m 0L >= 0 && Int64.compare m (Int64.shift_left 1L 53) < 0 then Int64.to_float m
  else
    let lo = Int64.logand m 0x7FFL in
    let hi = Int64.shift_right_logical m 11 in
    let hi = if lo <> 0L then Int64.logor hi 1L else hi in
    Int64.to_float hi *. 2048.0
let f_of_z (s : bool) (x : z) : float =
  let mag p = let m = u64_of_pos p in if s then r32 (sticky_double_of_u64 m) else double_of_u64 m in
  match x with Z0 -> 0.0 | Zpos p -> mag p | Zneg p -> -. (mag p)
let fbits_z (s : bool) (x : float) : z =
  if s then z_of_u64 (Int64.logand (Int64.of_int32 (Int32.bits_of_float x)) 0xFFFFFFFFL)
  else z_of_u64 (Int64.bits_of_float x)

let ops : float fops = {
  fadd = (fun s a b -> fl s (a +. b));
  fsub = (fun s a b -> fl s (a -. b));
  fmul = (fun s a b -> fl s (a *. b));
  fdiv = (fun s a b -> fl s (a /. b));
  fneg = (fun a -> -. a);
  flt = (fun a b -> a < b);
  fle = (fun a b -> a <= b);
  feq = (fun a b -> a = b);
  fnonzero = (fun a -> a <> 0.0);
  ffinite = (fun a -> Float.is_finite a);
  f_of_Z = f_of_z;
  f64_of_f32 = (fun a -> a);
  f32_of_f64 = r32;
  fbits = fbits_z;
}

(* ---------- lexer *)
type tok = TLit of float lit | TOp of string | TBad

let is_digit c = c >= '0' && c <= '9'
let is_alnum c = is_digit c || (c >= 'a' && c <= 'z') || (c >= 'A' && c <= 'Z') || c = '_'

let digit_val c =
  match c with
  | '0'..'9' -> Char.code c - 48
  | 'a'..'f' -> Char.code c - 87
  | 'A'..'F' -> Char.code c - 55
  | _ -> 99

(* suffix of an integer literal: u/U at most once, l/L count; anything else -> None *)
let parse_suffix (s : string) : (bool * int) option =
  let uns = ref 0 and longs = ref 0 and bad = ref false in
  String.iter (fun c -> match c with
    | 'u' | 'U' -> incr uns
    | 'l' | 'L' -> incr longs
    | _ -> bad := true) s;
  if !bad || !uns > 1 || !longs > 2 then None else Some (!uns = 1, !longs)

let split_digits (pred : char -> bool) (s : string) (from : int) : string * string =
  let n = String.length s in
  let i = ref from in
  while !i < n && pred s.[!i] do incr i done;
  (String.sub s from (!i - from), String.sub s !i (n - !i))

let mk_int b digits suffix : tok =
  match parse_suffix suffix with
  | None -> TBad
  | Some (u, l) ->
    let ds = List.init (String.length digits) (fun i -> z_of_int (digit_val digits.[i])) in
    TLit (LInt { l_base = b; l_digits = ds; l_uns = u; l_longs = z_of_int l })

let lit_of_word (w : string) : tok =
  let n = String.length w in
  if w = "true" then TLit (LBool true)
  else if w = "false" then TLit (LBool false)
  else if n >= 2 && w.[0] = '0' && (w.[1] = 'x' || w.[1] = 'X') then
    let (d, suf) = split_digits (fun c -> digit_val c < 16) w 2 in
    if d = "" then TBad else mk_int Hex d suf
  else if n >= 2 && w.[0] = '0' && (w.[1] = 'b' || w.[1] = 'B') then
    let (d, suf) = split_digits (fun c -> c = '0' || c = '1') w 2 in
    if d = "" then TBad else mk_int Bin d suf
  else if String.contains w '.' || String.contains w 'e' || String.contains w 'E' then begin
    (* floating literal: optional f/F suffix selects binary32 *)
    let s32 = n > 0 && (w.[n-1] = 'f' || w.[n-1] = 'F') in
    let body = if s32 then String.sub w 0 (n - 1) else w in
    match float_of_string_opt body with
    | Some x when String.length body > 0 && (is_digit body.[0] || body.[0] = '.') ->
      TLit (LFloat (s32, if s32 then r32 x else x))
    | _ -> TBad
  end
  else if n >= 1 && w.[0] = '0' then
    let (d, suf) = split_digits is_digit w 1 in
    mk_int Oct d suf
  else if n >= 1 && is_digit w.[0] then
    let (d, suf) = split_digits is_digit w 0 in
    mk_int Dec d suf
  else TBad

let ops2 = ["<<"; ">>"; "<="; ">="; "=="; "!="; "&&"; "||"]

let lex (s : string) : tok list =
  let n = String.length s in
  let rec go i acc =
    if i >= n then List.rev acc
    else
      let c = s.[i] in
      if c = ' ' || c = '\t' then go (i + 1) acc
      else if is_alnum c || (c = '.' && i + 1 < n && is_digit s.[i+1]) then begin
        (* a pp-number / identifier: letters, digits, '.', and a sign right after e/E in a non-hex number *)
        let j = ref i in
        let hex = i + 1 < n && c = '0' && (s.[i+1] = 'x' || s.[i+1] = 'X') in
        let continue_ = ref true in
        while !continue_ && !j < n do
          let d = s.[!j] in
          if is_alnum d || d = '.' then incr j
          else if (d = '+' || d = '-') && !j > i && (s.[!j-1] = 'e' || s.[!j-1] = 'E') && not hex && is_digit c then incr j
          else continue_ := false
        done;
        go !j (lit_of_word (String.sub s i (!j - i)) :: acc)
      end
      else if i + 1 < n && List.mem (String.sub s i 2) ops2 then go (i + 2) (TOp (String.sub s i 2) :: acc)
      else if String.contains "+-*/%<>&|^~!?:()" c then go (i + 1) (TOp (String.make 1 c) :: acc)
      else go (i + 1) (TBad :: acc)
  in
  go 0 []

(* ---------- parser (C precedence) *)
exception Parse_error

let binop_of (s : string) : (binop * int) option =
  match s with
  | "*" -> Some (Mul, 10) | "/" -> Some (Div, 10) | "%" -> Some (Mod, 10)
  | "+" -> Some (Add, 9) | "-" -> Some (Sub, 9)
  | "<<" -> Some (Shl, 8) | ">>" -> Some (Shr, 8)
  | "<" -> Some (Lt0, 7) | "<=" -> Some (Le, 7) | ">" -> Some (Gt0, 7) | ">=" -> Some (Ge, 7)
  | "==" -> Some (Eq0, 6) | "!=" -> Some (Ne, 6)
  | "&" -> Some (BAnd, 5) | "^" -> Some (BXor, 4) | "|" -> Some (BOr, 3)
  | "&&" -> Some (LAnd, 2) | "||" -> Some (LOr, 1)
  | _ -> None

let parse (toks : tok list) : float expr =
  let rest = ref toks in
  let peek () = match !rest with t :: _ -> Some t | [] -> None in
  let advance () = match !rest with _ :: r -> rest := r | [] -> raise Parse_error in
  let rec primary () =
    match peek () with
    | Some (TLit l) -> advance (); ELit l
    | Some (TOp "(") ->
      advance ();
      let e = ternary () in
      (match peek () with Some (TOp ")") -> advance (); e | _ -> raise Parse_error)
    | Some (TOp "!") -> advance (); EUn (UNot, primary ())
    | Some (TOp "+") -> advance (); EUn (UPlus, primary ())
    | Some (TOp "-") -> advance (); EUn (UNeg, primary ())
    | Some (TOp "~") -> advance (); EUn (UTilde, primary ())
    | _ -> raise Parse_error
  and binary (minp : int) =
    let lhs = ref (primary ()) in
    let continue_ = ref true in
    while !continue_ do
      match peek () with
      | Some (TOp s) ->
        (match binop_of s with
         | Some (o, p) when p >= minp ->
           advance ();
           let rhs = binary (p + 1) in
           lhs := EBin (o, !lhs, rhs)
         | _ -> continue_ := false)
      | _ -> continue_ := false
    done;
    !lhs
  and ternary () =
    let c = binary 1 in
    match peek () with
    | Some (TOp "?") ->
      advance ();
      let a = ternary () in
      (match peek () with
       | Some (TOp ":") -> advance (); let b = ternary () in ETern (c, a, b)
       | _ -> raise Parse_error)
    | _ -> c
  in
  let e = ternary () in
  if !rest <> [] then raise Parse_error;
  e

(* ---------- printing *)
let kind_name (k : ikind) : string =
  match k with
  | KBool -> "b" | KI8 -> "i8" | KU8 -> "u8" | KI16 -> "i16" | KU16 -> "u16"
  | KI32 -> "i32" | KU32 -> "u32" | KI64 -> "i64" | KU64 -> "u64"

let show_float s f =
  if s then Printf.sprintf "f32 %08lx" (Int32.bits_of_float f)
  else Printf.sprintf "f64 %016Lx" (Int64.bits_of_float f)

let show_res (r : float res) : string =
  match r with
  | Val (PI (k, v)) -> kind_name k ^ " " ^ string_of_zbig v
  | Val (PF (s, f)) -> show_float s f
  | Err -> "ERR"
  | UB -> "UB"

let ityp_name (t : ityp) : string =
  match t with
  | TBool -> "b" | TInt -> "i32" | TUInt -> "u32"
  | TLong | TLLong -> "i64" | TULong | TULLong -> "u64"

let show_spec (v : float cval option) : string =
  match v with
  | None -> "UNDEF"
  | Some (CI (t, z)) -> ityp_name t ^ " " ^ string_of_zbig z
  | Some (CFl f) -> show_float true f
  | Some (CDb f) -> show_float false f

let () =
  let mode = if Array.length Sys.argv > 1 then Sys.argv.(1) else "" in
  if mode = "--ranks" then begin
    List.iter (fun (n, k) -> Printf.printf "%s %d\n" n (int_of_z (irank k)))
      ["bool_", KBool; "int8_", KI8; "uint8_", KU8; "int16_", KI16; "uint16_", KU16;
       "int32_", KI32; "uint32_", KU32; "int64_", KI64; "uint64_", KU64];
    Printf.printf "float_ %d\ndouble_ %d\n" (int_of_z rank_float) (int_of_z rank_double);
    exit 0
  end;
  let cfg = match Sys.getenv_opt "C14_CFG" with Some "pinned" -> pinned | _ -> fixed in
  try
    while true do
      let line = input_line stdin in
      let e = try Some (let ts = lex line in if List.mem TBad ts then raise Parse_error else parse ts)
        with Parse_error -> None in
      if mode = "--guards" then begin
        match e with
        | None -> print_string "R -\n"
        | Some e ->
          let tags =
            (if no_tilde_bool e then [] else ["tilde_bool"]) @
            (if no_bitop_bool e then [] else ["bitop_bool"]) @
            (if tern_same_type e then [] else ["ternary_type"]) in
          print_string ("R " ^ (if tags = [] then "-" else String.concat "," tags) ^ "\n")
      end else begin
        match e with
        | None -> print_string "R ERR\nS UNDEF\n"
        | Some e ->
          print_string ("R " ^ show_res (eval ops cfg e) ^ "\n");
          print_string ("S " ^ show_spec (cpp_eval ops e) ^ "\n")
      end
    done
  with End_of_file -> ()
