(* C01 model driver: one history per line; prints the model's observation (R) and the
   specification's (S).  Case syntax (tokens separated by spaces):
     H0|H1            live counters of the hook are (not) part of the observation   (first token)
     V<s><r><i>       code variant: swap fixed / freeRing by reference / pool detaches its buffer
     nd:D  nm:M:D:<bytes>  np:P:D  nr:M:P  sl:M:M'  nk:K:D  ns:S:D  nt:T:D  gs:S:D
     cp:X:Y  as:X:Y  sw:X:Y  fr:X  dr:X  du:X  end
   Variables: D0 D1 M0..M4 P0..P2 K0 K1 S0..S2 T0 T1.
   Observation: per operation  <d|k|e> I<bits> O<bits> [C<counters>] B<bytes> R<rings>  joined by ';'
   (the specification prints no R part); "UB" ends the model's line when the model reaches
   undefined behaviour. *)
let var_names = [| "D0";"D1";"M0";"M1";"M2";"M3";"M4";"P0";"P1";"P2";"K0";"K1";"S0";"S1";"S2";"T0";"T1" |]
let nvars = Array.length var_names
let var_index name =
  let r = ref (-1) in
  Array.iteri (fun i n -> if n = name then r := i) var_names;
  if !r < 0 then failwith ("bad variable " ^ name) else !r
let kind_of_name n = match n.[0] with
  | 'D' -> KDev | 'M' -> KMem | 'P' -> KPool | 'K' -> KKer | 'S' -> KStr | 'T' -> KTag
  | _ -> failwith "kind"
let vkind (v : nat) : kind =
  let i = int_of_nat v in
  if i < nvars then kind_of_name var_names.(i) else KDev
let nv name = nat_of_int (var_index name)
let all_vars = List.init nvars nat_of_int

let parse_op tok =
  match String.split_on_char ':' tok with
  | ["nd"; d] -> ONewDev (nv d)
  | ["nm"; m; d; b] -> OMalloc (nv m, nv d, z_of_int (int_of_string b))
  | ["np"; p; d] -> OPool (nv p, nv d)
  | ["nr"; m; p] -> OReserve (nv m, nv p)
  | ["sl"; m; m'] -> OSlice (nv m, nv m')
  | ["nk"; k; d] -> OLeaf (KKer, nv k, nv d)
  | ["ns"; k; d] -> OLeaf (KStr, nv k, nv d)
  | ["nt"; k; d] -> OLeaf (KTag, nv k, nv d)
  | ["gs"; s; d] -> OGetStream (nv s, nv d)
  | ["cp"; x; y] -> OCopy (nv x, nv y)
  | ["as"; x; y] -> OAssign (nv x, nv y)
  | ["sw"; x; y] -> OSwap (nv x, nv y)
  | ["fr"; x] -> OFree (nv x)
  | ["dr"; x] -> ODrop (nv x)
  | ["du"; x] -> ODontUseRefs (nv x)
  | ["end"] -> OEnd all_vars
  | _ -> failwith ("bad token " ^ tok)

let status_s = function Done -> "d" | Skip -> "k" | Err -> "e"
let kind_letter = function KDev -> "D" | KBuf -> "B" | KPool -> "P" | KMem -> "M" | KKer -> "K" | KStr -> "S" | KTag -> "T"
let classes = [KDev; KBuf; KMem; KPool; KKer; KStr; KTag]

(* ---- model side *)
let cells (s : st) = List.init (int_of_nat s.nxt) (fun i -> i)
let is_obj s i = match s.tagof (nat_of_int i) with TO _ -> true | _ -> false
let obj_kind s i = match s.tagof (nat_of_int i) with TO k -> k | _ -> KDev

let model_obs (hook : bool) (s : st) : string =
  let ibits = String.concat "" (List.map (fun v ->
      match s.vars v with
      | None -> "."
      | Some h -> (match s.hptr h with None -> "0" | Some _ -> "1")) all_vars) in
  let objs = List.filter (is_obj s) (cells s) in
  let prim = List.filter (fun i -> obj_kind s i <> KBuf) objs in
  let obits = String.concat "" (List.map (fun i -> if s.alive (nat_of_int i) then "1" else "0") prim) in
  let cnt = String.concat "," (List.map (fun k -> string_of_int (int_of_nat (live_count s k))) classes) in
  let devs = List.filter (fun i -> obj_kind s i = KDev) objs in
  let bytes = String.concat "," (List.map (fun i ->
      if s.alive (nat_of_int i) then string_of_int (int_of_z (s.obytes (nat_of_int i))) else "-") devs) in
  (* ring dumps *)
  let obj_index = Hashtbl.create 16 in
  List.iteri (fun n i -> Hashtbl.replace obj_index i n) objs;
  let hname h =
    let hi = int_of_nat h in
    let r = ref None in
    List.iter (fun v -> match s.vars v with Some h' when int_of_nat h' = hi -> r := Some var_names.(int_of_nat v) | _ -> ()) all_vars;
    match !r with
    | Some n -> n
    | None ->
      let c = ref "?" in
      List.iter (fun i -> if obj_kind s i = KDev && s.alive (nat_of_int i) && int_of_nat (s.ocur (nat_of_int i)) = hi
                  then c := "c" ^ string_of_int (Hashtbl.find obj_index i)) objs;
      !c in
  let oname e = match Hashtbl.find_opt obj_index (int_of_nat e) with Some n -> string_of_int n | None -> "?" in
  let ring o sl f = "(" ^ String.concat "," (List.map f (ring_list s (nat_of_int o) sl)) ^ ")" in
  let rings = String.concat "/" (List.filter_map (fun i ->
      if not (s.alive (nat_of_int i)) then None else
      let k = obj_kind s i in
      let base = string_of_int (Hashtbl.find obj_index i) ^ kind_letter k in
      Some (match k with
          | KDev -> base ^ ring i SH hname ^ "k" ^ ring i SKer oname ^ "b" ^ ring i SBuf oname
                    ^ "s" ^ ring i SStr oname ^ "t" ^ ring i STag oname
          | KBuf -> base ^ "m" ^ ring i SMem oname
          | KPool -> base ^ ring i SH hname ^ "m" ^ ring i SMem oname
          | _ -> base ^ ring i SH hname)) objs) in
  "I" ^ ibits ^ " O" ^ obits ^ (if hook then " C" ^ cnt else "") ^ " B" ^ bytes ^ " R" ^ rings

(* ---- specification side *)
let spec_obs (hook : bool) (s : sst) : string =
  let ibits = String.concat "" (List.map (fun v ->
      match s.svars v with None -> "." | Some None -> "0" | Some (Some _) -> "1") all_vars) in
  let obits = String.concat "" (List.map (fun x -> if x.so_alive then "1" else "0") s.objs) in
  let c k = int_of_nat (count_kind s k) in
  let cnt = String.concat "," (List.map string_of_int
      [c KDev; int_of_nat (count_buffers s); c KMem; c KPool; c KKer; c KStr; c KTag]) in
  let bytes = String.concat "," (List.filter_map (fun x -> x)
      (List.mapi (fun i x -> if x.so_kind = KDev then
                     Some (if x.so_alive then string_of_int (int_of_z (dev_bytes s (nat_of_int i))) else "-")
                   else None) s.objs)) in
  "I" ^ ibits ^ " O" ^ obits ^ (if hook then " C" ^ cnt else "") ^ " B" ^ bytes

let () =
  try
    while true do
      let line = input_line stdin in
      let toks = split_on ' ' line in
      let hook = ref true and variant = ref fixed in
      let ops = List.filter (fun t ->
          if t = "H0" then (hook := false; false)
          else if t = "H1" then (hook := true; false)
          else if String.length t = 4 && t.[0] = 'V' then
            (variant := { v_swap = (t.[1] = '1'); v_byref = (t.[2] = '1'); v_inner = (t.[3] = '1') }; false)
          else true) toks in
      let ops = List.map parse_op ops in
      (* model *)
      let rb = Buffer.create 256 in
      let st = ref (Some init) in
      List.iter (fun o ->
          match !st with
          | None -> ()
          | Some s ->
            if Buffer.length rb > 0 then Buffer.add_char rb ';';
            (match step !variant vkind o s with
             | None -> Buffer.add_string rb "UB"; st := None
             | Some (stat, s') ->
               Buffer.add_string rb (status_s stat ^ " " ^ model_obs !hook s'); st := Some s')) ops;
      (* specification *)
      let sb = Buffer.create 256 in
      let ss = ref sinit in
      List.iter (fun o ->
          if Buffer.length sb > 0 then Buffer.add_char sb ';';
          let (stat, s') = sstep vkind o !ss in
          Buffer.add_string sb (status_s stat ^ " " ^ spec_obs !hook s'); ss := s') ops;
      print_string ("R " ^ Buffer.contents rb ^ "\n");
      print_string ("S " ^ Buffer.contents sb ^ "\n")
    done
  with End_of_file -> ()
