(* C26 model driver: one case per line (syntax: drivers/C26.cpp), prints the model's observation
   (R) and the specification's (S).  The specification is a function from paths to answers; its
   observation is rebuilt by asking it about every path over the keys that occur in the case
   (plus mode/kernel/memory/stream), so it does not go through any of the model's tree operations.
   `S ?` = the specification does not define the case (an exception is allowed), `k?` etc. likewise
   for the per-call parts.  C26_VARIANT=pinned selects the model of the code before fixes/C26-{1,2}.patch. *)
let explode s = List.init (String.length s) (String.get s)
let implode l = String.concat "" (List.map (String.make 1) l)

let variant = match Sys.getenv_opt "C26_VARIANT" with Some "pinned" -> pinned | _ -> fixed

let parse_value v =
  if v = "" || v.[0] = 'o' then Obj []
  else if v.[0] = 'n' then Leaf (VNum (z_of_int (int_of_string (String.sub v 1 (String.length v - 1)))))
  else Leaf (VStr (explode (String.sub v 1 (String.length v - 1))))

let split_keys p = if p = "" then [] else List.map explode (String.split_on_char '/' p)

let rec dump t = match t with
  | Leaf (VNum n) -> "n" ^ string_of_int (int_of_z n)
  | Leaf (VStr s) ->
    "s" ^ String.concat "" (List.map (fun c -> if c = '\n' then "\\n" else if c = ' ' then "\\_" else String.make 1 c) s)
  | Obj kvs ->
    let l = List.sort compare (List.map (fun (k, c) -> (implode k, c)) kvs) in
    "{" ^ String.concat "," (List.map (fun (k, c) -> k ^ ":" ^ dump c) l) ^ "}"
let dump_json j = match j with None -> "~" | Some t -> dump t

let rec keys_of t acc = match t with
  | Leaf _ -> acc
  | Obj kvs -> List.fold_left (fun a (k, c) -> keys_of c (if List.mem k a then a else k :: a)) acc kvs

(* the tree described by a specification function (depth-bounded: inputs are far shallower) *)
let rec tree_of_spec (f : char list list -> ans) (keys : char list list) (prefix : char list list) (fuel : int) : json =
  match f prefix with
  | ANone -> None
  | ALeaf v -> Some (Leaf v)
  | AObj ->
    if fuel = 0 then Some (Leaf (VStr (explode "DEPTH"))) else
    Some (Obj (List.concat_map (fun k ->
      match tree_of_spec f keys (prefix @ [k]) (fuel - 1) with
      | None -> [] | Some c -> [(k, c)]) keys))

let objects = ["kernel"; "memory"; "stream"]
let tags = [("kernel", "K", "k"); ("memory", "M", "m"); ("stream", "T", "t")]

let () =
  try
    while true do
      let line = input_line stdin in
      let toks = split_on ' ' line in
      let u = ref (Obj []) and s = ref (Obj []) and a = ref None in
      let bad = ref false in
      List.iter (fun tok ->
        match String.index_opt tok '=' with
        | Some e when String.length tok >= 3 && tok.[1] = ':' ->
          let ks = split_keys (String.sub tok 2 (e - 2)) in
          let v = parse_value (String.sub tok (e + 1) (String.length tok - e - 1)) in
          (match tok.[0] with
           | 'U' -> if ks = [] then bad := true else u := tset ks v !u
           | 'S' -> if ks = [] then bad := true else s := tset ks v !s
           | 'A' -> a := Some (tset ks v (match !a with Some t -> t | None -> Obj []))
           | _ -> bad := true)
        | _ -> bad := true) toks;
      if !bad then (print_string "R BADCASE\nS ?\n") else begin
        let u = !u and s = !s and a = !a in
        (* ---- model ---- *)
        let r =
          match setup variant s u with
          | Err -> "ERR"
          | Ok dev ->
            let (m, props) = dev in
            let b = Buffer.create 256 in
            Buffer.add_string b ("mode=" ^ implode m ^ ";P" ^ dump props);
            List.iter (fun (o, tg, _) ->
              Buffer.add_string b (";" ^ tg ^ dump_json (objectProperties dev (explode o)))) tags;
            List.iter (fun (o, _, tg) ->
              Buffer.add_string b (";" ^ tg ^
                (match objectPropertiesWith dev (explode o) a with
                 | Err -> "ERR" | Ok j -> dump_json j))) tags;
            Buffer.contents b in
        print_string ("R " ^ r ^ "\n");
        (* ---- specification ---- *)
        let m = spec_mode u in
        if not (wf_setup m s u) then print_string "S ?\n" else begin
          let keys = List.map explode ("mode" :: objects) in
          let keys = keys_of u (keys_of s (match a with Some t -> keys_of t keys | None -> keys)) in
          let keys = List.sort_uniq compare keys in
          let fuel = 12 in
          let b = Buffer.create 256 in
          Buffer.add_string b ("mode=" ^ implode m ^ ";P" ^ dump_json (tree_of_spec (spec_device m s u) keys [] fuel));
          let kspec o = tree_of_spec (spec_object m (explode o) s u) keys [] fuel in
          List.iter (fun (o, tg, _) -> Buffer.add_string b (";" ^ tg ^ dump_json (kspec o))) tags;
          List.iter (fun (o, _, tg) ->
            Buffer.add_string b (";" ^ tg ^
              (if wf_with m a then dump_json (tree_of_spec (spec_with m (kspec o) a) keys [] fuel) else "?"))) tags;
          print_string ("S " ^ Buffer.contents b ^ "\n")
        end
      end
    done
  with End_of_file -> ()
