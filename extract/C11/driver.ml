(* C11 model driver.  One case per line; tokens separated by spaces (props/C11.py generates them,
   drivers/C11.cpp runs the same script on the real library):
     xK=b:BN            the global builtin object itself (getBuiltin(BN); BN may also be none, memory)
     xK=g:BN            a by-value copy of it (a reference object, like dtype::int8 or dtype::get<T>())
     xK=c:NM:BYTES:REG  dtype_t(NM, BYTES, REG)
     xK=t:SRC:N:REG     dtype_t::tuple(SRC, N) (+ registerType())
     xK=n:NM:SRC:REG    dtype_t(NM, SRC, REG)
     xK=y:SRC           dtype_t(SRC)
     xK=s:NM:BYTES:REG:f=SRC*N,...   dtype_t(NM, BYTES) + addField(f, SRC, N)... (+ registerType())
     xK=u:NM:REG:f=SRC*N,...         fromJson({type:'union',name:NM,fields:[]}) + addField...
     xK=e:NM:BYTES:REG:a,b,...       dtype_t(NM, BYTES) + addEnumerator...
     m:SRC:del@PATH | m:SRC:set@PATH@(i|s|b)@VAL   fromJson of an edited toJson(SRC)
     K:KN:an.C.P.SRC,...             kernelMetadata_t KN with arguments (name, const, ptr, dtype)
   Output:  R <sections joined by " | ">   and   S same
   Sections: "xK O=<view> J=<json> R=<view of the round trip> T=1", "M=<cast matrix of the originals>",
   "N=<cast matrix of the round trips>", "X=<cast original -> round trip>", "E=<view|ERR>",
   "K O=<metadata> J=<json> R=<metadata after the round trip>". *)
let cl_of_string (s : string) : char list = List.init (String.length s) (String.get s)
let string_of_cl (l : char list) : string = String.concat "" (List.map (String.make 1) l)
let zs x = string_of_int (int_of_z x)
let variant =
  match Sys.getenv_opt "VERIF_C11_VARIANT" with
  | Some "pinned" -> pinned
  | _ -> repaired

exception Bad

let rec view_str (v : view) : string =
  let fields fs = String.concat "," (List.map (fun (n, x) -> string_of_cl n ^ ":" ^ view_str x) fs) in
  match v with
  | VBuiltin (n, b) -> "B(" ^ string_of_cl n ^ ";" ^ zs b ^ ")"
  | VCustom (n, b) -> "C(" ^ string_of_cl n ^ ";" ^ zs b ^ ")"
  | VEnum (n, b, es) -> "E(" ^ string_of_cl n ^ ";" ^ zs b ^ ";" ^ String.concat "," (List.map string_of_cl es) ^ ")"
  | VStruct (n, b, fs) -> "S(" ^ string_of_cl n ^ ";" ^ zs b ^ ";" ^ fields fs ^ ")"
  | VTuple (n, b, e, s) -> "T(" ^ string_of_cl n ^ ";" ^ zs b ^ ";" ^ zs s ^ ";" ^ view_str e ^ ")"
  | VUnion (n, b, fs) -> "U(" ^ string_of_cl n ^ ";" ^ zs b ^ ";" ^ fields fs ^ ")"

let vstr d = view_str (view_of d)

let global (bn : string) : dtype =
  if bn = "memory" then g_memory
  else if bn = "none" then g_none
  else
    let g = getBuiltin (cl_of_string bn) in
    if string_of_cl (d_name g) = "none" then raise Bad else g

let some = function Some x -> x | None -> raise Bad
let int_of s = match int_of_string_opt s with Some i -> i | None -> raise Bad
let bool_of s = match s with "1" -> true | "0" -> false | _ -> raise Bad
let var_index (name : string) : int =
  if String.length name < 2 || name.[0] <> 'x' then raise Bad
  else int_of (String.sub name 1 (String.length name - 1))

(* f=SRC*N,g=SRC*N *)
let parse_fields (s : string) : (string * string * int) list =
  if s = "" then [] else
  List.map (fun f ->
    match String.split_on_char '=' f with
    | [fname; rest] ->
      (match String.split_on_char '*' rest with
       | [src; n] -> (fname, src, int_of n)
       | [src] -> (fname, src, 1)
       | _ -> raise Bad)
    | _ -> raise Bad) (String.split_on_char ',' s)

type comp = Key of string | Idx of int
let parse_path s =
  List.map (fun c -> match int_of_string_opt c with Some i -> Idx i | None -> Key c) (String.split_on_char '/' s)

(* apply f to the sub-tree at `path`; f returns None to delete it *)
let rec edit (path : comp list) (f : json option -> json option) (j : json) : json =
  match path, j with
  | [Key k], JObj kv ->
    let kc = cl_of_string k in
    (match f (kv_get kc kv) with
     | None -> JObj (List.filter (fun (k', _) -> k' <> kc) kv)
     | Some v -> jset kc v j)
  | [Idx i], JArr l ->
    if i >= List.length l then raise Bad else
    (match f (Some (List.nth l i)) with
     | None -> JArr (List.filteri (fun n _ -> n <> i) l)
     | Some v -> JArr (List.mapi (fun n x -> if n = i then v else x) l))
  | Key k :: rest, JObj kv ->
    let kc = cl_of_string k in
    (match kv_get kc kv with
     | None -> raise Bad
     | Some sub -> jset kc (edit rest f sub) j)
  | Idx i :: rest, JArr l ->
    if i >= List.length l then raise Bad else
    JArr (List.mapi (fun n x -> if n = i then edit rest f x else x) l)
  | _, _ -> raise Bad

let cast_char a b = match canBeCastedTo a b with Some true -> "1" | Some false -> "0" | None -> "!"

let matrix (xs : dtype list) (ys : dtype list) : string =
  String.concat "/" (List.map (fun a -> String.concat "" (List.map (fun b -> cast_char a b) ys)) xs)

let kmeta_str (k : kmeta) : string =
  string_of_cl k.k_name ^ "[" ^
  String.concat ";" (List.map (fun a ->
    string_of_cl a.a_name ^ "," ^ (if a.a_const then "1" else "0") ^ "," ^ (if a.a_ptr then "1" else "0")
    ^ "," ^ vstr a.a_dtype) k.k_args) ^ "]"

let run_case (line : string) : string =
  let toks = split_on ' ' line in
  let env : (string * dtype) list ref = ref [] in
  let order : (string * int) list ref = ref [] in
  let lookup n = match List.assoc_opt n !env with Some d -> d | None -> raise Bad in
  let sections = ref [] in
  let emit s = sections := s :: !sections in
  let add_fields obj fs =
    List.fold_left (fun o (fname, src, n) ->
      some (add_field variant o (cl_of_string fname) (lookup src) (z_of_int n))) obj fs in
  List.iter (fun tok ->
    if String.length tok > 2 && String.sub tok 0 2 = "m:" then begin
      (* an edit that does not apply (missing path, undefined variable) is reported as NA *)
      try match String.split_on_char ':' tok with
      | [_; src; ed] ->
        let j = toJson variant (lookup src) [] in
        let j' =
          match String.split_on_char '@' ed with
          | ["del"; path] -> edit (parse_path path) (fun _ -> None) j
          | ["set"; path; ty; v] ->
            let value = match ty with
              | "i" -> JInt (z_of_int (int_of v))
              | "s" -> JStr (cl_of_string v)
              | "b" -> JBool (bool_of v)
              | _ -> raise Bad in
            edit (parse_path path) (fun _ -> Some value) j
          | _ -> raise Bad in
        emit ("E=" ^ (match fromJson variant [z_of_int 3000000] j' with Some d -> vstr d | None -> "ERR"))
      | _ -> raise Bad
      with Bad | Failure _ | Invalid_argument _ -> emit "E=NA"
    end else if String.length tok > 2 && String.sub tok 0 2 = "K:" then begin
      match String.split_on_char ':' tok with
      | [_; kn; args] ->
        let args = if args = "" then [] else String.split_on_char ',' args in
        let k = { k_name = cl_of_string kn;
                  k_args = List.map (fun a ->
                    match String.split_on_char '.' a with
                    | [an; c; p; src] ->
                      { a_const = bool_of c; a_ptr = bool_of p; a_dtype = copy (lookup src); a_name = cl_of_string an }
                    | _ -> raise Bad) args } in
        let j = k_toJson variant k in
        emit ("K O=" ^ kmeta_str k ^ " J=" ^ string_of_cl (dump j) ^ " R=" ^
              (match k_fromJson variant [z_of_int 2000000] j with Some k' -> kmeta_str k' | None -> "ERR"))
      | _ -> raise Bad
    end else begin
      match String.index_opt tok '=' with
      | None -> raise Bad
      | Some i ->
        let name = String.sub tok 0 i in
        let k = var_index name in
        if List.mem_assoc name !env then raise Bad;
        let body = String.sub tok (i + 1) (String.length tok - i - 1) in
        let parts = String.split_on_char ':' body in
        let lab d = relabel [z_of_int k] d in
        let reg_if r d = if r then some (register d) else d in
        let d =
          match parts with
          | ["b"; bn] -> global bn
          | ["g"; bn] -> copy (global bn)
          | ["c"; nm; bytes; reg] -> lab (mk_leaf (cl_of_string nm) (z_of_int (int_of bytes)) (bool_of reg))
          | ["t"; src; n; reg] -> reg_if (bool_of reg) (lab (tuple_of variant (lookup src) (z_of_int (int_of n)) false))
          | ["n"; nm; src; reg] -> lab (mk_named (cl_of_string nm) (lookup src) (bool_of reg))
          | ["y"; src] -> lab (copy (lookup src))
          | ["s"; nm; bytes; reg; fs] ->
            let o = mk_leaf (cl_of_string nm) (z_of_int (int_of bytes)) false in
            reg_if (bool_of reg) (lab (add_fields o (parse_fields fs)))
          | ["u"; nm; reg; fs] ->
            let j = jset (cl_of_string "type") (JStr (cl_of_string "union"))
                      (jset (cl_of_string "name") (JStr (cl_of_string nm))
                         (jset (cl_of_string "fields") (JArr []) JNone)) in
            let o = some (fromJson variant [] j) in
            reg_if (bool_of reg) (lab (add_fields o (parse_fields fs)))
          | ["e"; nm; bytes; reg; es] ->
            let o = mk_leaf (cl_of_string nm) (z_of_int (int_of bytes)) false in
            let es = if es = "" then [] else String.split_on_char ',' es in
            reg_if (bool_of reg)
              (lab (List.fold_left (fun o e -> some (add_enumerator o (cl_of_string e))) o es))
          | _ -> raise Bad in
        env := !env @ [(name, d)];
        order := !order @ [(name, k)]
    end) toks;
  let vars = !env in
  let rts = List.map (fun (name, d) ->
    let k = List.assoc name !order in
    (name, d, toJson variant d [], fromJson variant [z_of_int (1000000 + k)] (toJson variant d []))) vars in
  let var_sections = List.map (fun (name, d, j, r) ->
    name ^ " O=" ^ vstr d ^ " J=" ^ string_of_cl (dump j) ^ " R=" ^
    (match r with Some r -> vstr r | None -> "ERR") ^ " T=1") rts in
  let origs = List.map snd vars in
  let ok_rts = List.for_all (fun (_, _, _, r) -> r <> None) rts in
  let mats =
    if vars = [] then []
    else if not ok_rts then ["M=" ^ matrix origs origs; "N=ERR"; "X=ERR"]
    else
      let rs = List.map (fun (_, _, _, r) -> some r) rts in
      ["M=" ^ matrix origs origs; "N=" ^ matrix rs rs; "X=" ^ matrix origs rs] in
  String.concat " | " (var_sections @ mats @ List.rev !sections)

let () =
  try
    while true do
      let line = input_line stdin in
      let r = try run_case line with Bad | Not_found | Failure _ | Invalid_argument _ -> "BADCASE" in
      print_string ("R " ^ r ^ "\n");
      print_string "S same\n"
    done
  with End_of_file -> ()
