(* C24 model driver.  One case per line:
     T <indent> <tree tokens...>   build the value, dump, re-parse, compare   (R and S lines)
     P <hex text>                  parse arbitrary text                         (R line, empty S)
   Tree tokens:  N none | Z null | B0 B1 | I<kind>:<decimal>[@<hex src>] | F32:<8 hex>[@<hex src>]
                 | F64:<16 hex>[@..] | S:<hex> | [ ... ] | { K:<hex> value ... }
   `@src` = the number node is first parsed from that text and then assigned the scalar.
   Floats are instantiated with OCaml floats (binary32 values are kept as the double that equals
   them); printing is printf "%.8e" / "%.16e", reading is strtod on the longest numeric prefix. *)

let n_of_int i = if i = 0 then N0 else Npos (pos_of_int i)
let int_of_n = function N0 -> 0 | Npos p -> int_of_pos p
let bytes_of_string (s : string) : n list = List.init (String.length s) (fun i -> n_of_int (Char.code s.[i]))
let string_of_bytes (l : n list) : string =
  let b = Buffer.create 16 in List.iter (fun x -> Buffer.add_char b (Char.chr ((int_of_n x) land 255))) l; Buffer.contents b
let nbytes_of_hex h = List.map n_of_int (bytes_of_hex h)
let hex_of_nbytes l = hex_of_bytes (List.map int_of_n l)

let ten = z_of_int 10
let z_of_dec (s : string) : z =
  let neg = String.length s > 0 && s.[0] = '-' in
  let acc = ref Z0 in
  String.iteri (fun i c -> if i = 0 && neg then () else
    if c < '0' || c > '9' then failwith "dec" else
    acc := Z.add (Z.mul !acc ten) (z_of_int (Char.code c - 48))) s;
  if String.length s = (if neg then 1 else 0) then failwith "dec";
  if neg then Z.opp !acc else !acc
let dec_of_z (x : z) : string = string_of_bytes (dec_of_Z x)

(* ---- float instantiation ---- *)
let single (x : float) : float = Int32.float_of_bits (Int32.bits_of_float x)
let fin (x : float) = match classify_float x with FP_infinite | FP_nan -> false | _ -> true
(* the printers; each use checks the hypothesis of the theorems (Spec.sci_shape) on finite values *)
let shape_checked (t : n list) (x : float) : n list =
  if fin x && not (sci_shape t) then failwith "float shape hypothesis violated" else t
let print32 (x : float) = shape_checked (bytes_of_string (Printf.sprintf "%.8e" x)) x
let print64 (x : float) = shape_checked (bytes_of_string (Printf.sprintf "%.16e" x)) x
let num_re = Str.regexp "[ \t\n\r\011\012]*\\([-+]?\\([0-9]+\\.?[0-9]*\\|\\.[0-9]+\\)\\([eE][-+]?[0-9]+\\)?\\)"
let strtod_prefix (text : string) : float =
  if Str.string_match num_re text 0 then
    (try float_of_string (Str.matched_group 1 text) with _ -> 0.0)
  else 0.0
let parse32 (t : n list) : float = single (strtod_prefix (string_of_bytes t))
let parse64 (t : n list) : float = strtod_prefix (string_of_bytes t)
let eq32 (a : float) (b : float) = Int32.bits_of_float a = Int32.bits_of_float b
let eq64 (a : float) (b : float) = Int64.bits_of_float a = Int64.bits_of_float b

type jv = (float, float) json

let kind_of_string = function
  | "b" -> KBool | "i8" -> KI8 | "u8" -> KU8 | "i16" -> KI16 | "u16" -> KU16
  | "i32" -> KI32 | "u32" -> KU32 | "i64" -> KI64 | "u64" -> KU64 | _ -> failwith "kind"
let string_of_kind = function
  | KBool -> "b" | KI8 -> "i8" | KU8 -> "u8" | KI16 -> "i16" | KU16 -> "u16"
  | KI32 -> "i32" | KU32 -> "u32" | KI64 -> "i64" | KU64 -> "u64"

(* the repaired source: keys are escaped, scalar assignment clears the source text *)
let key_escape = true
let stale_source = false
(* the variant of primitive::load in the library under test, detected by the check (props/C24.py) *)
let env_flag name = match Sys.getenv_opt name with Some "1" -> true | _ -> false
let lit_by_value = env_flag "C24_LIT_BY_VALUE"
let fmt_by_value = env_flag "C24_FMT_BY_VALUE"
let parse_at_ = parse_at parse32 parse64 lit_by_value fmt_by_value

let split_at_char c s = match String.index_opt s c with
  | None -> (s, None)
  | Some i -> (String.sub s 0 i, Some (String.sub s (i + 1) (String.length s - i - 1)))

let mk_num (p : (float, float) prim) (src : string option) : jv =
  match src with
  | None -> JNum (p, [])
  | Some h ->
    (match parse parse32 parse64 lit_by_value fmt_by_value (nbytes_of_hex h) with
     | Some old -> json_assign_scalar stale_source old p
     | None -> failwith "src")

(* tokens -> value, rest *)
let rec build (toks : string list) : jv * string list =
  match toks with
  | [] -> failwith "eof"
  | t :: rest ->
    if t = "N" then (JNone, rest)
    else if t = "Z" then (JNull, rest)
    else if t = "B0" then (JNum (PInt (KBool, Z0), []), rest)
    else if t = "B1" then (JNum (PInt (KBool, z_of_int 1), []), rest)
    else if t = "[" then
      let rec go acc toks = match toks with
        | "]" :: r -> (JArr (List.rev acc), r)
        | [] -> failwith "eof"
        | _ -> let (v, r) = build toks in go (v :: acc) r in
      go [] rest
    else if t = "{" then
      let rec go acc toks = match toks with
        | "}" :: r -> (JObj acc, r)
        | k :: r when String.length k >= 2 && String.sub k 0 2 = "K:" ->
          let key = nbytes_of_hex (String.sub k 2 (String.length k - 2)) in
          let (v, r') = build r in
          go (obj_set key v acc) r'
        | _ -> failwith "obj" in
      go [] rest
    else if String.length t >= 2 && String.sub t 0 2 = "S:" then
      (JStr (nbytes_of_hex (String.sub t 2 (String.length t - 2))), rest)
    else if String.length t >= 4 && String.sub t 0 4 = "F32:" then
      let (b, src) = split_at_char '@' (String.sub t 4 (String.length t - 4)) in
      if String.length b <> 8 then failwith "f32";
      (mk_num (PF32 (Int32.float_of_bits (Int32.of_string ("0x" ^ b)))) src, rest)
    else if String.length t >= 4 && String.sub t 0 4 = "F64:" then
      let (b, src) = split_at_char '@' (String.sub t 4 (String.length t - 4)) in
      if String.length b <> 16 then failwith "f64";
      (mk_num (PF64 (Int64.float_of_bits (Int64.of_string ("0x" ^ b)))) src, rest)
    else if t.[0] = 'I' then
      let (kd, v) = match split_at_char ':' (String.sub t 1 (String.length t - 1)) with
        | (k, Some v) -> (k, v) | _ -> failwith "int" in
      let (v, src) = split_at_char '@' v in
      let k = kind_of_string kd in
      if k = KBool then failwith "int";
      (mk_num (PInt (k, z_of_dec v)) src, rest)
    else failwith "tok"

(* canonical text of a value *)
let rec enc (v : jv) : string =
  match v with
  | JNone -> "N"
  | JNull -> "Z"
  | JNum (PNone, src) -> "PN@" ^ hex_of_nbytes src
  | JNum (PInt (KBool, v), src) -> "B" ^ dec_of_z v ^ "@" ^ hex_of_nbytes src
  | JNum (PInt (k, v), src) -> "I" ^ string_of_kind k ^ ":" ^ dec_of_z v ^ "@" ^ hex_of_nbytes src
  | JNum (PF32 x, src) -> Printf.sprintf "F32:%08lx@%s" (Int32.bits_of_float x) (hex_of_nbytes src)
  | JNum (PF64 x, src) -> Printf.sprintf "F64:%016Lx@%s" (Int64.bits_of_float x) (hex_of_nbytes src)
  | JStr s -> "S:" ^ hex_of_nbytes s
  | JArr l -> "[" ^ String.concat "," (List.map enc l) ^ "]"
  | JObj m -> "{" ^ String.concat "," (List.map (fun (k, x) -> "K:" ^ hex_of_nbytes k ^ "=" ^ enc x) m) ^ "}"

(* the same value with every object rebuilt by inserting its entries in reverse order *)
let rec rebuild (v : jv) : jv =
  match v with
  | JArr l -> JArr (List.map rebuild l)
  | JObj m -> JObj (obj_of_list (List.rev_map (fun (k, x) -> (k, rebuild x)) m))
  | _ -> v

let do_tree toks =
  match toks with
  | ind :: rest ->
    let indent = int_of_string ind in
    let (v, r) = build rest in
    if r <> [] then failwith "trailing";
    let d = dump_top print32 print64 key_escape (z_of_int indent) v in
    let dom = in_domain fin fin v in
    let d2 = dump_top print32 print64 key_escape (z_of_int indent) (rebuild v) in
    let det = if d = d2 then 1 else 0 in
    let (eq, same, tree) =
      match parse_at_ d with
      | Ok (v', _) ->
        if dom then
          let e = (match json_eq eq32 eq64 v' v with Some true -> "1" | Some false -> "0" | None -> "X") in
          let s = if json_same eq32 eq64 v' v then "1" else "0" in
          (e, s, enc v')
        else ("-", "-", enc v')
      | Err -> ("E", "-", "ERR")
      | Oob -> ("E", "-", "OOB")
      | NoFuel -> ("E", "-", "NOFUEL") in
    let r = Printf.sprintf "R dom=%d eq=%s same=%s det=%d dump=%s tree=%s"
        (if dom then 1 else 0) eq same det (hex_of_nbytes d) tree in
    let s = if dom then "S dom=1 eq=1 same=1 det=1" else "S dom=0" in
    (r, s)
  | [] -> failwith "indent"

let do_parse toks =
  match toks with
  | [h] | [h; _] when true ->
    let text = nbytes_of_hex h in
    let r =
      (match parse_at_ text with
       | Ok (v, rest) ->
         let off = List.length text + 1 - List.length rest in
         Printf.sprintf "R tree=%s off=%d" (enc v) off
       | Err -> "R ERR"
       | Oob -> "R OOB"
       | NoFuel -> "R NOFUEL") in
    (r, "S ")
  | [] -> (* the empty text *)
    (match parse_at_ [] with
     | Ok (v, rest) -> (Printf.sprintf "R tree=%s off=%d" (enc v) (1 - List.length rest), "S ")
     | Err -> ("R ERR", "S ") | Oob -> ("R OOB", "S ") | NoFuel -> ("R NOFUEL", "S "))
  | _ -> failwith "parse case"

let () =
  try
    while true do
      let line = input_line stdin in
      let toks = split_on ' ' line in
      let (r, s) =
        try
          (match toks with
           | "T" :: rest -> do_tree rest
           | "P" :: rest -> do_parse rest
           | _ -> failwith "case")
        with Failure m when m = "float shape hypothesis violated" -> ("R HYP float shape", "S HYP")
           | Failure _ | Invalid_argument _ | Not_found -> ("R BAD", "S BAD") in
      print_string (r ^ "\n" ^ s ^ "\n")
    done
  with End_of_file -> ()
