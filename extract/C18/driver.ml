(* C18 model driver.  One case per line:
     TL <A|B|N> <check 0|1> { env a b c d }+ { T <tile-size toks> loop <cmp> <side> <upd> i <init> b <bound> [s <step>] }
   A: the loop carries @tile(T, @outer, @inner[, check=false]) and is the only loop of the kernel;
   B: the loop carries @tile(T[, check=false]) and sits inside a one-iteration @outer/@inner nest;
   N: two `T .. loop ..` sections: loop i with loop j nested in it, both @tile(T, @outer, @inner): after
      tile::floatOuterLoopUp the statements are block i, block j, inner i, if, inner j, if.
   Output:
     R T { block= <for header> ; }+ { inner= <for header> ; check= <condition|none> }+ [; gpu <C17 records>] | V <values>
     S V <values>
   The for-header texts are assembled here from Expr.print of the operands of Model.block_header /
   Model.inner_header (layout of a for statement and the float-up order: trusted glue); values per env:
   OOS when a step or a tile size is not positive, else the sorted visited iterator values (pairs for N). *)
open Common

let cmp_text = function CLt -> "<" | CLe -> "<=" | CGt -> ">" | CGe -> ">="

let rename (it : string) (s : string) : string =
  (* texts are produced for iterator i / block iterator _occa_tiled_i; loop j renames them *)
  if it = "i" then s else
    String.concat " " (List.map (fun t -> if t = "i" then it else if t = "_occa_tiled_i" then "_occa_tiled_" ^ it else t)
                         (String.split_on_char ' ' s))

let for_text (it : string) (h : header) (updk : string) : string =
  let t = text "o" in
  let cond = if h.h_left then it ^ " " ^ cmp_text h.h_cmp ^ " " ^ t h.h_bound
    else t h.h_bound ^ " " ^ cmp_text h.h_cmp ^ " " ^ it in
  let upd = (match h.h_upd, updk with
      | UAdd s, _ -> it ^ " += " ^ t s
      | USub s, _ -> it ^ " -= " ^ t s
      | UInc, "pinc" -> it ^ " ++"
      | UInc, _ -> "++ " ^ it
      | UDec, "pdec" -> it ^ " --"
      | UDec, _ -> "-- " ^ it) in
  "int " ^ it ^ " = " ^ t h.h_init ^ " ; " ^ cond ^ " ; " ^ upd

let show_list (l : z list) : string =
  show_tuples (List.map (fun x -> [x]) l)

type tl = { l : rawloop; h : header; tile : expr; name : string }

let () =
  try
    while true do
      let line = input_line stdin in
      let toks = split_on ' ' line in
      let r, s =
        try
          (match toks with
           | "TL" :: var :: chk :: rest ->
             if not (List.mem var ["A"; "B"; "N"]) then raise (Malformed "variant");
             let check = (match chk with "1" -> true | "0" -> false | _ -> raise (Malformed "check")) in
             let rec before kw = function [] -> [] | t :: _ when t = kw -> [] | t :: r -> t :: before kw r in
             let rec from kw = function [] -> [] | t :: r when t = kw -> r | _ :: r -> from kw r in
             let envs = List.map (fun e ->
                 match e with
                 | [a; b; c; d] ->
                   let v = Array.map (fun x -> zi (int_of_string x)) [| a; b; c; d |] in
                   (fun (x : z) -> let i = iz x in if i >= 0 && i < 4 then v.(i) else zi 0)
                 | _ -> raise (Malformed "env")) (split_on_kw "env" (before "T" rest)) in
             if envs = [] then raise (Malformed "no env");
             let secs = split_on_kw "T" rest in
             if List.length secs <> (if var = "N" then 2 else 1) then raise (Malformed "sections");
             let tls = List.mapi (fun k sec ->
                 if List.length (List.filter (fun t -> t = "loop") sec) <> 1 then raise (Malformed "loops");
                 let tile = parse_operand (before "loop" sec) in
                 let l = parse_loop (from "loop" sec) in
                 let h = header_of l in
                 if not (wf_tile h tile) then raise (Malformed "wf");
                 { l; h; tile; name = (if k = 0 then "i" else "j") }) secs in
             let oos rho = List.exists (fun x ->
                 (match update_value x.h.h_upd with
                  | Some st -> (match evalc rho st with Some v -> iz v <= 0 | None -> true)
                  | None -> false)
                 || (match evalc rho x.tile with Some v -> iz v <= 0 | None -> true)) tls in
             let tv = t_current in
             let prod (ls : z list list) : z list list =
               List.fold_right (fun l acc -> List.concat_map (fun x -> List.map (fun t -> x :: t) acc) l) ls [[]] in
             let vals_model = List.map (fun rho ->
                 if oos rho then "OOS" else
                   let per = List.map (fun x -> tiled_values tv rho x.h x.tile check) tls in
                   if List.exists (fun o -> o = None) per then "NOFUEL" else
                     let ls = List.map (function Some l -> l | None -> []) per in
                     if List.fold_left (fun a l -> a * max 1 (List.length l)) 1 ls > limit_tuples then "HUGE"
                     else show_tuples (prod ls)) envs in
             let vals_spec = List.map2 (fun rho vm ->
                 if oos rho then "OOS" else
                   let per = List.map (fun x -> Model.spec_values rho x.h) tls in
                   if List.exists (fun o -> o = None) per then "NOFUEL" else
                     let ls = List.map (function Some l -> l | None -> []) per in
                     if List.fold_left (fun a l -> a * max 1 (List.length l)) 1 ls > limit_tuples then "HUGE" else
                       (* check=false only promises something when every count is a multiple of its T *)
                       let multiple = List.for_all2 (fun x l ->
                           let t = (match evalc rho x.tile with Some v -> iz v | None -> 1) in
                           List.length l mod t = 0) tls ls in
                       if check || multiple then show_tuples (prod ls) else vm) envs vals_model in
             (* tile.cpp runs oklForStatement on the loop: a header that C17 rejects is rejected here *)
             let rejected = List.exists (fun x -> not (accepted current x.h)) tls in
             let s_rejects = List.exists (fun x -> spec_may_reject x.h) tls in
             let s_obs = if s_rejects then "ERR" else "V " ^ String.concat " ; " vals_spec in
             if rejected then ("ERR", s_obs) else begin
               let blocks = List.map (fun x ->
                   "block= " ^ rename x.name (for_text "_occa_tiled_i" (block_header x.h x.tile) "add")) tls in
               let inners = List.map (fun x ->
                   "inner= " ^ rename x.name (for_text "i" (inner_header tv x.h x.tile) x.l.updk) ^
                   " ; check= " ^ (if check then
                                     rename x.name
                                       (if x.h.h_left then "i " ^ cmp_text x.h.h_cmp ^ " " ^ text "o" x.h.h_bound
                                        else text "o" x.h.h_bound ^ " " ^ cmp_text x.h.h_cmp ^ " i")
                                   else "none")) tls in
               let texts = String.concat " ; " (blocks @ inners) in
               let gpu =
                 if var = "A" then begin
                   let x = List.hd tls in
                   let bh = block_header x.h x.tile and ih = inner_header tv x.h x.tile in
                   if not (accepted current bh && accepted current ih) then " ; gpu REJECTED" else
                     let a0 = axis_of (nat_of_int 1) (nat_of_int 0) in
                     Printf.sprintf " ; gpu _occa_tiled_i o0 count= %s decl= %s ; i i0 count= %s decl= %s"
                       (text "o" (count_tree current bh)) (text "o" (value_tree bh (Var (magic_of a0))))
                       (text "i" (count_tree current ih)) (text "i" (value_tree ih (Var (magic_of a0))))
                 end else "" in
               ("T " ^ texts ^ gpu ^ " | V " ^ String.concat " ; " vals_model, s_obs)
             end
           | _ -> raise (Malformed "case"))
        with
        | Malformed _ | Failure _ | Invalid_argument _ | Not_found -> ("ERR", "ERR")
      in
      print_string ("R " ^ r ^ "\n");
      print_string ("S " ^ s ^ "\n")
    done
  with End_of_file -> ()
