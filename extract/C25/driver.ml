(* C25 model driver.  One history per line, tokens separated by blanks:
     G:<hexpath>            ((const json&) j)[path]          D:<hexpath>:<v>   j.get<json>(path, v)
     H:<hexpath>            j.has(path)                      Z                 j.size()
     z:<hexpath>            ((const json&) j)[path].size()   S:<hexpath>:<v>   j[path] = v
     K:<hexkey>:<v>         j.set(key, v)                    R:<hexpath>       j.remove(path)
     M:<v>                  j += v                           m:<hexpath>:<v>   j[path] += v
     T:<hexpath>            j[path];
     t:<hexpath>:<v>        j[path] = <typed>   (typed assignment: I/B -> number, S -> string, [..] -> jsonArray,
                                                  {..} -> jsonObject; the other members of the value stay)
     k:<hexkey>:<v>         j.set(key, <typed>)
   Values (no blanks):  N | Z | B0 | B1 | I<int32> | S<hex> | [v,v,...] | {<hexkey>=v,...}
   Prints the observations of the model that keeps the hidden storage of every value (R) and the
   specification's (S); D= is the final value, X= (model only) the final value with all its members. *)

let n_of_int i = if i = 0 then N0 else Npos (pos_of_int i)
let int_of_n = function N0 -> 0 | Npos p -> int_of_pos p
let nbytes_of_hex h = List.map n_of_int (bytes_of_hex h)
let hex_of_nbytes l = hex_of_bytes (List.map int_of_n l)
let string_of_bytes (l : n list) : string =
  let b = Buffer.create 16 in List.iter (fun x -> Buffer.add_char b (Char.chr ((int_of_n x) land 255))) l; Buffer.contents b
let dec_of_z (x : z) : string = string_of_bytes (dec_of_Z x)

type jv = (unit, unit) json

(* the repaired source *)
let merge_has_path = false
let get_no_escape = false
(* json::set with or without clearing (fixes/C25-3.patch): what the check detected in the library under test *)
let set_no_clear = (match Sys.getenv_opt "C25_SET_NO_CLEAR" with Some "1" -> true | _ -> false)

exception Bad

(* value parser over a string with a cursor *)
let parse_value (s : string) : jv =
  let n = String.length s in
  let pos = ref 0 in
  let peek () = if !pos < n then s.[!pos] else '\000' in
  let is_hex c = (c >= '0' && c <= '9') || (c >= 'a' && c <= 'f') in
  let take_hex () =
    let st = !pos in
    while !pos < n && is_hex s.[!pos] do incr pos done;
    let h = String.sub s st (!pos - st) in
    if String.length h mod 2 <> 0 then raise Bad;
    h in
  let rec value () : jv =
    let c = peek () in
    if c = 'N' then (incr pos; JNone)
    else if c = 'Z' then (incr pos; JNull)
    else if c = 'B' then begin
      incr pos;
      let d = peek () in incr pos;
      if d = '0' then JNum (PInt (KBool, Z0), [])
      else if d = '1' then JNum (PInt (KBool, z_of_int 1), [])
      else raise Bad end
    else if c = 'I' then begin
      incr pos;
      let st = !pos in
      if peek () = '-' then incr pos;
      while !pos < n && s.[!pos] >= '0' && s.[!pos] <= '9' do incr pos done;
      let t = String.sub s st (!pos - st) in
      if t = "" || t = "-" || String.length t > 10 then raise Bad;
      let v = int_of_string t in
      if v < -2147483648 || v > 2147483647 then raise Bad;
      JNum (PInt (KI32, z_of_int v), []) end
    else if c = 'S' then (incr pos; JStr (nbytes_of_hex (take_hex ())))
    else if c = '[' then begin
      incr pos;
      if peek () = ']' then (incr pos; JArr [])
      else begin
        let items = ref [value ()] in
        while peek () = ',' do incr pos; items := value () :: !items done;
        if peek () <> ']' then raise Bad;
        incr pos; JArr (List.rev !items) end end
    else if c = '{' then begin
      incr pos;
      if peek () = '}' then (incr pos; JObj [])
      else begin
        let acc = ref [] in
        let entry () =
          let k = nbytes_of_hex (take_hex ()) in
          if peek () <> '=' then raise Bad;
          incr pos;
          let v = value () in
          acc := obj_set k v !acc in
        entry ();
        while peek () = ',' do incr pos; entry () done;
        if peek () <> '}' then raise Bad;
        incr pos; JObj !acc end end
    else raise Bad in
  let v = value () in
  if !pos <> n then raise Bad;
  v

let rec enc (v : jv) : string =
  match v with
  | JNone -> "N"
  | JNull -> "Z"
  | JNum (PInt (KBool, v), _) -> "B" ^ dec_of_z v
  | JNum (PInt (KI32, v), _) -> "I" ^ dec_of_z v
  | JNum (_, _) -> "?"
  | JStr s -> "S" ^ hex_of_nbytes s
  | JArr l -> "[" ^ String.concat "," (List.map enc l) ^ "]"
  | JObj m -> "{" ^ String.concat "," (List.map (fun (k, x) -> hex_of_nbytes k ^ "=" ^ enc x) m) ^ "}"

let rec encd (d : (unit, unit) dict) : string =
  match d with
  | DUndef -> "N"
  | DVal v -> enc v
  | DObj m -> "{" ^ String.concat "," (List.map (fun (k, x) -> hex_of_nbytes k ^ "=" ^ encd x) m) ^ "}"

let split2 (s : string) : string * string =
  match String.index_opt s ':' with
  | None -> raise Bad
  | Some i -> (String.sub s 0 i, String.sub s (i + 1) (String.length s - i - 1))

let tval_of (v : jv) : (unit, unit) tval =
  match v with
  | JNum (p, _) -> TVNum p
  | JStr s -> TVStr s
  | JArr l -> TVArr l
  | JObj m -> TVObj m
  | _ -> raise Bad

(* every member of every value: T<type>[s<hex>][a[..]][o{..}] *)
let rec encx (h : (unit, unit) hj) : string =
  match h with
  | HJ (t, (p, _), s, a, o) ->
    let ty = (match t with
        | TNone -> "N" | TNull -> "Z" | TStr -> "S" | TArr -> "A" | TObj -> "O"
        | TNum -> (match p with PInt (KBool, v) -> "B" ^ dec_of_z v | PInt (KI32, v) -> "I" ^ dec_of_z v | _ -> "#")) in
    ty ^ (if s = [] then "" else "s" ^ hex_of_nbytes s)
    ^ (if a = [] then "" else "a[" ^ String.concat "," (List.map encx a) ^ "]")
    ^ (if o = [] then "" else "o{" ^ String.concat "," (List.map (fun (k, x) -> hex_of_nbytes k ^ "=" ^ encx x) o) ^ "}")

let rec hop_of_token (tok : string) : (unit, unit) hop =
  if String.length tok >= 2 && tok.[1] = ':' && (tok.[0] = 't' || tok.[0] = 'k') then begin
    let body = String.sub tok 2 (String.length tok - 2) in
    let (p, v) = split2 body in
    String.iter (fun c -> if not ((c >= '0' && c <= '9') || (c >= 'a' && c <= 'f')) then raise Bad) p;
    if String.length p mod 2 <> 0 then raise Bad;
    let path = nbytes_of_hex p in
    let t = tval_of (parse_value v) in
    if tok.[0] = 't' then HSetT (path, t) else HSetKeyT (path, t)
  end else HOp (op_of_token tok)

and op_of_token (tok : string) : (unit, unit) op =
  if tok = "Z" then OSize
  else begin
    if String.length tok < 2 || tok.[1] <> ':' then raise Bad;
    let body = String.sub tok 2 (String.length tok - 2) in
    let hexok h = String.length h mod 2 = 0 && (String.iter (fun c -> if not ((c >= '0' && c <= '9') || (c >= 'a' && c <= 'f')) then raise Bad) h; true) in
    let path h = if hexok h then nbytes_of_hex h else raise Bad in
    match tok.[0] with
    | 'G' -> OGet (path body)
    | 'H' -> OHas (path body)
    | 'z' -> OSizeAt (path body)
    | 'R' -> ORemove (path body)
    | 'T' -> OTouch (path body)
    | 'M' -> OMerge (parse_value body)
    | 'D' -> let (p, v) = split2 body in OGetD (path p, parse_value v)
    | 'S' -> let (p, v) = split2 body in OSet (path p, parse_value v)
    | 'K' -> let (p, v) = split2 body in OSetKey (path p, parse_value v)
    | 'm' -> let (p, v) = split2 body in OMergeAt (path p, parse_value v)
    | _ -> raise Bad
  end

let show_sobs (x : (unit, unit) sobs) : string =
  match x with
  | SVal d -> "v=" ^ encd d
  | SBool b -> if b then "h=1" else "h=0"
  | SInt z -> "n=" ^ dec_of_z z
  | SUnit -> "u"
  | SErr -> "E"
  | SFuel -> "FUEL"

let () =
  try
    while true do
      let line = input_line stdin in
      let toks = split_on ' ' line in
      let (r, s) =
        try
          let hops = List.map hop_of_token toks in
          let (h, xs) = hm_run merge_has_path get_no_escape set_no_clear hnone hops in
          let (d, ys) = s_run DUndef (List.map op_vis hops) in
          let r = String.concat ";" (List.map (fun x -> show_sobs (abs_obs (vis_obs x))) xs @ ["D=" ^ enc (vis h); "X=" ^ encx h]) in
          let s = String.concat ";" (List.map show_sobs ys @ ["D=" ^ encd d]) in
          ("R " ^ r, "S " ^ s)
        with Bad | Failure _ | Invalid_argument _ | Not_found -> ("R BAD", "S BAD") in
      print_string (r ^ "\n" ^ s ^ "\n")
    done
  with End_of_file -> ()
