(* C17 model driver.  One case per line (tokens separated by blanks):
     K <#outer> <#inner> { env a b c d }+ { loop <cmp> <side> <upd> i <init toks> b <bound toks> [s <step toks>] }+
   cmp: lt le gt ge   side: L (iterator left of the comparison) | R   upd: inc pinc dec pdec add sub
   expression tokens: decimal literals, N M P Q, + - * / % << >> < <= > >= == != & ^ | && || ! ~ ? : ( )
   Loops are listed outermost first: the @outer loops, then the @inner loops.
   Output:  R <texts> | <values>     model (Coq Model.v, variant `current`)
            S <values>               specification (Coq Spec.v)
   texts : per loop  <name> <kind><axis> count= <text> decl= <text>   (text = Expr.print of the trees)
   values: per env   OOS (a step is not positive) | UB | HUGE | sorted iterator tuples *)
let zi = z_of_int
let iz = int_of_z

exception Malformed of string

let binop_of_string = function
  | "*" -> Some Mul | "/" -> Some Div | "%" -> Some Mod | "+" -> Some Add | "-" -> Some Sub
  | "<<" -> Some Shl | ">>" -> Some Shr | "<" -> Some OLt | "<=" -> Some OLe | ">" -> Some OGt
  | ">=" -> Some OGe | "==" -> Some OEq | "!=" -> Some ONe | "&" -> Some BAnd | "^" -> Some BXor
  | "|" -> Some BOr | "&&" -> Some LAnd | "||" -> Some LOr | _ -> None

let string_of_binop = function
  | Mul -> "*" | Div -> "/" | Mod -> "%" | Add -> "+" | Sub -> "-" | Shl -> "<<" | Shr -> ">>"
  | OLt -> "<" | OLe -> "<=" | OGt -> ">" | OGe -> ">=" | OEq -> "==" | ONe -> "!=" | BAnd -> "&"
  | BXor -> "^" | BOr -> "|" | LAnd -> "&&" | LOr -> "||"

let var_names = [| "N"; "M"; "P"; "Q" |]

let tok_of_string (s : string) : tok =
  match binop_of_string s with
  | Some o -> KBin o
  | None ->
    match s with
    | "!" -> KNot | "~" -> KTilde | "?" -> KQ | ":" -> KColon | "(" -> KLP | ")" -> KRP
    | "N" -> KId (zi 0) | "M" -> KId (zi 1) | "P" -> KId (zi 2) | "Q" -> KId (zi 3)
    | _ ->
      (match int_of_string_opt s with
       | Some n when n >= 0 -> KNum (zi n)
       | _ -> raise (Malformed ("token " ^ s)))

(* kind: "o" / "i" — names the thread-index identifier of an axis *)
let string_of_tok (kind : string) (t : tok) : string =
  match t with
  | KNum n -> string_of_int (iz n)
  | KId x ->
    let i = iz x in
    if i >= 0 then (if i < 4 then var_names.(i) else "V" ^ string_of_int i)
    else "@" ^ kind ^ string_of_int (-1 - i)
  | KBin o -> string_of_binop o
  | KNot -> "!" | KTilde -> "~" | KQ -> "?" | KColon -> ":" | KLP -> "(" | KRP -> ")"

let text kind (e : expr) : string = String.concat " " (List.map (string_of_tok kind) (print e))

let parse_operand (ts : string list) : expr =
  if ts = [] then raise (Malformed "empty operand");
  match parse (List.map tok_of_string ts) with
  | Some e -> if safe e then e else raise (Malformed "unsafe")
  | None -> raise (Malformed "operand does not parse")

type rawloop = { cmp : cmp; left : bool; updk : string; init : expr; bound : expr; step : expr option }

let prec_of e = int_of_nat (eprec e)

(* split the token list of one loop into its operand sections *)
let parse_loop (ts : string list) : rawloop =
  match ts with
  | c :: sd :: u :: rest ->
    let cmp = (match c with "lt" -> CLt | "le" -> CLe | "gt" -> CGt | "ge" -> CGe
                          | _ -> raise (Malformed "cmp")) in
    let left = (match sd with "L" -> true | "R" -> false | _ -> raise (Malformed "side")) in
    if not (List.mem u ["inc"; "pinc"; "dec"; "pdec"; "add"; "sub"]) then raise (Malformed "upd");
    let sect = ref "" and i = ref [] and b = ref [] and s = ref [] in
    List.iter (fun t ->
        match t with
        | "i" | "b" | "s" -> sect := t
        | _ ->
          (match !sect with
           | "i" -> i := t :: !i | "b" -> b := t :: !b | "s" -> s := t :: !s
           | _ -> raise (Malformed "operand outside a section"))) rest;
    let init = parse_operand (List.rev !i) and bound = parse_operand (List.rev !b) in
    let step = (match u with
        | "add" | "sub" -> Some (parse_operand (List.rev !s))
        | _ -> if !s <> [] then raise (Malformed "step without += / -=") else None) in
    (* the operand has to be readable at its position in `it cmp BOUND` / `BOUND cmp it` *)
    if left && prec_of bound < 9 then raise (Malformed "bound binds too weakly");
    if (not left) && prec_of bound < 8 then raise (Malformed "bound binds too weakly");
    { cmp; left; updk = u; init; bound; step }
  | _ -> raise (Malformed "loop")

let header_of (l : rawloop) : header =
  let u = (match l.updk, l.step with
      | ("inc" | "pinc"), _ -> UInc
      | ("dec" | "pdec"), _ -> UDec
      | "add", Some s -> UAdd s
      | "sub", Some s -> USub s
      | _ -> raise (Malformed "upd")) in
  { h_init = l.init; h_cmp = l.cmp; h_left = l.left; h_bound = l.bound; h_upd = u }

let rec split_on_kw kw (ts : string list) : string list list =
  (* sections starting after each occurrence of kw; the part before the first kw is dropped *)
  let rec go cur acc = function
    | [] -> List.rev (match cur with Some c -> List.rev c :: acc | None -> acc)
    | t :: r when t = kw ->
      go (Some []) (match cur with Some c -> List.rev c :: acc | None -> acc) r
    | t :: r -> (match cur with Some c -> go (Some (t :: c)) acc r | None -> go None acc r)
  in go None [] ts

let rec take n l = if n = 0 then [] else match l with [] -> [] | x :: t -> x :: take (n - 1) t
let rec drop n l = if n = 0 then l else match l with [] -> [] | _ :: t -> drop (n - 1) t

let string_of_tuple t = String.concat "," (List.map (fun x -> string_of_int (iz x)) t)

let show_tuples (ts : z list list) : string =
  let strs = List.sort compare (List.map (fun t -> List.map iz t) ts) in
  let rec groups = function
    | [] -> []
    | x :: r ->
      let same, rest = List.partition (fun y -> y = x) r in
      (x, 1 + List.length same) :: groups rest in
  let g = groups strs in
  if g = [] then "-" else
    String.concat " " (List.map (fun (t, k) ->
        let s = String.concat "," (List.map string_of_int t) in
        if k = 1 then s else s ^ "*" ^ string_of_int k) g)

let cart2 (a : z list list) (b : z list list) : z list list =
  List.concat_map (fun x -> List.map (fun y -> x @ y) b) a

let limit = 4096

let () =
  try
    while true do
      let line = input_line stdin in
      let toks = split_on ' ' line in
      let r, s =
        try
          (match toks with
           | "K" :: no :: ni :: rest ->
             let no = int_of_string no and ni = int_of_string ni in
             if no < 1 || no > 3 || ni < 1 || ni > 3 then raise (Malformed "nest");
             (* cut at the first `loop` *)
             let rec before_loop = function [] -> [] | "loop" :: _ -> [] | t :: r -> t :: before_loop r in
             let envs = List.map (fun e ->
                 match e with
                 | [a; b; c; d] ->
                   let v = Array.map (fun x -> zi (int_of_string x)) [| a; b; c; d |] in
                   (fun (x : z) -> let i = iz x in if i >= 0 && i < 4 then v.(i) else zi 0)
                 | _ -> raise (Malformed "env")) (split_on_kw "env" (before_loop rest)) in
             if envs = [] then raise (Malformed "no env");
             let loops = List.map parse_loop (split_on_kw "loop" rest) in
             if List.length loops <> no + ni then raise (Malformed "loop count");
             let hs = List.map header_of loops in
             let ho = take no hs and hi = drop no hs in
             if not (List.for_all wf_header hs) then raise (Malformed "wf");
             (* ---- specification ---- *)
             let spec_rejects = List.exists spec_may_reject hs in
             let oos rho = List.exists (fun h ->
                 match update_value h.h_upd with
                 | Some st -> (match evalc rho st with Some v -> iz v <= 0 | None -> true)
                 | None -> false) hs in
             let s_obs =
               if spec_rejects then "ERR" else
                 "V " ^ String.concat " ; " (List.map (fun rho ->
                     if oos rho then "OOS" else
                       match spec_nest rho hs with
                       | Some ts -> if List.length ts > limit then "HUGE" else show_tuples ts
                       | None -> "NOFUEL") envs) in
             (* ---- model ---- *)
             let v = current in
             if not (List.for_all (accepted v) hs) then ("ERR", s_obs) else begin
               let rec_texts kind (hl : header list) names =
                 let d = List.length hl in
                 List.mapi (fun k h ->
                     let a = axis_of (nat_of_int d) (nat_of_int k) in
                     Printf.sprintf "%s %s%d count= %s decl= %s" (List.nth names k) kind (int_of_nat a)
                       (text kind (count_tree v h))
                       (text kind (value_tree h (Var (magic_of a))))) hl in
               let texts = rec_texts "o" ho ["o0"; "o1"; "o2"] @ rec_texts "i" hi ["i0"; "i1"; "i2"] in
               let vals = List.map (fun rho ->
                   if oos rho then "OOS" else
                     match nest_counts_c v rho ho, nest_counts_c v rho hi with
                     | Some co, Some ci ->
                       let cs = List.map iz (co @ ci) in
                       if List.exists (fun c -> c < 0) cs && not v.v_noop_negative then "HUGE"
                       else if List.exists (fun c -> c <= 0) cs then "-"
                       else if List.fold_left (fun a c -> if a > limit then a else a * c) 1 cs > limit then "HUGE"
                       else
                         (match nest_gpu_c v rho ho, nest_gpu_c v rho hi with
                          | Some a, Some b -> show_tuples (cart2 a b)
                          | _ -> "UB")
                     | _ -> "UB") envs in
               ("T " ^ String.concat " ; " texts ^ " | V " ^ String.concat " ; " vals, s_obs)
             end
           | _ -> raise (Malformed "case"))
        with
        | Malformed _ | Failure _ | Invalid_argument _ | Not_found -> ("ERR", "ERR")
      in
      print_string ("R " ^ r ^ "\n");
      print_string ("S " ^ s ^ "\n")
    done
  with End_of_file -> ()
