(* C17 model driver.  One case per line (tokens separated by blanks):
     K <#outer> <#inner> { env a b c d }+ { loop <cmp> <side> <upd> i <init toks> b <bound toks> [s <step toks>] }+
   cmp: lt le gt ge   side: L (iterator left of the comparison) | R   upd: inc pinc dec pdec add sub
   expression tokens: decimal literals, N M P Q, + - * / % << >> < <= > >= == != & ^ | && || ! ~ ? : ( )
   Loops are listed outermost first: the @outer loops, then the @inner loops.
   Output:  R <texts> | <values>     model (Coq Model.v, variant `current`)
            S <values>               specification (Coq Spec.v)
   texts : per loop  <name> <kind><axis> count= <text> decl= <text>   (text = Expr.print of the trees)
   values: per env   OOS (a step is not positive) | UB | HUGE | sorted iterator tuples *)
open Common

let limit = 4096

let () =
  try
    while true do
      let line = input_line stdin in
      let toks = split_on ' ' line in
      let r, s =
        try
          (match toks with
           | "K" :: no :: ni :: rest ->
             let no = int_of_string no and ni = int_of_string ni in
             if no < 1 || no > 3 || ni < 1 || ni > 3 then raise (Malformed "nest");
             (* optional `fork p`: the loops p .. n-1 appear twice, as two sibling chains below loop p-1 *)
             let fork = (match rest with
                 | "fork" :: p :: _ ->
                   let p = int_of_string p in
                   if p < 1 || p > no + ni - 1 then raise (Malformed "fork") else p
                 | _ -> 0) in
             let tag (ts : z list list) : z list list =
               if fork = 0 then ts else List.map (fun t -> zi 0 :: t) ts @ List.map (fun t -> zi 1 :: t) ts in
             let mult = if fork = 0 then 1 else 2 in
             (* cut at the first `loop` *)
             let rec before_loop = function [] -> [] | "loop" :: _ -> [] | t :: r -> t :: before_loop r in
             let envs = List.map (fun e ->
                 match e with
                 | [a; b; c; d] ->
                   let v = Array.map (fun x -> zi (int_of_string x)) [| a; b; c; d |] in
                   (fun (x : z) -> let i = iz x in if i >= 0 && i < 4 then v.(i) else zi 0)
                 | _ -> raise (Malformed "env")) (split_on_kw "env" (before_loop rest)) in
             if envs = [] then raise (Malformed "no env");
             let loops = List.map parse_loop (split_on_kw "loop" rest) in
             if List.length loops <> no + ni then raise (Malformed "loop count");
             let hs = List.map header_of loops in
             let ho = take no hs and hi = drop no hs in
             if not (List.for_all wf_header hs) then raise (Malformed "wf");
             (* ---- specification ---- *)
             let spec_rejects = List.exists spec_may_reject hs in
             let oos rho = List.exists (fun h ->
                 match update_value h.h_upd with
                 | Some st -> (match evalc rho st with Some v -> iz v <= 0 | None -> true)
                 | None -> false) hs in
             let s_obs =
               if spec_rejects then "ERR" else
                 "V " ^ String.concat " ; " (List.map (fun rho ->
                     if oos rho then "OOS" else
                       match spec_nest rho hs with
                       | Some ts -> if mult * List.length ts > limit then "HUGE" else show_tuples (tag ts)
                       | None -> "NOFUEL") envs) in
             (* ---- model ---- *)
             let v = current in
             if not (List.for_all (accepted v) hs) then ("ERR", s_obs) else begin
               (* the component each loop reads: getOklLoopIndex on the loop tree of the kernel *)
               let kinds = List.init (no + ni) (fun k -> k < no) in
               let tree = forked kinds (nat_of_int fork) in
               let axis_of_loop k = index_at tree (nat_of_int k) in
               let names = ["o0"; "o1"; "o2"] and inames = ["i0"; "i1"; "i2"] in
               let name_of k = if k < no then List.nth names k else List.nth inames (k - no) in
               let rec_texts =
                 List.mapi (fun k h ->
                     let kind = if k < no then "o" else "i" in
                     let a = axis_of_loop k in
                     Printf.sprintf "%s %s%d count= %s decl= %s" (name_of k) kind (int_of_nat a)
                       (text kind (count_tree v h))
                       (text kind (value_tree h (Var (magic_of a))))) hs in
               (* the second sibling chain: same headers, iterators x<name>; the launcher takes its sizes from
                  the first chain only *)
               let copy_texts =
                 if fork = 0 then [] else
                   List.filteri (fun k _ -> k >= fork) (List.mapi (fun k h ->
                       let kind = if k < no then "o" else "i" in
                       let a = axis_of_loop k in
                       Printf.sprintf "x%s decl= %s" (name_of k) (text kind (value_tree h (Var (magic_of a))))) hs) in
               let texts = rec_texts @ copy_texts in
               let vals = List.map (fun rho ->
                   if oos rho then "OOS" else
                     match nest_counts_c v rho ho, nest_counts_c v rho hi with
                     | Some co, Some ci ->
                       let cs = List.map iz (co @ ci) in
                       if List.exists (fun c -> c < 0) cs && not v.v_noop_negative then "HUGE"
                       else if List.exists (fun c -> c <= 0) cs then "-"
                       else if List.fold_left (fun a c -> if a > limit then a else a * c) mult cs > limit then "HUGE"
                       else
                         (match nest_gpu_c v rho ho, nest_gpu_c v rho hi with
                          | Some a, Some b -> show_tuples (tag (cart2 a b))
                          | _ -> "UB")
                     | _ -> "UB") envs in
               ("T " ^ String.concat " ; " texts ^ " | V " ^ String.concat " ; " vals, s_obs)
             end
           | _ -> raise (Malformed "case"))
        with
        | Malformed _ | Failure _ | Invalid_argument _ | Not_found -> ("ERR", "ERR")
      in
      print_string ("R " ^ r ^ "\n");
      print_string ("S " ^ s ^ "\n")
    done
  with End_of_file -> ()
