(* Shared OCaml glue for the C17 / C18 / C19 model drivers (compiled after the extracted model.ml of
   each property, before its driver.ml): case tokens <-> Expr.tok, text of a tree (Expr.print joined
   by blanks), loop sections of a case, tuple formatting. *)
open Model

let rec pos_of_int (i : int) : positive =
  if i = 1 then XH else if i land 1 = 0 then XO (pos_of_int (i lsr 1)) else XI (pos_of_int (i lsr 1))
let z_of_int (i : int) : z = if i = 0 then Z0 else if i > 0 then Zpos (pos_of_int i) else Zneg (pos_of_int (-i))
let rec int_of_pos (p : positive) : int = match p with XH -> 1 | XO q -> 2 * int_of_pos q | XI q -> 2 * int_of_pos q + 1
let int_of_z (x : z) : int = match x with Z0 -> 0 | Zpos p -> int_of_pos p | Zneg p -> - (int_of_pos p)
let rec nat_of_int (i : int) : nat = if i <= 0 then O else S (nat_of_int (i - 1))
let rec int_of_nat (n : nat) : int = match n with O -> 0 | S m -> 1 + int_of_nat m
let limit_tuples = 4096
let split_on c s = String.split_on_char c s |> List.filter (fun x -> x <> "")

let zi = z_of_int
let iz = int_of_z

exception Malformed of string

let binop_of_string = function
  | "*" -> Some Mul | "/" -> Some Div | "%" -> Some Mod | "+" -> Some Add | "-" -> Some Sub
  | "<<" -> Some Shl | ">>" -> Some Shr | "<" -> Some OLt | "<=" -> Some OLe | ">" -> Some OGt
  | ">=" -> Some OGe | "==" -> Some OEq | "!=" -> Some ONe | "&" -> Some BAnd | "^" -> Some BXor
  | "|" -> Some BOr | "&&" -> Some LAnd | "||" -> Some LOr | _ -> None

let string_of_binop = function
  | Mul -> "*" | Div -> "/" | Mod -> "%" | Add -> "+" | Sub -> "-" | Shl -> "<<" | Shr -> ">>"
  | OLt -> "<" | OLe -> "<=" | OGt -> ">" | OGe -> ">=" | OEq -> "==" | ONe -> "!=" | BAnd -> "&"
  | BXor -> "^" | BOr -> "|" | LAnd -> "&&" | LOr -> "||"

let var_names = [| "N"; "M"; "P"; "Q" |]

let tok_of_string (s : string) : tok =
  match binop_of_string s with
  | Some o -> KBin o
  | None ->
    match s with
    | "!" -> KNot | "~" -> KTilde | "?" -> KQ | ":" -> KColon | "(" -> KLP | ")" -> KRP
    | "N" -> KId (zi 0) | "M" -> KId (zi 1) | "P" -> KId (zi 2) | "Q" -> KId (zi 3)
    | _ ->
      (match int_of_string_opt s with
       | Some n when n >= 0 -> KNum (zi n)
       | _ -> raise (Malformed ("token " ^ s)))

(* kind: "o" / "i" — names the thread-index identifier of an axis *)
let string_of_tok (kind : string) (t : tok) : string =
  match t with
  | KNum n -> string_of_int (iz n)
  | KId x ->
    let i = iz x in
    if i >= 0 then (if i < 4 then var_names.(i) else "V" ^ string_of_int i)
    else if i = -100 then "_occa_tiled_i"                    (* C18: Model.xT_id *)
    else "@" ^ kind ^ string_of_int (-1 - i)
  | KBin o -> string_of_binop o
  | KNot -> "!" | KTilde -> "~" | KQ -> "?" | KColon -> ":" | KLP -> "(" | KRP -> ")"

let text kind (e : expr) : string = String.concat " " (List.map (string_of_tok kind) (print e))

let parse_operand (ts : string list) : expr =
  if ts = [] then raise (Malformed "empty operand");
  match parse (List.map tok_of_string ts) with
  | Some e -> if safe e then e else raise (Malformed "unsafe")
  | None -> raise (Malformed "operand does not parse")

type rawloop = { cmp : cmp; left : bool; updk : string; init : expr; bound : expr; step : expr option }

let prec_of e = int_of_nat (eprec e)

(* split the token list of one loop into its operand sections *)
let parse_loop (ts : string list) : rawloop =
  match ts with
  | c :: sd :: u :: rest ->
    let cmp = (match c with "lt" -> CLt | "le" -> CLe | "gt" -> CGt | "ge" -> CGe
                          | _ -> raise (Malformed "cmp")) in
    let left = (match sd with "L" -> true | "R" -> false | _ -> raise (Malformed "side")) in
    if not (List.mem u ["inc"; "pinc"; "dec"; "pdec"; "add"; "sub"]) then raise (Malformed "upd");
    let sect = ref "" and i = ref [] and b = ref [] and s = ref [] in
    List.iter (fun t ->
        match t with
        | "i" | "b" | "s" -> sect := t
        | _ ->
          (match !sect with
           | "i" -> i := t :: !i | "b" -> b := t :: !b | "s" -> s := t :: !s
           | _ -> raise (Malformed "operand outside a section"))) rest;
    let init = parse_operand (List.rev !i) and bound = parse_operand (List.rev !b) in
    let step = (match u with
        | "add" | "sub" -> Some (parse_operand (List.rev !s))
        | _ -> if !s <> [] then raise (Malformed "step without += / -=") else None) in
    (* the operand has to be readable at its position in `it cmp BOUND` / `BOUND cmp it` *)
    if left && prec_of bound < 9 then raise (Malformed "bound binds too weakly");
    if (not left) && prec_of bound < 8 then raise (Malformed "bound binds too weakly");
    { cmp; left; updk = u; init; bound; step }
  | _ -> raise (Malformed "loop")

let header_of (l : rawloop) : header =
  let u = (match l.updk, l.step with
      | ("inc" | "pinc"), _ -> UInc
      | ("dec" | "pdec"), _ -> UDec
      | "add", Some s -> UAdd s
      | "sub", Some s -> USub s
      | _ -> raise (Malformed "upd")) in
  { h_init = l.init; h_cmp = l.cmp; h_left = l.left; h_bound = l.bound; h_upd = u }

let rec split_on_kw kw (ts : string list) : string list list =
  (* sections starting after each occurrence of kw; the part before the first kw is dropped *)
  let rec go cur acc = function
    | [] -> List.rev (match cur with Some c -> List.rev c :: acc | None -> acc)
    | t :: r when t = kw ->
      go (Some []) (match cur with Some c -> List.rev c :: acc | None -> acc) r
    | t :: r -> (match cur with Some c -> go (Some (t :: c)) acc r | None -> go None acc r)
  in go None [] ts

let rec take n l = if n = 0 then [] else match l with [] -> [] | x :: t -> x :: take (n - 1) t
let rec drop n l = if n = 0 then l else match l with [] -> [] | _ :: t -> drop (n - 1) t

let string_of_tuple t = String.concat "," (List.map (fun x -> string_of_int (iz x)) t)

let show_tuples (ts : z list list) : string =
  let strs = List.sort compare (List.map (fun t -> List.map iz t) ts) in
  let rec groups = function
    | [] -> []
    | x :: r ->
      let same, rest = List.partition (fun y -> y = x) r in
      (x, 1 + List.length same) :: groups rest in
  let g = groups strs in
  if g = [] then "-" else
    String.concat " " (List.map (fun (t, k) ->
        let s = String.concat "," (List.map string_of_int t) in
        if k = 1 then s else s ^ "*" ^ string_of_int k) g)

let cart2 (a : z list list) (b : z list list) : z list list =
  List.concat_map (fun x -> List.map (fun y -> x @ y) b) a

