"""C30 — with sharable devices, concurrent handle use is race-free (DESIGN.md 5/C30)."""
import os, random, re
from vlib import common as C

PROP = "C30"
FLAVOURS = ["asan", "shar"]
CHECKER = "make -C /verif/coq -k C30/Properties_C30.vo C30/Extract.vo  (coqc 8.16.1, full .vo)"
TRUSTED = [
    "Coq 8.16.1 kernel incl. vm_compute; no native_compute",
    "hand transcription of gc.tpp (sharable ring_t / multiRing_t), src/core/{memory,device}.cpp, "
    "src/occa/internal/core/{memory,buffer,device}.cpp into coq/C30/Model.v: a ring critical section is one "
    "step on a list (what the pointer code does to a ring is C01's Heap.v, restated in Refine.v), every access "
    "outside a critical section is its own step",
    "the pthread runtime, the C++ memory model and everything but the protocol's interleavings are NOT modelled: "
    "a schedule is a sequence of thread numbers, each step is sequentially consistent",
    "hooks/C30-1.patch (schedule points) for the deterministic replays; hook H1 live-object counters",
    "extraction (ExtrOcamlBasic only) + extract/C30/driver.ml + extract/zutil.ml",
    "drivers/C30.cpp (fork per case; semaphores park the worker threads at the schedule points; ThreadSanitizer "
    "reports are counted through __tsan_on_report)",
    "g++ 12 -fsanitize=thread as the observer of data races, unlocks of unowned mutexes and use-after-free in the "
    "free-running stress cases (supporting evidence: a race detector only sees the runs it is given)",
]

META = dict(
    level="partial: Coq theorems over an interleaving model of the reference-counting protocol of the "
          "ENABLE_SHARABLE_DEVICE build (wrappers -> modeMemory_t -> modeBuffer_t -> device ring, allocation counter, "
          "multiRing_t lock discipline): for ANY number of threads, ANY programs of malloc/copy/hand-over/slice/delete and "
          "ANY schedule of the protocol's micro-steps the repaired code never touches a destroyed object, runs every "
          "destructor at most once, loses no reference, leaks nothing and counts bytes exactly (invariant over the "
          "interleaving semantics); the code before the fixes is refuted by concrete schedules (double destroy, "
          "use after free, lost counter update, double unlock).  The pthread runtime and the memory model are not "
          "modelled; kernels, streams and pools are outside the model.  Tied to the C++ by replaying schedules "
          "deterministically on the real library through schedule-point hooks and comparing counters after every step "
          "with the extracted model, plus free-running stress under ThreadSanitizer.",
    note="Needs hooks/C30-1.patch, then fixes/C30-1..3.patch applied to /repo to be green (on the unchanged tree "
         "the stress cases show the races: data race in needsFree()/bytesAllocated, double delete, double unlock). "
         "Without the hook the check falls back to stress + the multiRing case only.",
    technique="Coq invariant proof over all interleavings + computed refutation witnesses + schedule replay on the "
              "real library (hooked) + ThreadSanitizer stress",
    design_ref="DESIGN.md section 5, C30")

TSAN = "halt_on_error=0:exitcode=66:report_signal_unsafe=0:die_after_fork=0:second_deadlock_stack=0:symbolize=0"


# --------------------------------------------------------------------------- tree inspection

def _read(rel):
    try:
        return open(os.path.join(C.REPO, rel), errors="replace").read()
    except OSError:
        return ""


def tree_has_hook():
    return "OCCA_VERIF_HAS_YIELD" in _read("src/occa/internal/verif.hpp")


def tree_variant():
    """Which of the modelled code variants the tree has (coq/C30/Model.v: variant): <test><bytes><multi>."""
    gch, gct = _read("src/occa/internal/utils/gc.hpp"), _read("src/occa/internal/utils/gc.tpp")
    mem, imem = _read("src/core/memory.cpp"), _read("src/occa/internal/core/memory.cpp")
    v_test = (bool(re.search(r"bool\s+removeRef\(entry_t \*entry, const bool threadLock", gch))
              and bool(re.search(r"=\s*modeMemory->removeMemoryRef\(this\)", mem))
              and bool(re.search(r"=\s*modeBuffer->removeModeMemoryRef\(this\)", imem))
              and not re.search(r"modeMemory->modeMemory_t::needsFree\(\)", mem))
    dev = _read("src/occa/internal/core/device.cpp")
    v_bytes = ("addBytesAllocated" in dev and "mutex.lock()" in dev
               and not re.search(r"bytesAllocated\s*[-+]=", _read("src/core/device.cpp") + _read("src/occa/internal/core/buffer.cpp")))
    m = re.search(r"ring_t<entry_t>::removeRef\(entry_t \*entry, const bool threadLock\)\s*\{(.*?)\n   #else", gct, re.S)
    body = m.group(1) if m else ""
    v_multi = bool(body) and len(re.findall(r"mutex\.unlock\(\)", body)) == len(re.findall(r"if \(threadLock\)\s*\n\s*mutex\.unlock\(\)", body))
    return "".join("1" if x else "0" for x in (v_test, v_bytes, v_multi))


def _strip_cxx_comments(txt):
    txt = re.sub(r"/\*.*?\*/", lambda m: re.sub(r"[^\n]", " ", m.group(0)), txt, flags=re.S)
    return re.sub(r"//[^\n]*", "", txt)


def counter_sites():
    """Premise of the counter clause of race_free_all_schedules (T tie): the model has ONE way of changing
    bytesAllocated, a step that is atomic in the fixed variant.  That describes the code only if every write to
    modeDevice_t::bytesAllocated / maxBytesAllocated anywhere under src/ and include/ is inside
    modeDevice_t::addBytesAllocated, and there between mutex.lock() and mutex.unlock().  Returns
    (number of mentions inspected, list of offending 'file:line: text')."""
    bad, seen = [], 0
    roots = [os.path.join(C.REPO, "src"), os.path.join(C.REPO, "include")]
    for root in roots:
        for d, _, files in os.walk(root):
            for f in sorted(files):
                if not f.endswith((".cpp", ".hpp", ".tpp", ".h", ".c", ".mm")):
                    continue
                path = os.path.join(d, f)
                rel = os.path.relpath(path, C.REPO)
                try:
                    raw = open(path, errors="replace").read()
                except OSError:
                    continue
                if "ytesAllocated" not in raw:
                    continue
                txt = _strip_cxx_comments(raw)
                # the one function that may write
                lo = hi = lock = unlock = -1
                m = re.search(r"void\s+modeDevice_t::addBytesAllocated\s*\([^)]*\)\s*\{", txt)
                if m:
                    lo = m.end()
                    depth, i = 1, lo
                    while i < len(txt) and depth:
                        depth += (txt[i] == "{") - (txt[i] == "}")
                        i += 1
                    hi = i
                    body = txt[lo:hi]
                    a, b = body.find("mutex.lock()"), body.rfind("mutex.unlock()")
                    lock, unlock = (lo + a if a >= 0 else -1), (lo + b if b >= 0 else -1)
                for mm in re.finditer(r"\b(?:maxBytesAllocated|bytesAllocated)\b", txt):
                    seen += 1
                    pos, end = mm.start(), mm.end()
                    line = txt.count("\n", 0, pos) + 1
                    text = raw.splitlines()[line - 1].strip()
                    after = txt[end:end + 12].lstrip()
                    before = txt[max(0, pos - 12):pos]
                    is_write = bool(re.match(r"(=(?!=)|\+=|-=|\*=|/=|\|=|&=|\^=|<<=|>>=|\+\+|--)", after)) or \
                        bool(re.search(r"(\+\+|--)\s*(\w+(->|\.))?$", before))
                    is_escape = bool(re.search(r"&\s*(\w+(->|\.))?$", before))       # address / reference taken
                    inside = lo <= pos < hi
                    if inside:
                        if lock < 0 or unlock < 0 or not (lock < pos < unlock):
                            bad.append("%s:%d: counter touched inside addBytesAllocated but outside its lock..unlock: %s" % (rel, line, text))
                    elif is_write or is_escape:
                        bad.append("%s:%d: counter written outside modeDevice_t::addBytesAllocated: %s" % (rel, line, text))
    return seen, bad


# --------------------------------------------------------------------------- generators

def op_tokens(rng, n, nops, nv=4):
    """Per-thread programs that share objects: thread 0 allocates and hands copies / slices out."""
    toks = []
    t0 = ["t0:M0:%d" % rng.choice([8, 16, 64, 128])]
    if rng.random() < 0.5:
        t0.append("t0:L0:1")
    for t in range(1, n):
        if rng.random() < 0.85:
            t0.append("t0:S%d:%d:0" % (rng.choice([0, 0, 1]), t))
    toks += t0
    progs = {t: [] for t in range(n)}
    for t in range(n):
        for _ in range(rng.randint(0, nops)):
            x = rng.random()
            a, b = rng.randrange(nv), rng.randrange(nv)
            if x < 0.15:
                progs[t].append("t%d:M%d:%d" % (t, a, rng.choice([8, 24, 256])))
            elif x < 0.35:
                progs[t].append("t%d:C%d:%d" % (t, a, b))
            elif x < 0.5:
                progs[t].append("t%d:S%d:%d:%d" % (t, a, rng.randrange(n), b))
            elif x < 0.65:
                progs[t].append("t%d:L%d:%d" % (t, a, b))
            else:
                progs[t].append("t%d:D%d" % (t, a))
    for t in range(n):
        toks += progs[t]
    # most cases end with every thread letting go of everything
    if rng.random() < 0.85:
        for t in range(n):
            vs = list(range(nv))
            rng.shuffle(vs)
            toks += ["t%d:D%d" % (t, v) for v in vs]
    return toks, len(t0)


def gen_x(rng, tier):
    n = rng.choice([2, 2, 3, 3, 4])
    toks, setup_ops = op_tokens(rng, n, 3 if tier == "quick" else 5)
    # thread 0 first sets the sharing up (malloc = 4 segments, every other op one), then anything goes
    sched = ["s0"] * (setup_ops + 3)
    total = sum(1 for t in toks) * 3
    k = rng.randint(total // 3, total)
    if rng.random() < 0.3:
        # long bursts: one thread runs far ahead
        while len(sched) < k:
            t = rng.randrange(n)
            sched += ["s%d" % t] * rng.randint(1, 6)
    else:
        sched += ["s%d" % rng.randrange(n) for _ in range(k)]
    return " ".join(["X%d" % n] + toks + sched)


def gen_z(rng, tier):
    n = rng.choice([2, 3, 4, 8, 16] if tier == "thorough" else [2, 4, 8, 16])
    toks, _ = op_tokens(rng, n, 4)
    iters = rng.choice([10, 20]) if tier == "quick" else rng.choice([20, 50])
    return " ".join(["Z%d.%d.%d" % (n, iters, rng.randrange(1, 10 ** 6))] + toks)


def directed(hook):
    z = [
        # eight threads let go of one object at the same time
        "Z8.40.1 t0:M0:8 " + " ".join("t0:S0:%d:0" % k for k in range(1, 8)),
        # four threads let go of four slices of one buffer at the same time
        "Z4.40.2 t0:M0:8 t0:L0:1 t0:L0:2 t0:L0:3 t0:S1:1:0 t0:S2:2:0 t0:S3:3:0",
        # everybody allocates and frees: the allocation counter
        "Z8.40.3 " + " ".join("t%d:M0:%d t%d:M1:%d t%d:D0 t%d:M2:8" % (t, 8 * (t + 1), t, 16, t, t) for t in range(8)),
        "Z16.10.4 t0:M0:64 " + " ".join("t0:S0:%d:0" % k for k in range(1, 16)) + " " + " ".join("t%d:L0:1 t%d:C1:2" % (k, k) for k in range(1, 16)),
    ]
    m = ["M1 c1", "M1 c3",
         # memory pool (outside the Coq model): thread 0 keeps resizing a pool that holds a live reservation while
         # the others malloc/free on the same device; memoryAllocated() must be 0 at the end, no race report
         "P4.300.1", "P2.300.2", "P8.150.3"]
    x = []
    if hook:
        x = [
            # the Coq witnesses (Properties_C30.v) at the granularity of the schedule points
            # (a malloc is 4 segments: constructors | counter | return-copy + removal of the local | its test)
            "X2 t0:M0:8 t0:S0:1:0 t0:D0 t1:D0 s0 s0 s0 s0 s0 s0 s1 s0 s1",
            "X2 t0:M0:8 t0:S0:1:0 t0:D0 t1:D0 s0 s0 s0 s0 s0 s0 s1 s1 s1 s1 s1 s1 s0",
            "X2 t0:M0:8 t0:L0:1 t0:S1:1:0 t0:D1 t0:D0 t1:D0 s0 s0 s0 s0 s0 s0 s0 s0 s0 s0 s1 s1 s0 s1",
            "X3 t0:M0:8 t0:S0:1:0 t0:S0:2:0 t0:D0 t1:D0 t2:D0 s0 s0 s0 s0 s0 s0 s0 s1 s2 s0 s1 s2",
            "X2 t0:M0:8 t1:M0:16 s0 s1 s0 s1 s0 s1 s0 s1",
            "X2 t0:M0:8 t1:M0:16 t0:D0 t1:D0 s0 s0 s0 s0 s1 s1 s1 s1 s0 s1 s0 s1 s0 s1 s0 s1",
        ]
    return x + z + m


def nontrivial(case):
    t = case.split()
    if case.startswith("M") or case.startswith("P"):
        return True
    shares = any(re.match(r"^t\d+:[SL]", x) for x in t)
    drops = any(re.match(r"^t\d+:D", x) for x in t)
    if case.startswith("Z"):
        return shares and int(t[0][1:].split(".")[0]) >= 2
    sched = [x for x in t if re.match(r"^s\d+$", x)]
    return shares and drops and len(set(sched)) >= 2


def strip_trace(obs):
    return obs.split(" | ")[0]


# known-finding signatures: predicates over a (shrunk) failing case
SIGNATURES = {}


def extra_known():
    """Known-finding lines proposed by this property but not yet merged into known_findings.txt."""
    p = os.path.join(C.VERIF, "docs", "notes", "C30.known")
    res = []
    if os.path.exists(p):
        for line in open(p):
            line = line.strip()
            if line and not line.startswith("#"):
                parts = [x.strip() for x in line.split("|")]
                if len(parts) >= 4 and parts[0] == PROP:
                    res.append(dict(prop=parts[0], signature=parts[1], input=parts[2], what=" | ".join(parts[3:])))
    return res


def _env():
    env = C.lib_env("shar")
    env["TSAN_OPTIONS"] = TSAN
    return env


def setup():
    C.coq_make(["C30/Extract.vo"])
    C.build_model(PROP)


def run(run, tier, seed, replay_case=None):
    C.build_lib("shar")           # built lazily: a few minutes the first time
    impl = C.build_driver(PROP, flavour="shar")
    pr = C.coq_properties(PROP, dirs=["C30", "C01", "lib"], extra_targets=["C30/Extract.vo"])
    run.add_proof(pr, CHECKER)
    run.coverage["trusted_base"] = TRUSTED
    model = C.build_model(PROP)

    variant = tree_variant()
    hook = tree_has_hook()
    os.environ["C30_VARIANT"] = variant
    env = _env()
    rc, caps, err = C.run_lines([impl], ["?"], env=env, timeout=120)
    caps = caps[0] if caps else "R caps ?"
    if "sharable=1" not in caps:
        raise C.CheckError("the shar flavour library is not an ENABLE_SHARABLE_DEVICE build: " + caps + err[-500:])
    hook = hook and "hook=1" in caps

    rng = random.Random(seed * 7919 + 30)
    nx, nz = (400, 14) if tier == "quick" else (4000, 60)
    n_env = os.environ.get("VERIF_N")
    if n_env:
        nx = int(n_env)
    corpus = [c for c in C.load_corpus(PROP) if hook or not c.startswith("X")]
    cases = list(corpus) + directed(hook)
    if hook:
        cases += [gen_x(rng, tier) for _ in range(nx)]
    cases += [gen_z(rng, tier) for _ in range(nz)]
    if replay_case is not None:
        cases = [replay_case]

    proof_failures = list(pr["failures"])
    if variant != "111":
        proof_failures.append("the tree under test is code variant %s, the positive theorems of Properties_C30.v describe 111 "
                              "(1st digit: remove-and-test under the ring lock = fixes/C30-1.patch; 2nd: allocation counter "
                              "under a lock = fixes/C30-2.patch; 3rd: removeRef(entry,false) leaves the lock alone = "
                              "fixes/C30-3.patch)" % variant)
    # T tie: every write of the allocation counter is the locked one the model speaks about
    n_sites, bad_sites = counter_sites()
    if variant[1] == "1" and bad_sites:
        proof_failures.append("premise of the counter clause of race_free_all_schedules does not hold of the source tree: "
                              + " || ".join(bad_sites[:6]))
    if variant[1] == "1" and n_sites == 0:
        proof_failures.append("no mention of bytesAllocated found under src/: the counter-site scan no longer sees the code")
    run.coverage["obligations"] += 1
    run.coverage["discharged"] += 0 if (bad_sites or n_sites == 0) and variant[1] == "1" else 1
    import vlib.common as VC
    orig_known = VC.load_known_findings
    VC.load_known_findings = lambda prop: orig_known(prop) + (extra_known() if prop == PROP else [])
    try:
        D = C.Differential(run, PROP, [impl], model, env, view=strip_trace, signatures=SIGNATURES, keep_first=1,
                           jobs=4, impl_timeout=1500,
                           model_desc="coq/C30/Model.v (variant %s) vs gc.tpp, src/core/{memory,device}.cpp, "
                                      "src/occa/internal/core/{memory,buffer,device}.cpp in the sharable build" % variant)
        I, R, S = D.eval(cases)
        prop_fails, corr_breaks = D.judge(cases, I, R, S, proof_failures=proof_failures, max_report=2)
    finally:
        VC.load_known_findings = orig_known

    distinct = set(c for c in cases if nontrivial(c))
    cov = run.coverage
    cov["distinct_nontrivial"] = len(distinct)
    cov["rule"] = ("X: 2-4 threads, thread 0 allocates and hands copies/slices to the others, random malloc/copy/hand-over/"
                   "slice/delete programs, a random schedule over the library's schedule points (replayed deterministically "
                   "through hooks/C30-1.patch; counters compared with the model after every schedule entry); Z: 2-16 free-running "
                   "threads under ThreadSanitizer, all handles deleted concurrently after a barrier, repeated; M: multiRing "
                   "add/remove on one thread; P: one thread resizing a memory pool with a live reservation while the others "
                   "malloc/free (pools are outside the model: observation only); T: source scan that every write of "
                   "bytesAllocated/maxBytesAllocated is inside the locked addBytesAllocated; non-trivial = an object is shared between threads (hand-over or slice), handles "
                   "are deleted, and (X) the explicit schedule interleaves at least two threads; distinct = distinct case text")
    cov["samples"] = [dict(case=cases[i], impl=I[i], model=R[i], spec=S[i]) for i in sorted(set((0, len(cases) // 2, len(cases) - 1)))]
    cov["kinds"] = {k: sum(1 for c in cases if c.startswith(k)) for k in "XZMP"}
    cov["counter_mentions_inspected"] = n_sites
    cov["counter_sites_outside_lock"] = len(bad_sites)
    cov["tree_variant"] = variant
    cov["hook_present"] = bool(hook)
    cov["replay_available"] = bool(hook)
    cov["stress_threads_max"] = max([int(c.split()[0][1:].split(".")[0]) for c in cases if c.startswith("Z")] or [0])
    cov["schedule_entries"] = sum(len(re.findall(r"\bs\d+\b", c)) for c in cases if c.startswith("X"))
    run.assumptions = ["a handle variable is used by one thread at a time; a copy is handed to another thread through a "
                       "synchronised channel (the driver's mutex), as the C++ rules for sharing a non-atomic object require",
                       "free() of an object that other threads still hold handles to, dontUseRefs(), memory pools, kernels "
                       "and streams are outside the model; the device outlives the threads",
                       "sequentially consistent steps; the pthread runtime and the C++ memory model are not modelled "
                       "(level: partial)",
                       "ThreadSanitizer stress is supporting evidence only: it sees the interleavings that happen"]


def replay(run, path):
    case = C.replay_case_from_file(path)
    if case is None:
        print("no case in replay file")
        return 2
    globals()["run"](run, "quick", run.seed, replay_case=case)
    for s in run.coverage.get("samples", [])[:1]:
        print("replayed: %s\nimplementation: %s\nmodel:          %s\nspecification:  %s" % (s["case"], s["impl"], s["model"], s["spec"]))
    return run.finish()
