"""C19 — @dim array access computes the documented linear index (DESIGN.md 5/C19)."""
import itertools, os, random, re
from vlib import common as C
from props import C17 as G

PROP = "C19"
CHECKER = "make -C /verif/coq -k C19/Properties_C19.vo C19/Extract.vo  (coqc 8.16.1, full .vo)"
TRUSTED = [
    "Coq 8.16.1 kernel incl. vm_compute; no native_compute",
    "hand transcription of the index fold in attributes::dim::applyCodeTransformations (dim.cpp:60-96) and of "
    "expr::operator+/operator*/expr::parens into coq/C19/Model.v, tied by token-for-token comparison of the emitted "
    "subscript of all seven translators with Expr.print of the model's tree",
    "coq/C17/Expr.v parse = C operator precedence (cross-checked by compiling every emitted subscript with g++)",
    "tools/C19_emit.py + tools/C17_emit.py (extraction of `h[0] = x[...]`, tokeniser), drivers/C17.cpp",
    "extraction (ExtrOcamlBasic only) + extract/C19/driver.ml + extract/C17/common.ml",
    "g++ 12 -fsanitize=undefined as the evaluator of the emitted subscript",
]

META = dict(
    level="Coq theorems: for every arity, every @dimOrder whose entries are positions and index/dimension expressions of "
          "every operator class (anything a C parser can produce), the subscript that the @dim rewrite builds, re-read "
          "from its printed text with C precedence, has the documented mixed-radix value sum_j i_{o_j} prod_{m<j} D_{o_m} "
          "in every environment; for a permutation order this index maps the in-range index tuples one-to-one onto "
          "[0, prod D). Tied to dim.cpp by comparing the emitted subscript text of all seven translators token for token "
          "with the model's and evaluating it with g++.",
    note="Needs fixes/C19-1 (index arguments parenthesised); the pinned variant is refuted in Coq. Invalid @dimOrder "
         "arguments are diagnosed but the translators still report success (observation, outside this property).",
    technique="Coq proof over expression trees with a verified re-reader + Horner/mixed-radix bijection proof + syntactic "
              "translation validation of emitted source + compiled evaluation",
    design_ref="DESIGN.md section 5, C19")


def gen_dim(rng):
    x = rng.random()
    if x < 0.45:
        return [str(rng.choice([2, 3, 4, 5, 7]))]
    if x < 0.7:
        return [rng.choice(["N", "M", "P", "Q"])]
    if x < 0.85:
        return [rng.choice(["N", "M", "P"]), "+", str(rng.choice([1, 2]))]
    return G.gen_expr(rng, 1)[0]


def gen_case(rng, tier):
    n = rng.choice([1, 2, 2, 3, 3, 4])
    if rng.random() < 0.35:
        order = ["id"]
    else:
        p = list(range(n))
        rng.shuffle(p)
        if rng.random() < 0.03 and n > 1:
            p[0] = p[1]                     # duplicate: refused
        order = [str(x) for x in p]
    t = ["DM", str(n), "order"] + order
    for _ in range(3):
        t += ["env", str(rng.randint(0, 7)), str(rng.randint(0, 7)), str(rng.randint(0, 5)), str(rng.randint(1, 3))]
    t.append("dims")
    for k in range(n):
        if k:
            t.append(",")
        t += gen_dim(rng)
    t.append("args")
    for k in range(n):
        if k:
            t.append(",")
        t += G.gen_expr(rng, rng.choice([0, 1, 1, 2]))[0]
    return " ".join(t)


CLASSES = [["N", "*", "2"], ["N", "+", "1"], ["N", "<<", "1"], ["N", "<", "M"], ["N", "==", "M"], ["N", "&", "3"],
           ["N", "^", "1"], ["N", "|", "4"], ["N", "&&", "M"], ["N", "||", "P"], ["N", "?", "M", ":", "P"],
           ["-", "N"], ["!", "N"], ["~", "N"], ["N", "%", "3"], ["N", "/", "2"], ["M", ">>", "1"]]


def exhaustive_small():
    """all 33 permutations of the arities 1-4 (plus the attribute-less form), the index arguments cycling through one
    expression of every operator class"""
    cases = []
    k = 0
    for n in (1, 2, 3, 4):
        orders = [["id"]] + [[str(x) for x in p] for p in itertools.permutations(range(n))]
        for order in orders:
            t = ["DM", str(n), "order"] + order + ["env", "1", "2", "3", "1", "env", "5", "0", "2", "2", "env", "0", "6", "1", "3"]
            t.append("dims")
            for j in range(n):
                if j:
                    t.append(",")
                t += [["4"], ["M", "+", "3"], ["5"], ["P", "|", "2"]][(j + k) % 4]
            t.append("args")
            for j in range(n):
                if j:
                    t.append(",")
                t += CLASSES[(k + 5 * j) % len(CLASSES)]
            k += 1
            cases.append(" ".join(t))
    return cases


def simplifications(case):
    t = case.split()
    if len(t) < 4 or t[0] != "DM" or "dims" not in t or "args" not in t:
        return []
    try:
        n = int(t[1])
    except ValueError:
        return []
    iD, iA = t.index("dims"), t.index("args")
    pre = t[3:iD]
    k = min([pre.index("env")] if "env" in pre else [len(pre)])
    order, envtoks = pre[:k], pre[k:]
    envs, cur = [], None
    for x in envtoks:
        if x == "env":
            cur = []
            envs.append(cur)
        elif cur is not None:
            cur.append(x)

    def split(toks):
        res, cur = [], []
        for x in toks:
            if x == ",":
                res.append(cur)
                cur = []
            else:
                cur.append(x)
        res.append(cur)
        return res
    dims, args = split(t[iD + 1:iA]), split(t[iA + 1:])
    if len(dims) != n or len(args) != n:
        return []

    def build(n_, order_, envs_, dims_, args_):
        s = ["DM", str(n_), "order"] + order_
        for e in envs_:
            s += ["env"] + e
        s.append("dims")
        for j, d in enumerate(dims_):
            s += ([","] if j else []) + d
        s.append("args")
        for j, a in enumerate(args_):
            s += ([","] if j else []) + a
        return " ".join(s)
    out = []
    if len(envs) > 1:
        for e in envs:
            out.append(build(n, order, [e], dims, args))
    if order != ["id"]:
        out.append(build(n, ["id"], envs, dims, args))
    if n > 2:
        out.append(build(2, ["id"], envs, dims[:2], args[:2]))
        out.append(build(2, ["id"], envs, dims[-2:], args[-2:]))
    for j in range(n):
        for repl in (["1"], ["N"]):
            if args[j] != repl:
                out.append(build(n, order, envs, dims, args[:j] + [repl] + args[j + 1:]))
        if dims[j] != ["3"]:
            out.append(build(n, order, envs, dims[:j] + [["3"]] + dims[j + 1:], args))
    seen, res = set(), []
    for c in out:
        if c != case and c not in seen:
            seen.add(c)
            res.append(c)
    return res


def nontrivial(case, s_obs):
    t = case.split()
    if not s_obs.startswith("S V ") or len(t) < 2 or t[1] == "1":
        return False
    args = t[t.index("args"):] if "args" in t else []
    return any(x in args for x in ("+", "-", "*", "/", "%", "<<", ">>", "<", "<=", ">", ">=", "==", "!=", "&", "^", "|",
                                   "&&", "||", "?", "!", "~"))


def impl_cmd():
    return ["python3", os.path.join(C.VERIF, "tools", "C19_emit.py"), C.build_driver("C17", flavour="asan")]


def build_model():
    return C.build_model(PROP, extra_ml=[os.path.join(C.VERIF, "extract", "C17", "common.ml")])


def coq():
    return C.coq_properties(PROP, dirs=["C19", "C17", "lib"], extra_targets=["C19/Extract.vo"])


def setup():
    C.build_lib("asan")
    C.build_driver("C17", flavour="asan")
    coq()
    build_model()


def run(run, tier, seed, replay_case=None):
    C.build_lib("asan")
    cmd = impl_cmd()
    pr = coq()
    run.add_proof(pr, CHECKER)
    run.coverage["trusted_base"] = TRUSTED
    model = build_model()
    rng = random.Random(seed * 7919 + 19)
    corpus = C.load_corpus(PROP)
    n = 500 if tier == "quick" else 4000
    cases = list(corpus) + exhaustive_small() + [gen_case(rng, tier) for _ in range(n)]
    if replay_case is not None:
        cases = [replay_case]
    cases, I, R, S = G.run_generic(run, PROP, cases, cmd, model, pr, simplifications,
                                   "coq/C19/Model.v vs attributes/dim.cpp (emitted subscript)", replay_case)
    cov = run.coverage
    cov["distinct_nontrivial"] = len(set(c for c, s in zip(cases, S) if nontrivial(c, s)))
    cov["rule"] = ("@dim arities 1-4 with no @dimOrder or a random permutation (3% with a duplicated entry, which is "
                   "refused), dimension expressions (literals, variables, sums, random expressions) and index arguments "
                   "that are random expressions over N,M,P,Q and literals from every operator class (depth <= 2), 3 "
                   "environments each; plus an enumerated batch of all 33 permutations of arities 1-4 and the attribute-"
                   "less form with arguments cycling through one expression per operator class; non-trivial = arity >= 2 "
                   "and some index argument contains an operator; distinct = distinct case text")
    k = len(cases)
    cov["samples"] = [dict(case=cases[i], impl=I[i], model=R[i], spec=S[i]) for i in sorted(set([0, k // 2, k - 1]))]
    perms = set()
    for c in cases:
        m = re.match(r"DM (\d) order ((?:\d+ )+|id )", c)
        if m:
            perms.add((m.group(1), m.group(2).strip()))
    cov["orders_seen"] = len(perms)
    cov["translations_per_case"] = 7
    run.assumptions = [
        "index and dimension expressions are side-effect free (no assignment, ++, calls); values small enough that "
        "nothing overflows (environments where an argument itself is undefined are marked UB on all sides)",
        "the bijection theorem is about the documented index on in-range indices; it is not re-tested at run time",
    ]


def replay(run, path):
    case = C.replay_case_from_file(path)
    if case is None:
        print("no case in replay file")
        return 2
    globals()["run"](run, "quick", run.seed, replay_case=case)
    for s in run.coverage.get("samples", [])[:1]:
        print("replayed: %s\nimplementation: %s\nmodel:          %s\nspecification:  %s" % (s["case"], s["impl"], s["model"], s["spec"]))
    return run.finish()
