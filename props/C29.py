"""C29 — C API values keep their value and type through conversions (DESIGN.md 5/C29)."""
import os, random, re, shutil, struct
from vlib import common as C

PROP = "C29"
CHECKER = "make -C /verif/coq -k C29/Properties_C29.vo C29/Extract.vo  (coqc 8.16.1, full .vo)"
TRUSTED = [
    "Coq 8.16.1 kernel incl. vm_compute; no native_compute",
    "hand transcription of src/occa/internal/c/types.cpp, src/c/json.cpp and the json/primitive/kernelArg members they call "
    "into coq/C29/Model.v, tied by the differential run of this check (observations: tag name, bytes, needsFree, value)",
    "float conversions are an interface (record fops) in the theorems; the correspondence instantiates it with OCaml doubles "
    "and Int32.bits_of_float in extract/C29/driver.ml",
    "extraction (ExtrOcamlBasic only) + extract/C29/driver.ml + extract/zutil.ml",
    "drivers/C29.cpp: public C API, plus occa/internal/c/types.hpp for the four probes P/Q/T/K "
    "(occa::c::primitive, newOccaType(primitive[,type]), kernelArg), which no public entry point reaches one at a time",
    "g++ 12 / ASan+UBSan+LSan as the observer of dangling handles, leaks and undefined behaviour; the kernel-run cases use the "
    "uninstrumented `plain` library flavour and a Serial device",
    "handle validity: the model's rule (which C variables an operation makes unusable) is shared by model and specification; "
    "that handles it calls usable really are usable is what ASan observes on the generated histories",
]

META = dict(
    level="Coq theorems: (1) for every scalar kind and every value of its C type, the occaType built by the constructor, by "
          "newOccaType(primitive(x)), by newOccaType(primitive(x),type), by primitive(x,type), by kernelArg(x) and by an object "
          "set/get, array push/get or array insert/get followed by the matching occaJsonGet* accessor has the same tag, size "
          "and value (integers as Z with the C conversions of every step written out; float payloads as bit patterns); an "
          "integer read back at another integer kind that can hold it is unchanged; (2) for every history of create/free/"
          "object set,get,has/array push,insert,get,pop,clear,size/casts/accessors over any number of C variables, every "
          "observation of the model equals what a path-indexed last-write-wins document store requires, as long as the "
          "history stays inside that store's preconditions (refinement by invariant, unbounded); (3) every handle the model "
          "calls usable designates a live heap object and an existing node (invariant over all histories), and the handle "
          "returned by occaCreateJson stays usable across every history that neither frees its object nor assigns the "
          "variable; (4) a bool/signed/float scalar added to an occaScope is declared with its C type in the inlined "
          "kernel and read back unchanged. The model is tied "
          "to the C++ by running the extracted model and the real library on the same cases under ASan/UBSan/LSan.",
    note="Trusted: Coq kernel; the hand model (tie is differential: seeded histories + an enumerated batch of all extreme "
         "values per kind); extraction; drivers; float conversions between different kinds are only tied, not proved "
         "(interface with the hypothesis f32(f64(x)) = x for the one theorem that needs it). Handle validity is partial: "
         "vector reallocation / map node reuse are flagged conservatively (every structural change of a container makes the "
         "handles strictly below it unusable). Paths ('/' in keys), parse/dump and memory/device handles are outside (C25/"
         "C24/C01). Scope values (occaScopeAdd -> inlined kernel): declared C type and value proved for bool/signed/float "
         "kinds; unsigned kinds are the known finding scope_unsigned (declared with the signed type name).",
    technique="Coq round-trip theorems over Z/bit patterns + refinement proof (invariant over histories) + "
              "extracted-model/implementation differential correspondence under sanitizers",
    design_ref="DESIGN.md section 5, C29")

KINDS = ["b", "i8", "u8", "i16", "u16", "i32", "u32", "i64", "u64", "f32", "f64"]
UNSIGNED = ("u8", "u16", "u32", "u64")
INTK = {"b": (0, 1), "i8": (-2**7, 2**7 - 1), "u8": (0, 2**8 - 1), "i16": (-2**15, 2**15 - 1), "u16": (0, 2**16 - 1),
        "i32": (-2**31, 2**31 - 1), "u32": (0, 2**32 - 1), "i64": (-2**63, 2**63 - 1), "u64": (0, 2**64 - 1)}
CT = {"c": "i8", "uc": "u8", "s": "i16", "us": "u16", "i": "i32", "ui": "u32", "l": "i64", "ul": "u64"}
F32_SPECIAL = [0x00000000, 0x80000000, 0x00000001, 0x807fffff, 0x00800000, 0x7f7fffff, 0xff7fffff, 0x3f800000,
               0xbf800000, 0x7f800000, 0xff800000, 0x3eaaaaab, 0x4b800000, 0x4effffff]
F64_SPECIAL = [0x0000000000000000, 0x8000000000000000, 0x0000000000000001, 0x800fffffffffffff, 0x0010000000000000,
               0x7fefffffffffffff, 0xffefffffffffffff, 0x3ff0000000000000, 0xbff0000000000000, 0x7ff0000000000000,
               0xfff0000000000000, 0x3fd5555555555555, 0x4340000000000000, 0x36a0000000000000, 0x47efffffe0000000]


def extremes(k):
    if k == "f32":
        return list(F32_SPECIAL)
    if k == "f64":
        return list(F64_SPECIAL)
    lo, hi = INTK[k]
    s = {lo, hi, 0, 1, lo + 1, hi - 1}
    if lo < 0:
        s |= {-1, -2}
    for b in (7, 8, 15, 16, 31, 32, 53, 63):
        for d in (-1, 0, 1):
            for sg in (1, -1):
                x = sg * (2 ** b) + d
                if lo <= x <= hi:
                    s.add(x)
    return sorted(s)


def rnd_value(rng, k):
    if k in ("f32", "f64"):
        bits = 32 if k == "f32" else 64
        eb, mb = (8, 23) if k == "f32" else (11, 52)
        if rng.random() < 0.4:
            return rng.choice(extremes(k))
        while True:
            x = rng.getrandbits(bits)
            e = (x >> mb) & ((1 << eb) - 1)
            if e == (1 << eb) - 1 and (x & ((1 << mb) - 1)) != 0:
                continue            # NaN excluded
            return x
    lo, hi = INTK[k]
    y = rng.random()
    if y < 0.45:
        return rng.choice(extremes(k))
    if y < 0.6:
        return rng.randint(max(lo, -300), min(hi, 300))
    return rng.randint(lo, hi)


def lit_str(k, v):
    if k == "f32":
        return "f32:%08x" % v
    if k == "f64":
        return "f64:%016x" % v
    return "%s:%d" % (k, v)


def rnd_scalar(rng, kinds=KINDS):
    k = rng.choice(kinds)
    return k, rnd_value(rng, k)


def rnd_bytes(rng, lo=0, hi=6, odd=0.25):
    n = rng.randint(lo, hi)
    out = []
    for _ in range(n):
        if rng.random() < odd:
            out.append(rng.choice([0x01, 0x7f, 0x80, 0xff, 0x5c, 0x22, 0x27, 0x20, 0x0a, 0xe9]))
        else:
            out.append(rng.choice([0x61, 0x62, 0x63, 0x6b, 0x30]))
    return "".join("%02x" % b for b in out if b != 0x2f and b != 0)


def fval(k, bits):
    if k == "f32":
        return struct.unpack("<f", struct.pack("<I", bits))[0]
    return struct.unpack("<d", struct.pack("<Q", bits))[0]


def conv_ok(k0, v, k):
    """May the generator ask for this conversion?  (no C undefined behaviour, no double rounding in the OCaml stand-in)"""
    if k0 == k:
        return True
    f0, f1 = k0 in ("f32", "f64"), k in ("f32", "f64")
    if not f0 and not f1:
        return True
    if not f0 and f1:
        return k == "f64" or abs(v) < 2 ** 53
    x = fval(k0, v)
    if x != x or x in (float("inf"), float("-inf")):
        return k == "f64" or (k == "f32" and k0 == "f64" and False)
    if f1:
        return k == "f64" or abs(x) <= 3.4028234663852886e38
    if k == "b":
        return True
    lo, hi = INTK[k]
    t = int(x)
    return lo <= t <= hi


# ---------------------------------------------------------------- stateless conversion cases
def gen_scalar_case(rng):
    toks = []
    for _ in range(rng.randint(6, 16)):
        k, v = rnd_scalar(rng)
        l = lit_str(k, v)
        x = rng.random()
        if x < 0.15:
            toks.append("C," + l)
        elif x < 0.27:
            c = rng.choice(list(CT))
            toks.append("A,%s,%d" % (c, rnd_value(rng, CT[c])))
        elif x < 0.42:
            toks.append("P," + l)
        elif x < 0.62:
            k2 = rng.choice(KINDS) if rng.random() < 0.6 else k
            if conv_ok(k, v, k2):
                toks.append("%s,%s,%s" % (rng.choice("QT"), k2, l))
        elif x < 0.78:
            toks.append("K," + l)
        elif x < 0.88:
            if k not in UNSIGNED:      # unsigned scope values are a known finding: they get cases of their own
                toks.append("SD%s,%s" % (rng.choice("ca"), l))
        else:
            other = rng.choice(["null", "undef", "dflt", "p0", "p1", "s:" + rnd_bytes(rng), "st:" + rnd_bytes(rng, 0, 9)])
            toks.append("%s,%s" % (rng.choice(["C", "K", "P", "SDc", "SDa"]), other))
    return " ".join(toks)


def extreme_cases():
    """Every extreme value of every kind through every conversion path, deterministic."""
    cases = []
    for k in KINDS:
        for v in extremes(k):
            l = lit_str(k, v)
            acc = "gb,%d" if k == "b" else "gn,%d," + k
            t = ["C," + l, "P," + l, "Q,%s,%s" % (k, l), "T,%s,%s" % (k, l), "K," + l] + \
                ([] if k in UNSIGNED else ["SDc," + l, "SDa," + l]) + [
                 "n,0", "os,0,6b,%s" % l, "og,0,6b,4,undef", acc % 4, "ty,4",
                 "n,1", "ap,1,%s" % l, "ag,1,0,5", acc % 5, "ai,1,0,%s" % l, "ag,1,0,6", acc % 6, "ag,1,1,7", acc % 7,
                 "os,0,6b,h6", "og,0,6b,8,undef", acc % 8, "og,0,7a,9,%s" % l, "v,9"]
            for k2 in KINDS:
                if k2 != k and conv_ok(k, v, k2):
                    t.append("Q,%s,%s" % (k2, l))
                    if k != "b":
                        t.append("gn,4,%s" % k2)
            cases.append(" ".join(t))
    for c, k in CT.items():
        cases.append(" ".join("A,%s,%d" % (c, v) for v in extremes(k)))
    return cases


# ---------------------------------------------------------------- JSON histories
class Mirror:
    """A light mirror of the model's state, used only to aim operations (existing keys, array sizes,
    usable handles).  It need not be exact: every generated case is filtered by the extracted model
    (cases on which the model reports UB or INVALID are never sent to the library)."""

    def __init__(self):
        self.roots = {}
        self.next = 0
        self.slot = {}

    def node(self, r, path):
        t = self.roots.get(r)
        for s in path:
            if t is None:
                return None
            if t[0] == "obj" and isinstance(s, str):
                t = t[1].get(s)
            elif t[0] == "arr" and isinstance(s, int):
                t = t[1][s] if 0 <= s < len(t[1]) else None
            else:
                return None
        return t

    def kill_below(self, r, path):
        for n, s in self.slot.items():
            if s and s[0] == r and len(s[1]) > len(path) and s[1][:len(path)] == path:
                self.slot[n] = None

    def usable(self):
        return [n for n, s in self.slot.items() if s and self.node(s[0], s[1]) is not None]


def copy_node(t):
    if t[0] == "obj":
        return ["obj", {k: copy_node(c) for k, c in t[1].items()}]
    if t[0] == "arr":
        return ["arr", [copy_node(c) for c in t[1]]]
    return list(t)


def gen_json_case(rng, tier):
    M = Mirror()
    toks = []
    keys = [rnd_bytes(rng, 1, 3) or "6b" for _ in range(3)] + ["6b"]
    nops = rng.randint(8, 26 if tier == "quick" else 48)
    wild = rng.random() < 0.2          # one case in five also probes the raising / growing / re-typing calls
    pw = (lambda p: rng.random() < p) if wild else (lambda p: rng.random() < p * 0.04)

    def new_root():
        n = rng.choice([0, 1, 2, 3])
        if M.slot.get(n) and M.slot[n][2]:
            return
        r = M.next
        M.next += 1
        M.roots[r] = ["none"]
        M.slot[n] = (r, (), True)
        toks.append("n,%d" % n)

    def value(prefer=None):
        x = rng.random()
        if x < 0.5:
            k, v = rnd_scalar(rng)
            return lit_str(k, v), ["num", k, v]
        if x < 0.65:
            s = rnd_bytes(rng, 0, 8)
            return "s:" + s, ["str", s]
        if x < 0.72:
            return rng.choice(["null", "p0"]), ["null"]
        us = M.usable()
        if us and x < 0.93:
            m = rng.choice(us)
            t = M.node(*M.slot[m][:2])
            if t[0] != "none":
                return "h%d" % m, copy_node(t)
        if pw(0.5):
            return rng.choice(["p1", "undef", "dflt", "st:0102"]), None
        k, v = rnd_scalar(rng)
        return lit_str(k, v), ["num", k, v]

    new_root()
    for _ in range(nops):
        us = M.usable()
        x = rng.random()
        if not us or x < 0.06:
            new_root()
            continue
        n = rng.choice(us)
        r, path, owned = M.slot[n]
        t = M.node(r, path)
        tgt = rng.choice([4, 5, 6, 7, 8, 9])
        if x < 0.09:
            toks.append("f,%d" % n)
            if owned:
                M.roots.pop(r, None)
                for m, s in list(M.slot.items()):
                    if s and s[0] == r:
                        M.slot[m] = None
            M.slot[n] = None
            toks.append("u,%d" % n)
            continue
        if x < 0.13:
            toks.append(rng.choice(["ty,%d", "v,%d", "u,%d"]) % n)
            continue
        kind = t[0]
        if kind == "none":
            kind = rng.choice(["obj", "arr"])
            if rng.random() < 0.15:
                c = rng.choice("bnsao" if wild else "sao")
                toks.append("ct,%d,%s" % (n, c))
                t[:] = {"b": ["num", "b", 0], "n": ["num", "i32", 0], "s": ["str", ""], "a": ["arr", []], "o": ["obj", {}]}[c]
                continue
            t[:] = [kind, {} if kind == "obj" else []]
        if kind == "obj":
            key = rng.choice(list(t[1].keys()) + keys) if rng.random() < 0.85 else (rnd_bytes(rng, 0 if wild else 1, 4) or "6b6b")
            y = rng.random()
            if y < 0.45:
                vs, vt = value()
                toks.append("os,%d,%s,%s" % (n, key, vs))
                if vt is not None and key != "":
                    t[1][key] = vt
                    M.kill_below(r, path + (key,))
                elif vt is not None:
                    t[:] = vt
                    M.kill_below(r, path)
            elif y < 0.85:
                if rng.random() < 0.3:
                    k, v = rnd_scalar(rng)
                    d = lit_str(k, v)
                else:
                    d = rng.choice(["undef", "undef", "null", "dflt", "s:" + rnd_bytes(rng)])
                toks.append("og,%d,%s,%d,%s" % (n, key, tgt, d))
                if key == "":
                    M.slot[tgt] = (r, path, False)
                elif key in t[1] and t[1][key][0] != "null":
                    M.slot[tgt] = (r, path + (key,), False)
                else:
                    M.slot[tgt] = None
                if key in t[1] or rng.random() < 0.5:
                    c = t[1].get(key)
                    if c and c[0] == "num":
                        if c[1] == "b":
                            toks.append("gb,%d" % tgt)
                        k2 = c[1] if rng.random() < 0.7 else rng.choice(KINDS)
                        if conv_ok(c[1], c[2], k2):
                            toks.append("gn,%d,%s" % (tgt, k2))
                    elif c and c[0] == "str":
                        toks.append("gs,%d" % tgt)
                    elif c and c[0] != "null":
                        toks.append(rng.choice(["ty,%d", "v,%d", "gs,%d", "gb,%d", "gn,%d,i32"]) % tgt)
                    else:
                        toks.append((rng.choice(["ty,%d", "gs,%d", "gb,%d", "gn,%d,i32"]) if pw(0.5) else "v,%d") % tgt)
            elif y < 0.93:
                toks.append("oh,%d,%s" % (n, key))
            elif y < 0.96 or wild:
                c = rng.choice("bnsao" if wild else "o")
                toks.append("ct,%d,%s" % (n, c))
                if c != "o":
                    t[:] = {"b": ["num", "b", 0], "n": ["num", "i32", 0], "s": ["str", ""], "a": ["arr", []]}[c]
                    M.kill_below(r, path)
        elif kind == "arr":
            size = len(t[1])
            y = rng.random()
            if y < 0.3:
                vs, vt = value()
                toks.append("ap,%d,%s" % (n, vs))
                if vt is not None:
                    t[1].append(vt)
                    M.kill_below(r, path)
            elif y < 0.42 and size > 0:
                i = rng.randint(0, size - 1)
                vs, vt = value()
                toks.append("ai,%d,%d,%s" % (n, i, vs))
                if vt is not None:
                    t[1].insert(i, vt)
                    M.kill_below(r, path)
            elif y < 0.46 and pw(0.6):
                i = rng.choice([size, size + 1, -1, size + 2, size])
                vs, vt = value()
                toks.append("ai,%d,%d,%s" % (n, i, vs))      # out of bounds: raises
            elif y < 0.78:
                grow = pw(0.3)
                if size == 0 and not grow:
                    if rng.random() < 0.3:
                        toks.append("az,%d" % n)
                    else:
                        vs, vt = value()
                        toks.append("ap,%d,%s" % (n, vs))
                        if vt is not None:
                            t[1].append(vt)
                            M.kill_below(r, path)
                    continue
                i = rng.randint(size, size + 3) if grow else rng.randint(0, size - 1)
                toks.append("ag,%d,%d,%d" % (n, i, tgt))
                if i >= size:
                    t[1].extend([["null"]] * (i - size) + [["none"]])
                    M.kill_below(r, path)
                c = t[1][i]
                M.slot[tgt] = (r, path + (i,), False) if c[0] != "null" else None
                if c[0] == "num":
                    if c[1] == "b":
                        toks.append("gb,%d" % tgt)
                    k2 = c[1] if rng.random() < 0.7 else rng.choice(KINDS)
                    if conv_ok(c[1], c[2], k2):
                        toks.append("gn,%d,%s" % (tgt, k2))
                elif c[0] == "str":
                    toks.append("gs,%d" % tgt)
                else:
                    toks.append(rng.choice(["ty,%d", "v,%d"]) % tgt)
            elif y < 0.84 and size > 0:
                toks.append("ao,%d" % n)
                t[1].pop()
                M.kill_below(r, path)
            elif y < 0.88:
                toks.append("ac,%d" % n)
                t[1][:] = []
                M.kill_below(r, path)
            elif y < 0.95 or not wild:
                toks.append("az,%d" % n)
            else:
                c = rng.choice("bnsao")
                toks.append("ct,%d,%s" % (n, c))
                if c != "a":
                    t[:] = {"b": ["num", "b", 0], "n": ["num", "i32", 0], "s": ["str", ""], "o": ["obj", {}]}[c]
                    M.kill_below(r, path)
        else:
            # a leaf: accessors, casts, misuse as a container (raises)
            y = rng.random()
            if y < 0.5:
                if t[0] == "num":
                    k2 = t[1] if rng.random() < 0.6 else rng.choice(KINDS)
                    if conv_ok(t[1], t[2], k2):
                        toks.append("gn,%d,%s" % (n, k2))
                    toks.append("gb,%d" % n)
                else:
                    toks.append(rng.choice(["gs,%d", "gb,%d", "gn,%d,i64", "ty,%d"]) % n)
            elif y < 0.8:
                c = rng.choice("bnsao") if wild else ("s" if t[0] == "str" else rng.choice("nb") if t[0] == "num" and t[1] not in ("f32", "f64") else "n" if t[0] == "num" else rng.choice("sao"))
                toks.append("ct,%d,%s" % (n, c))
                if c == "b":
                    if t[0] == "num":
                        nz = (t[2] != 0) if t[1] not in ("f32", "f64") else ((t[2] & ((1 << (31 if t[1] == "f32" else 63)) - 1)) != 0)
                        t[:] = ["num", "b", 1 if nz else 0]
                    else:
                        t[:] = ["num", "b", 0]
                elif c == "n":
                    if t[0] != "num":
                        t[:] = ["num", "i32", 0]
                elif c == "s":
                    if t[0] != "str":
                        t[:] = ["str", ""]
                elif c == "a":
                    t[:] = ["arr", []]
                else:
                    t[:] = ["obj", {}]
            elif pw(0.8):
                toks.append(rng.choice(["os,%d,6b,i8:1", "ap,%d,i8:1", "az,%d", "oh,%d,6b", "ag,%d,0,9"]) % n)
                if toks[-1].startswith("ag"):
                    M.slot[9] = None
            else:
                toks.append("ty,%d" % n)
    # final read-back of everything still reachable + clean-up of some roots
    for n in M.usable():
        toks.append("ty,%d" % n)
    for n, s in list(M.slot.items()):
        if s and s[2] and rng.random() < 0.6:
            toks.append("f,%d" % n)
    return " ".join(toks)


def gen_kr_case(rng):
    toks = []
    for _ in range(rng.randint(1, 3)):
        mode = rng.choice("012")
        if rng.random() < 0.2:
            toks.append("KR%s,b:%d" % (mode, rng.randint(0, 1)))
            continue
        parts = []
        for k in ["i8", "u8", "i16", "u16", "i32", "u32", "i64", "u64", "f32", "f64"]:
            parts.append(lit_str(k, rnd_value(rng, k)))
        s = rnd_bytes(rng, 0, 40, odd=0.3)
        st = "".join("%02x" % rng.choice([0, 1, 0x7f, 0x80, 0xff, rng.randint(0, 255)]) for _ in range(16))
        toks.append("KR%s,%s,null,s:%s,st:%s" % (mode, ",".join(parts), s, st))
    return " ".join(toks)


SHAPE_S = ["b", "i8", "i16", "i32", "i64", "f32", "f64"]
SHAPE_U = ["u8", "u16", "u32", "u64"]


def gen_scope_case(rng):
    """An inlined (JIT) kernel reading scope values; bool/signed/float kinds only."""
    toks = []
    for _ in range(rng.randint(1, 3)):
        toks.append("SC%s,%s" % (rng.choice("ca"), ",".join(lit_str(k, rnd_value(rng, k)) for k in SHAPE_S)))
    return " ".join(toks)


def scope_extreme_cases():
    ex = {k: extremes(k) for k in SHAPE_S}
    n = max(len(v) for v in ex.values())
    return ["SC%s,%s" % ("ca"[i % 2], ",".join(lit_str(k, ex[k][i % len(ex[k])]) for k in SHAPE_S)) for i in range(n)]


def scope_unsigned_cases(rng):
    """Known finding scope_unsigned: unsigned scope values are declared with the signed type.  Kept in cases of their
    own (nothing but unsigned scope operations) so that the finding cannot hide a different failure."""
    cases = []
    for k in SHAPE_U:
        vs = [0, 1, INTK[k][1], INTK[k][1] // 2 + 1]
        cases.append(" ".join("SD%s,%s" % ("ca"[i % 2], lit_str(k, v)) for i, v in enumerate(vs)))
    runs = []
    for i in range(3):
        vals = [rnd_value(rng, k) for k in SHAPE_U] if i else [INTK[k][1] for k in SHAPE_U]
        runs.append("SC%s,%s" % ("ca"[i % 2], ",".join(lit_str(k, v) for k, v in zip(SHAPE_U, vals))))
    return cases, runs


def kr_extreme_cases():
    cases = []
    ks = ["i8", "u8", "i16", "u16", "i32", "u32", "i64", "u64", "f32", "f64"]
    ex = {k: extremes(k) for k in ks}
    n = max(len(v) for v in ex.values())
    for i in range(n):
        parts = [lit_str(k, ex[k][i % len(ex[k])]) for k in ks]
        cases.append("KR%d,%s,null,s:%s,st:%s" % (i % 3, ",".join(parts), "68656c6c6f" * (i % 4), "%032x" % (i * 0x0123456789abcdef1 % 2**128)))
    cases += ["KR0,b:0 KR0,b:1", "KR1,b:1 KR2,b:0 KR2,b:1"]
    return cases


# ---------------------------------------------------------------- verdict plumbing
BAD_OBS = re.compile(r"(^|[ ;|\[])(UB|INVALID)($|[;|\]])")


class Diff(C.Differential):
    """The specification line may leave an observation unconstrained (`*`): compare position by position."""

    def eval(self, lines, parallel=True):
        """Cases on which the model reports UB or a dangling handle are never run against the library (that also
        holds for the candidates the shrinker makes by deleting tokens): they count as "no requirement, no difference"."""
        R, S = C.run_model(self.model_exe, lines)
        ok = [i for i, r in enumerate(R) if not BAD_OBS.search(r[2:])]
        sub = [lines[i] for i in ok]
        if parallel and len(sub) > 40:
            Isub = C.run_impl_parallel(self.impl_cmd, sub, env=self.env, jobs=self.jobs, timeout=self.impl_timeout)
        elif sub:
            Isub = C.run_impl_isolating(self.impl_cmd, sub, env=self.env, timeout=self.impl_timeout)
        else:
            Isub = []
        I = list(R)
        S = list(S)
        for i, x in zip(ok, Isub):
            I[i] = x
        okset = set(ok)
        for i in range(len(lines)):
            if i not in okset:
                S[i] = ""
        return I, R, S

    def fails_spec(self, i_obs, s_obs):
        if s_obs == "":
            return False
        i = i_obs[2:].split(";") if i_obs.startswith("R ") else [i_obs]
        s = s_obs[2:].split(";")
        if i_obs.startswith("R CRASH") or " | " in i_obs:
            return any(x != "*" for x in s)
        if len(i) != len(s):
            return True
        return any(b != "*" and a != b for a, b in zip(i, s))


def sig_scope_unsigned(case):
    """The case consists of nothing but scope operations that carry an unsigned scalar."""
    toks = case.split()
    return bool(toks) and all(t[:2] in ("SD", "SC") and re.search(r",u(8|16|32|64):", t) for t in toks)


def limit_failures(D, cases, I, R, S, keep=5):
    """When many cases fail (a broken conversion fails hundreds of them), hand only the shortest few to the
    shrinker/judge; the others are counted, not shrunk one by one.  Cases that match a known-finding signature are
    budgeted separately, so that they never displace a different failure."""
    fails = [i for i in range(len(cases)) if D.fails_spec(I[i], S[i])]
    known = [i for i in fails if any(f(cases[i]) for f in SIGNATURES.values())]
    other = [i for i in fails if i not in set(known)]
    if len(other) <= keep and len(known) <= 3:
        return cases, I, R, S, len(fails)
    bylen = lambda i: (len(cases[i].split()), len(cases[i]))
    chosen = set(sorted(other, key=bylen)[:keep]) | set(sorted(known, key=bylen)[:3])
    idx = [i for i in range(len(cases)) if i in chosen or i not in set(fails)]
    return [cases[i] for i in idx], [I[i] for i in idx], [R[i] for i in idx], [S[i] for i in idx], len(fails)


SIGNATURES = {"scope_unsigned": sig_scope_unsigned}


def extra_known():
    """docs/notes/C29.known: known-finding lines proposed by this property but not yet merged into known_findings.txt."""
    p = os.path.join(C.VERIF, "docs", "notes", "C29.known")
    res = []
    if os.path.exists(p):
        for line in open(p):
            line = line.strip()
            if line and not line.startswith("#"):
                parts = [x.strip() for x in line.split("|")]
                if len(parts) >= 4 and parts[0] == PROP:
                    res.append(dict(prop=parts[0], signature=parts[1], input=parts[2], what=" | ".join(parts[3:])))
    return res


def model_filter(model, cases):
    """Drop cases on which the model reports undefined behaviour or a dangling handle: they are outside what may be run
    against the library (the generator's mirror is only approximate)."""
    if not cases:
        return [], 0
    R, S = C.run_model(model, cases)
    keep = [c for c, r in zip(cases, R) if not BAD_OBS.search(r[2:])]
    return keep, len(cases) - len(keep)


def setup():
    C.build_driver(PROP, flavour="asan")
    C.build_model(PROP)


def run(run, tier, seed, replay_case=None):
    C.build_lib("asan")
    impl = C.build_driver(PROP, flavour="asan")
    pr = C.coq_properties(PROP, extra_targets=["C29/Extract.vo"])
    run.add_proof(pr, CHECKER)
    run.coverage["trusted_base"] = TRUSTED
    model = C.build_model(PROP)

    rng = random.Random(seed * 7919 + 29)
    corpus = C.load_corpus(PROP)
    quick = tier == "quick"
    n_scalar, n_json, n_kr = (600, 1800, 25) if quick else (12000, 50000, 300)
    conv = [c for c in corpus if "KR" not in c and "SC" not in c] + extreme_cases() + [gen_scalar_case(rng) for _ in range(n_scalar)]
    hist = [gen_json_case(rng, tier) for _ in range(n_json)]
    jit = lambda c: "KR" in c or "SC" in c            # cases that build and run a kernel: plain flavour, one process
    ku_decl, ku_run = scope_unsigned_cases(rng)
    conv = conv + ku_decl
    kr = ([c for c in corpus if jit(c)] + kr_extreme_cases() + scope_extreme_cases() + ku_run +
          [gen_kr_case(rng) for _ in range(n_kr)] + [gen_scope_case(rng) for _ in range(n_kr)])
    if replay_case is not None:
        conv, hist, kr = ([], [], [replay_case]) if jit(replay_case) else ([replay_case], [], [])
    conv = [c for c in conv if c.strip()]
    hist = [c for c in hist if c.strip()]
    cases, dropped = model_filter(model, conv + hist)
    if replay_case is not None and not cases and not kr:
        cases = [replay_case]

    known_extra = extra_known()
    orig_known = C.load_known_findings
    C.load_known_findings = lambda prop: orig_known(prop) + (known_extra if prop == PROP else [])
    try:
        prop_fails = corr = 0
        I = R = S = []
        if cases:
            D = Diff(run, PROP, [impl], model, C.lib_env("asan"), signatures=SIGNATURES, keep_first=0,
                     model_desc="coq/C29/Model.v vs src/occa/internal/c/types.cpp + src/c/json.cpp")
            I, R, S = D.eval(cases)
            jc, jI, jR, jS, nf = limit_failures(D, cases, I, R, S)
            pf, cb = D.judge(jc, jI, jR, jS, proof_failures=pr["failures"], max_report=4)
            prop_fails, corr = nf, len(cb)
            run.coverage["evaluations"] += len(cases) - len(jc)
        Ik = Rk = Sk = []
        if kr:
            C.build_lib("plain")
            implp = C.build_driver(PROP, flavour="plain")
            cache = os.path.join(C.WORK, "C29-cache-%d" % os.getpid())
            shutil.rmtree(cache, ignore_errors=True)
            try:
                envp = C.lib_env("plain", cache_dir=cache)
                Dk = Diff(run, PROP, [implp], model, envp, signatures=SIGNATURES, keep_first=0, jobs=1,
                          model_desc="coq/C29/Model.v kernel_run vs occaKernelPushArg/RunN/RunWithArgs + Serial kernel")
                Ik, Rk, Sk = Dk.eval(kr, parallel=False)
                jc, jI, jR, jS, nf = limit_failures(Dk, kr, Ik, Rk, Sk, keep=3)
                pf, cb = Dk.judge(jc, jI, jR, jS, proof_failures=pr["failures"], max_report=4)
                prop_fails += nf
                corr += len(cb)
                run.coverage["evaluations"] += len(kr) - len(jc)
            finally:
                shutil.rmtree(cache, ignore_errors=True)
    finally:
        C.load_known_findings = orig_known

    # cases excused by a known finding still have to agree with the model (the judge compares model and
    # implementation only on cases that meet the specification)
    kf_breaks = [(c, i, r) for c, i, r in zip(cases + kr, list(I) + list(Ik), list(R) + list(Rk))
                 if any(f(c) for f in SIGNATURES.values()) and i != r]
    if kf_breaks and not run.violations:
        c, i, r = kf_breaks[0]
        run.violation("correspondence break on a known-finding case",
                      "the model no longer describes the implementation on a case excused by a known finding (%d such cases)\n"
                      "first disagreeing case: %s\nimplementation: %s\nmodel: %s\n" % (len(kf_breaks), c, i, r), no_input=True)
    corr += len(kf_breaks)

    allc, allS = cases + kr, list(S) + list(Sk)
    allI, allR = list(I) + list(Ik), list(R) + list(Rk)
    constrained = [sum(1 for x in s[2:].split(";") if x != "*") for s in allS]
    distinct = set(c for c, k in zip(allc, constrained) if k >= 3)
    cov = run.coverage
    cov["distinct_nontrivial"] = len(distinct)
    cov["correspondence_disagreements"] = corr
    cov["spec_disagreements"] = prop_fails
    cov["rule"] = ("cases = (a) every extreme value of every scalar kind (min, max, 0, +-1, powers of two +-1; +-0, denormals, "
                   "largest finite, infinities as bit patterns) through constructor, primitive, typed primitive, kernelArg, object "
                   "set/get, array push/insert/get and the occaJsonGet* accessor, (b) seeded stateless conversion sequences, "
                   "(c) seeded histories of create/free/set/get/has/push/insert/pop/clear/size/cast/accessors over 10 C variables "
                   "with strings of arbitrary non-NUL bytes, nested JSON copied through handles and deliberately bad values, "
                   "(d) kernel runs echoing 13 arguments (three calling conventions); cases on which the model reports UB or a "
                   "dangling handle are dropped before anything runs; non-trivial = the specification constrains at least 3 "
                   "observations of the case; distinct = distinct case text")
    cov["observations_constrained_by_spec"] = sum(constrained)
    cov["observations_total"] = sum(len(s[2:].split(";")) for s in allS)
    cov["cases_dropped_by_model_filter"] = dropped
    cov["batches"] = dict(conversion=len(conv), histories=len(hist), kernel_runs=len(kr))
    if allc:
        cov["samples"] = [dict(case=allc[i], impl=allI[i], model=allR[i], spec=allS[i])
                          for i in sorted(set((0, len(allc) // 2, len(allc) - 1)))]
    run.assumptions = [
        "scalar literals are values of their C type (the driver passes them through the typed constructor)",
        "NaN payloads are not generated; float->integer conversions that are undefined in C++ are not generated",
        "keys contain no '/' (path syntax is C25) and no NUL; JSON parse/dump are C24",
        "handles are used only while the model's usability rule says they are usable (the driver checks occaIsUndefined "
        "before every use, as a careful C caller would)",
        "kernel-run cases use the plain (uninstrumented) library flavour: the asan flavour aborts in hash.cpp (C27) while "
        "building any kernel",
    ]


def replay(run, path):
    case = C.replay_case_from_file(path)
    if case is None:
        print("no case in replay file")
        return 2
    globals()["run"](run, "quick", run.seed, replay_case=case)
    for s in run.coverage.get("samples", [])[:1]:
        print("replayed: %s\nimplementation: %s\nmodel:          %s\nspecification:  %s" % (s["case"], s["impl"], s["model"], s["spec"]))
    return run.finish()
