"""C26 — mode-specific properties override generic ones only for their mode (DESIGN.md 5/C26)."""
import os, random, re
from vlib import common as C

PROP = "C26"
CHECKER = "make -C /verif/coq -k C26/Properties_C26.vo C26/Extract.vo  (coqc 8.16.1, full .vo)"
TRUSTED = [
    "Coq 8.16.1 kernel incl. vm_compute; no native_compute",
    "hand transcription of src/core/device.cpp (getModeSpecificProps, getObjectSpecificProps, initialObjectProps, "
    "device::setup, kernel/memory/streamProperties), the json operations they use (src/types/json.cpp: const operator[], "
    "operator+, mergeWithObject, remove) and modes.cpp (getMode, setModeProp) into coq/C26/Model.v, tied by the differential "
    "run of this check",
    "extraction (ExtrOcamlBasic + ExtrOcamlString: keys and string values are Coq strings) + extract/C26/driver.ml "
    "(rebuilds the specification's observation by querying every path over the keys of the case) + extract/zutil.ml",
    "drivers/C26.cpp (builds the inputs node by node, replaces occa::settings() per case, walks the resulting json objects)",
    "library built with the Serial and OpenMP modes enabled only (the model's `canon`)",
]

META = dict(
    level="Coq theorems: for all property trees (numbers, strings, nested objects; any keys) given as user properties, "
          "global settings and per-call additional properties, the modelled device::setup and "
          "kernel/memory/streamProperties(additional) produce trees whose value at every path is the one a declarative "
          "layering rule names (settings < user, generic < <object>/modes/<mode> < modes/<mode>/<object>, for the device's "
          "registered mode only), changing anything under modes/<other mode> at any layer changes no result and no error, "
          "and no result has a modes key; construction throws exactly when a layer position holds a non-object. The model "
          "is tied to device.cpp/json.cpp by running the extracted model, the extracted specification and real Serial/OpenMP "
          "devices on the same generated trees.",
    note="Trusted: Coq kernel; the hand model (tie is differential, seeded); extraction incl. ExtrOcamlString; drivers. "
         "null/bool/array/float values, keys containing '/' or '\\\\' and a non-string \"mode\" are outside the model. "
         "The positive theorems describe the code after fixes/C26-1.patch; the pinned behaviour is kept as *_refuted theorems.",
    technique="Coq proof (walk/merge algebra over nested maps, unbounded) + extracted-model/specification/implementation "
              "differential correspondence",
    design_ref="DESIGN.md section 5, C26")

MODES = ["Serial", "OpenMP"]
SPELL = {"Serial": ["Serial", "Serial", "Serial", "serial", "SERIAL"],
         "OpenMP": ["OpenMP", "OpenMP", "OpenMP", "openmp", "OPENMP"]}
OBJECTS = ["kernel", "memory", "stream"]
RELS = ["a", "a", "b", "c", "a/x", "a/y", "b/x", "a/x/y", "b/x/y"]
ODD_KEYS = ["kernel", "memory", "device", "modes", "Serial", "OpenMP", "mode", "stream"]


class Gen:
    def __init__(self, rng):
        self.rng = rng
        self.ctr = 0

    def val(self):
        r = self.rng.random()
        self.ctr += 1
        if r < 0.72:
            return "n%d" % self.ctr
        if r < 0.86:
            return "sv%d" % self.ctr
        return "o"

    def rel(self):
        rng = self.rng
        r = rng.choice(RELS)
        if rng.random() < 0.06:
            # special names used as ordinary keys
            parts = r.split("/")
            parts[rng.randrange(len(parts))] = rng.choice(ODD_KEYS)
            r = "/".join(parts)
        return r

    def case(self, tier):
        rng = self.rng
        self.ctr = 0
        toks = []
        m = rng.choice(MODES)
        other = [x for x in MODES if x != m][0]
        x = rng.random()
        if x < 0.70:
            mode_tok = m
        elif x < 0.85:
            mode_tok = rng.choice(SPELL[m])
        elif x < 0.90:
            mode_tok = None
        elif x < 0.94:
            mode_tok = ""
        else:
            mode_tok = rng.choice(["CUDA", "cuda", "HIP", "Serial2"])
        if mode_tok is not None:
            toks.append("U:mode=s" + mode_tok)

        def mname(own):
            """a spelling of the own / the other mode's name for use under modes/"""
            base = m if own else other
            if rng.random() < 0.12:
                return rng.choice(SPELL[base])
            if mode_tok not in (None, "") and own and rng.random() < 0.1:
                return mode_tok
            return base

        # candidate layer positions
        upos = [""] * 3 + ["modes/%s" % mname(True)] * 3 + ["modes/%s" % mname(False)] * 2
        spos = ["device"] * 3 + ["device/modes/%s" % mname(True)] * 2 + ["modes/%s/device" % mname(True)] * 2 + \
               ["device/modes/%s" % mname(False), "modes/%s/device" % mname(False), "", "modes/%s" % mname(True)]
        for o in OBJECTS:
            w = 3 if o == "kernel" else 1
            for lst in (upos, spos):
                lst += [o] * w + ["%s/modes/%s" % (o, mname(True))] * w + ["modes/%s/%s" % (mname(True), o)] * w
                lst += ["%s/modes/%s" % (o, mname(False)), "modes/%s/%s" % (mname(False), o)]
        apos = [""] * 3 + ["modes/%s" % mname(True)] * 3 + ["modes/%s" % mname(False)] * 2

        nmax = 10 if tier == "quick" else 18
        # a few shared relative paths so that layers really overlap
        shared = [self.rel() for _ in range(rng.randint(1, 3))]
        for layer, pos, lo, hi in (("U", upos, 1, nmax), ("S", spos, 0, nmax), ("A", apos, 0, 5)):
            if layer == "A" and rng.random() < 0.35:
                continue
            if layer == "S" and rng.random() < 0.15:
                continue
            for _ in range(rng.randint(lo, hi)):
                p = rng.choice(pos)
                r = rng.choice(shared) if rng.random() < 0.7 else self.rel()
                # kind conflicts: sometimes a prefix or an extension of a shared path
                y = rng.random()
                if y < 0.12 and "/" in r:
                    r = r.rsplit("/", 1)[0]
                elif y < 0.22:
                    r = r + "/" + rng.choice(["x", "y", "z"])
                path = (p + "/" + r) if p else r
                toks.append("%s:%s=%s" % (layer, path, self.val()))
            if layer == "A" and rng.random() < 0.15:
                toks.append("A:=o")
        # malformed stream: a non-object where the layering expects a set of entries
        if rng.random() < 0.10:
            o = rng.choice(OBJECTS + ["device"])
            bad = rng.choice([
                "U:%s=n7" % rng.choice(OBJECTS), "U:modes/%s=n7" % m, "U:modes=n7", "U:%s/modes=n7" % rng.choice(OBJECTS),
                "U:%s/modes/%s=sq" % (rng.choice(OBJECTS), m), "U:modes/%s/%s=n7" % (m, rng.choice(OBJECTS)),
                "S:%s=n7" % o, "S:%s/modes/%s=n7" % (o, m), "S:modes/%s/%s=sq" % (m, o), "S:modes=n7", "S:modes/%s=n7" % m,
                "A:=n7", "A:=sq", "A:modes/%s=n7" % m, "A:modes=n7",
                "U:modes/%s=n7" % other, "S:%s/modes/%s=n7" % (o, other), "A:modes/%s=n7" % other])
            toks.insert(rng.randint(0, len(toks)), bad)
        # rarities aimed at the code's special keys
        if rng.random() < 0.05:
            o = rng.choice(OBJECTS + ["device"])
            toks.append(rng.choice(["U:%s/%s/modes=n8" % (o, o), "S:%s/%s/modes/x=n8" % (o, o), "U:%s/%s/modes/%s/a=n8" % (o, o, m),
                                    "U:modes/%s/mode=s%s" % (m, other), "S:device/mode=s%s" % other, "U:kernel/mode=n8",
                                    "A:mode=n8", "S:kernel/modes/%s/mode=sq" % m, "U:modes/%s/modes/%s/a=n8" % (m, m)]))
        return " ".join(toks)


def fixed_cases():
    """Deterministic batch: every pair of layer positions holding the same key, for both modes."""
    cases = []
    for m in MODES:
        other = [x for x in MODES if x != m][0]
        upos = ["a", "modes/%s/a" % m, "modes/%s/a" % other]
        spos = ["device/a", "device/modes/%s/a" % m, "modes/%s/device/a" % m, "device/modes/%s/a" % other, "modes/%s/device/a" % other]
        lay = [("U", p) for p in upos] + [("S", p) for p in spos]
        for i in range(len(lay)):
            for j in range(i + 1, len(lay)):
                cases.append("U:mode=s%s %s:%s=n1 %s:%s=n2" % (m, lay[i][0], lay[i][1], lay[j][0], lay[j][1]))
        for o in OBJECTS:
            pos = ["%s/a" % o, "%s/modes/%s/a" % (o, m), "modes/%s/%s/a" % (m, o), "%s/modes/%s/a" % (o, other), "modes/%s/%s/a" % (other, o)]
            lay = [(l, p) for l in "US" for p in pos] + [("A", "a"), ("A", "modes/%s/a" % m), ("A", "modes/%s/a" % other)]
            for i in range(len(lay)):
                for j in range(i + 1, len(lay)):
                    cases.append("U:mode=s%s %s:%s=n1 %s:%s=n2" % (m, lay[i][0], lay[i][1], lay[j][0], lay[j][1]))
            # kind conflicts across the grouping (user leaf under a user object, settings object below)
            cases.append("U:mode=s%s S:%s/a/z=n1 U:%s/a=n2 U:%s/modes/%s/a/w=n3" % (m, o, o, o, m))
            cases.append("U:mode=s%s S:%s/a=n1 U:%s/a/z=n2 U:modes/%s/%s/a=n3 A:a/q=n4" % (m, o, o, m, o))
        for sp in SPELL[m][3:] + ["", "CUDA"]:
            cases.append("U:mode=s%s U:a=n1 U:modes/%s/a=n2 U:modes/%s/a=n3 U:modes/%s/b=n4 U:kernel/modes/%s/c=n5 A:modes/%s/d=n6 A:modes/%s/e=n7"
                         % (sp, m, other, sp or "x", sp or "x", m, sp or "x"))
        cases.append("U:a=n1 U:modes/%s/a=n2 U:modes/%s/b=n3" % (m, other))
    cases.append("U:mode=sSerial U:kernel/kernel/modes=n1 U:kernel/kernel/x=n2")
    return cases


def nontrivial(case):
    """at least three distinct layer positions and one relative key given at two of them"""
    seen = {}
    for tok in case.split():
        m = re.match(r"^([USA]):(.*)=", tok)
        if not m:
            continue
        layer, path = m.group(1), m.group(2)
        mm = re.match(r"^((?:device|kernel|memory|stream)/modes/[^/]+|modes/[^/]+/(?:device|kernel|memory|stream)|modes/[^/]+|device|kernel|memory|stream|)(?:/|$)(.*)$", path)
        pos, rel = (mm.group(1), mm.group(2)) if mm else ("", path)
        seen.setdefault(rel.split("/")[0], set()).add(layer + ":" + pos)
    allpos = set().union(*seen.values()) if seen else set()
    return len(allpos) >= 3 and any(len(v) >= 2 for v in seen.values())


SIGNATURES = {}

PARTS = re.compile(r";(?=[PKMTkmt][{~?nsE])")


class Diff26(C.Differential):
    """`?` in the specification's observation = not defined there (an exception is allowed): the whole case
    (`S ?`) or one of the per-call parts (`k?`)."""

    def fails_spec(self, i_obs, s_obs):
        if s_obs in ("", "S ?"):
            return False
        ip, sp = PARTS.split(i_obs[2:]), PARTS.split(s_obs[2:])
        if len(ip) != len(sp):
            return True
        for a, b in zip(ip, sp):
            if b[1:] == "?":
                continue
            if a != b:
                return True
        return False


def setup():
    C.build_driver(PROP, flavour="asan")
    C.build_model(PROP)


def run(run, tier, seed, replay_case=None):
    C.build_lib("asan")
    impl = C.build_driver(PROP, flavour="asan")
    pr = C.coq_properties(PROP, extra_targets=["C26/Extract.vo"])
    run.add_proof(pr, CHECKER)
    run.coverage["trusted_base"] = TRUSTED
    model = C.build_model(PROP)

    rng = random.Random(seed * 7919 + 26)
    g = Gen(rng)
    corpus = C.load_corpus(PROP)
    n = 4000 if tier == "quick" else 60000
    cases = list(corpus) + fixed_cases() + [g.case(tier) for _ in range(n)]
    if replay_case is not None:
        cases = [replay_case]
    env = C.lib_env("asan")
    D = Diff26(run, PROP, [impl], model, env, signatures=SIGNATURES, keep_first=0,
               model_desc="coq/C26/Model.v (variant fixed) vs src/core/device.cpp + src/types/json.cpp")
    I, R, S = D.eval(cases)
    D.judge(cases, I, R, S, proof_failures=pr["failures"])

    distinct = set(c for c in cases if nontrivial(c))
    cov = run.coverage
    cov["distinct_nontrivial"] = len(distinct)
    cov["rule"] = ("seeded cases = user props / settings / additional props trees over keys {a,b,c,x,y,z}+special names, entries placed "
                   "at the layer positions ('', modes/<M>, <obj>, <obj>/modes/<M>, modes/<M>/<obj>, device..., for the own and the other "
                   "mode, in several spellings), shared relative paths across layers, leaf/object kind conflicts, a malformed stream "
                   "(non-objects at layer positions); plus an enumerated batch of all pairs of layer positions; non-trivial = entries at "
                   ">= 3 distinct layer positions and some first key present at >= 2 of them; distinct = distinct case text")
    idx = [0, len(cases) // 2, len(cases) - 1]
    cov["samples"] = [dict(case=cases[i], impl=I[i], model=R[i], spec=S[i]) for i in idx]
    cov["modes"] = {k: sum(1 for c in cases if ("U:mode=s" + k + " ") in c + " ") for k in ("Serial", "OpenMP", "serial", "openmp", "CUDA")}
    cov["spec_undefined_cases"] = sum(1 for s in S if s == "S ?")
    cov["impl_exceptions"] = sum(1 for i in I if i == "R ERR")
    run.assumptions = ["values are integers, strings or objects; keys contain no '/' or '\\\\'; \"mode\" is a string or absent",
                       "libocca built with the Serial and OpenMP modes only",
                       "occa::settings() is replaced per case (one sentinel key keeps it from being re-filled from the environment)"]


def replay(run, path):
    case = C.replay_case_from_file(path)
    if case is None:
        print("no case in replay file")
        return 2
    globals()["run"](run, "quick", run.seed, replay_case=case)
    for s in run.coverage.get("samples", [])[:1]:
        print("replayed: %s\nimplementation: %s\nmodel:          %s\nspecification:  %s" % (s["case"], s["impl"], s["model"], s["spec"]))
    return run.finish()
