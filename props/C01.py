"""C01 — handles release each backend object exactly once, for any handle history (DESIGN.md 5/C01)."""
import os, random, re
from vlib import common as C

PROP = "C01"
CHECKER = "make -C /verif/coq -k C01/Properties_C01.vo C01/Extract.vo  (coqc 8.16.1, full .vo)"
TRUSTED = [
    "Coq 8.16.1 kernel incl. vm_compute; no native_compute",
    "hand transcription of gc.{hpp,tpp,cpp}, src/core/{memory,memoryPool,device,kernel,stream,streamTag}.cpp and "
    "src/occa/internal/core/{memory,buffer,memoryPool,device,kernel,stream,streamTag}.cpp into coq/C01/Model.v "
    "(pointer-level: leftRingEntry/rightRingEntry/head per cell), tied by the differential run of this check "
    "(isInitialized of every variable, liveness of every backend object, live counters, bytesAllocated and the "
    "order of every ring after every operation)",
    "extraction (ExtrOcamlBasic only) + extract/C01/driver.ml + extract/zutil.ml",
    "drivers/C01.cpp (#define private public; walks rings; ASan shadow memory as the 'object destroyed' oracle)",
    "hooks/C01-1.patch live-object counters (when applied to the tree under test)",
    "g++ 12 / ASan+UBSan+LSan as the observer of use-after-free, double free and leaks in the implementation",
    "pool reservations restricted to one alignment unit (128 bytes) and no slices of reservations: "
    "the pool's placement arithmetic is C03/C04's subject",
]

META = dict(
    level="Coq theorems over a pointer-level model (ring entries with left/right pointers, ring heads, wrappers, "
          "backend objects device->{buffer/pool->memory, kernel, stream, tag}): for every finite history of "
          "create/copy/assign/swap/free/drop/dontUseRefs/device-free operations the fixed code never touches a destroyed "
          "object or wrapper, runs each destructor at most once, keeps every ring equal to the set of live wrappers "
          "(children) that point to its owner, un-initialises every wrapper of a freed object, and leaves nothing "
          "alive once all wrappers are gone except what dontUseRefs() pinned; the pinned (pre-fix) swap and "
          "device-free variants are refuted by computed witnesses.  Tied to the C++ by running the extracted model, "
          "the extracted reference semantics and the real library on the same histories.",
    note="Needs fixes/C01-1.patch (swap) and fixes/C01-2.patch (device free with pools) applied to /repo to be green; "
         "hooks/C01-1.patch adds the live counters to the observation (the check runs without it, using ASan shadow "
         "state for liveness).  Trusted: Coq kernel; the hand model (tie is differential); extraction; drivers.",
    technique="Coq invariant proof over histories (pointer-level rings) + extracted-model/reference/implementation differential",
    design_ref="DESIGN.md section 5, C01")

VARS = {"D": ["D0", "D1"], "M": ["M0", "M1", "M2", "M3", "M4"], "P": ["P0", "P1", "P2"],
        "K": ["K0", "K1"], "S": ["S0", "S1", "S2"], "T": ["T0", "T1"]}


# --------------------------------------------------------------------------- tree inspection

def _read(rel):
    try:
        return open(os.path.join(C.REPO, rel), errors="replace").read()
    except OSError:
        return ""


def tree_variant():
    """Which of the three modelled code variants the tree under test has (see coq/C01/Model.v: variant)."""
    mem, pool = _read("src/core/memory.cpp"), _read("src/core/memoryPool.cpp")
    swap_mem = re.search(r"memory::swap\(memory &m\)\s*\{(.*?)\n  \}", mem, re.S)
    swap_pool = re.search(r"memoryPool::swap\(memoryPool &m\)\s*\{(.*?)\n  \}", pool, re.S)
    def through_assign(m, cls):
        if not m:
            return False
        body = re.sub(r"//[^\n]*", "", m.group(1))
        return bool(re.search(cls + r"\s+tmp\(m\);\s*m = \*this;\s*\*this = tmp;", body))
    v_swap = through_assign(swap_mem, "memory") and through_assign(swap_pool, "memoryPool")
    v_byref = bool(re.search(r"void\s+freeRing\(gc::ring_t<modeType_t>\s*&\s*ring\)", _read("src/occa/internal/core/device.hpp")))
    ipool = _read("src/occa/internal/core/memoryPool.cpp")
    makes = len(re.findall(r"=\s*makeBuffer\(\);", ipool))
    detaches = len(re.findall(r"=\s*makeBuffer\(\);\s*(?://[^\n]*\n\s*)*modeDevice->removeMemoryRef\((?:buffer|newBuffer)\);", ipool))
    v_inner = makes > 0 and detaches == makes
    return "V%d%d%d" % (v_swap, v_byref, v_inner)


def tree_has_hook():
    return os.path.exists(os.path.join(C.REPO, "src/occa/internal/verif.hpp"))


# --------------------------------------------------------------------------- generator

def gen_case(rng, tier):
    """A history: 1-2 devices, a few objects, 2-5 variables per kind in use; operations weighted towards
    swap, self-assignment, free-then-copy, drop of ring head vs tail, device free with live children.
    The generator tracks which variables hold a wrapper, so that most operations apply."""
    maxlen = 18 if tier == "quick" else 30
    n = rng.randint(1, maxlen)
    nvars = {k: rng.randint(2, len(v)) for k, v in VARS.items()}
    nvars["D"] = rng.choice([1, 1, 2])
    use = {k: VARS[k][:nvars[k]] for k in VARS}
    live = set()      # variables that currently hold a wrapper
    toks = []
    focus = rng.choice(["M", "M", "M", "P", "P", "mixed", "mixed", "K", "S", "T", "D"])

    def lives(kind):
        return [v for v in use[kind] if v in live]

    def create(kind, into=None):
        """emit a creating operation for a variable of this kind"""
        if kind == "D":
            v = into or rng.choice(use["D"])
            toks.append("nd:" + v); live.add(v); return v
        if not lives("D"):
            create("D")
        d = rng.choice(lives("D"))
        if kind == "M":
            v = into or rng.choice(use["M"])
            z = rng.random()
            if z < 0.45 or (z < 0.75 and not lives("P") and rng.random() < 0.5):
                toks.append("nm:%s:%s:%d" % (v, d, rng.choice([16, 64, 100])))
            elif z < 0.75:
                if not lives("P"):
                    create("P")
                toks.append("nr:%s:%s" % (v, rng.choice(lives("P"))))
            elif lives("M"):
                toks.append("sl:%s:%s" % (v, rng.choice(lives("M"))))
            else:
                toks.append("nm:%s:%s:%d" % (v, d, 64))
        elif kind == "P":
            v = into or rng.choice(use["P"]); toks.append("np:%s:%s" % (v, d))
        elif kind == "K":
            v = into or rng.choice(use["K"]); toks.append("nk:%s:%s" % (v, d))
        elif kind == "S":
            v = into or rng.choice(use["S"]); toks.append(("ns:%s:%s" if rng.random() < 0.6 else "gs:%s:%s") % (v, d))
        else:
            v = into or rng.choice(use["T"]); toks.append("nt:%s:%s" % (v, d))
        live.add(v)
        return v

    def a_live(kind):
        if not lives(kind) or rng.random() < 0.04:
            if rng.random() < 0.9:
                return create(kind)
            return rng.choice(use[kind])          # now and then an empty variable (skipped by the drivers)
        return rng.choice(lives(kind))

    def an_empty(kind):
        c = [v for v in use[kind] if v not in live]
        if c and rng.random() < 0.92:
            return rng.choice(c)
        return rng.choice(use[kind])

    def kind_choice():
        if focus == "mixed":
            return rng.choice("MMMPPKSTD")
        return focus if rng.random() < 0.7 else rng.choice("MMPPKSTD")

    create("D", "D0")
    for _ in range(n):
        x = rng.random()
        k = kind_choice()
        if x < 0.20:
            create(k, an_empty(k) if rng.random() < 0.6 else None)
        elif x < 0.36:
            b = a_live(k); a = an_empty(k)
            toks.append("cp:%s:%s" % (a, b))
            if a not in live and b in live:
                live.add(a)
        elif x < 0.51:
            a = a_live(k)
            b = a if rng.random() < 0.15 else a_live(k)      # self-assignment
            toks.append("as:%s:%s" % (a, b))
        elif x < 0.66:
            kk = k if k in "MP" else rng.choice("MMP")
            a = a_live(kk)
            b = a if rng.random() < 0.1 else a_live(kk)
            if len(lives(kk)) < 2 and rng.random() < 0.7:
                b = create(kk, an_empty(kk))
            toks.append("sw:%s:%s" % (a, b))
        elif x < 0.76:
            a = a_live(k)
            toks.append("fr:" + a)
            if rng.random() < 0.4:                               # free-then-copy
                b = an_empty(k)
                toks.append("cp:%s:%s" % (b, a))
                if b not in live and a in live:
                    live.add(b)
        elif x < 0.91:
            a = a_live(k)
            toks.append("dr:" + a); live.discard(a)
        elif x < 0.955:
            toks.append("du:" + a_live(k))
        else:
            toks.append("fr:" + a_live("D"))                     # device free with live children
    # every history ends by dropping all variables (in random order), then the sweep
    rest = [v for v in sum(use.values(), []) if v in live]
    rng.shuffle(rest)
    toks += ["dr:" + v for v in rest]
    toks.append("end")
    return toks


def directed():
    """Small deterministic batch: the witnesses of the two defects and their neighbours."""
    L = []
    for k, new in (("M", "nm:%s:D0:64"), ("P", "np:%s:D0")):
        a, b, c = k + "0", k + "1", k + "2"
        mk = lambda v: new % v
        L += [
            [mk(a), mk(b), "sw:%s:%s" % (a, b), "dr:" + b, "dr:" + a],
            [mk(a), mk(b), "sw:%s:%s" % (a, b), "dr:" + a, "dr:" + b],
            [mk(a), "cp:%s:%s" % (c, a), mk(b), "sw:%s:%s" % (a, b), "fr:" + a, "dr:" + c],
            [mk(a), mk(b), "sw:%s:%s" % (a, b), "as:%s:%s" % (a, b), "fr:" + b],
            [mk(a), "cp:%s:%s" % (b, a), "sw:%s:%s" % (a, b), "dr:" + a],
            [mk(a), "sw:%s:%s" % (a, a), "dr:" + a],
            [mk(a), "dr:" + a, mk(a), "cp:%s:%s" % (b, a), "sw:%s:%s" % (b, a), "fr:" + a],
            [mk(a), mk(b), "du:" + a, "sw:%s:%s" % (a, b), "dr:" + a, "dr:" + b],
        ]
    L += [
        ["np:P0:D0", "nr:M0:P0", "fr:D0"],
        ["np:P0:D0", "nr:M0:P0", "dr:D0"],
        ["nm:M1:D0:16", "np:P0:D0", "nr:M0:P0", "fr:M1", "fr:D0"],
        ["nm:M1:D0:16", "np:P0:D0", "nr:M0:P0", "nr:M2:P0", "dr:M1", "dr:D0"],
        ["np:P0:D0", "np:P1:D0", "nr:M0:P0", "nr:M1:P1", "nr:M2:P0", "dr:M0", "nr:M3:P0", "fr:D0"],
        ["np:P0:D0", "nr:M0:P0", "dr:P0", "nm:M1:D0:16", "fr:D0"],
        ["np:P0:D0", "nr:M0:P0", "fr:P0", "dr:M0"],
        ["np:P0:D0", "nr:M0:P0", "du:P0", "dr:P0", "dr:M0"],
        ["nm:M0:D0:64", "sl:M1:M0", "fr:M0", "dr:M1"],
        ["nm:M0:D0:64", "sl:M1:M0", "dr:M0", "sl:M2:M1", "dr:M1", "dr:M2"],
        ["nk:K0:D0", "cp:K1:K0", "fr:K0", "dr:K1", "ns:S0:D0", "gs:S1:D0", "fr:S1", "gs:S2:D0", "fr:D0"],
        ["nt:T0:D0", "cp:T1:T0", "dr:T0", "du:T1", "dr:T1", "dr:D0"],
        ["cp:D1:D0", "nm:M0:D0:16", "dr:D0", "du:D1", "dr:D1", "dr:M0"],
        ["nm:M0:D0:16", "du:D0", "dr:D0", "dr:M0"],
        ["nm:M0:D0:16", "nd:D0", "dr:M0"],
    ]
    return [["nd:D0"] + c + ["end"] for c in L]


def nontrivial(case):
    t = case.split()
    share = any(x[:2] in ("cp", "as", "sw") for x in t)
    kill = any(x[:2] in ("fr", "dr") for x in t[:-1])
    return share and kill


def strip_rings(obs):
    """The reference semantics knows nothing about ring order: drop the R<rings> part of every step."""
    return re.sub(r" R[^;]*", "", obs)


SIGNATURES = {}


def extra_known():
    """Known-finding lines proposed by this property but not yet merged into known_findings.txt."""
    p = os.path.join(C.VERIF, "docs", "notes", "C01.known")
    res = []
    if os.path.exists(p):
        for line in open(p):
            line = line.strip()
            if line and not line.startswith("#"):
                parts = [x.strip() for x in line.split("|")]
                if len(parts) >= 4 and parts[0] == PROP:
                    res.append(dict(prop=parts[0], signature=parts[1], input=parts[2], what=" | ".join(parts[3:])))
    return res


def _env():
    cache = os.path.join(C.WORK, "c01-cache")
    os.makedirs(cache, exist_ok=True)
    return C.lib_env("asan", cache_dir=cache)


def setup():
    C.build_lib("asan")
    C.build_driver(PROP, flavour="asan")
    C.coq_make(["C01/Extract.vo"])
    C.build_model(PROP)


def run(run, tier, seed, replay_case=None):
    C.build_lib("asan")
    impl = C.build_driver(PROP, flavour="asan")
    pr = C.coq_properties(PROP, extra_targets=["C01/Extract.vo"])
    run.add_proof(pr, CHECKER)
    run.coverage["trusted_base"] = TRUSTED
    model = C.build_model(PROP)

    hook = "H1" if tree_has_hook() else "H0"
    variant = tree_variant()
    prefix = [hook, variant]
    rng = random.Random(seed * 7919 + 1)
    corpus = [c for c in C.load_corpus(PROP)]
    n = 700 if tier == "quick" else 20000
    body = directed() + [gen_case(rng, tier) for _ in range(n)]
    cases = []
    for c in corpus:
        t = [x for x in c.split() if not re.match(r"^(H[01]|V[01]{3})$", x)]
        cases.append(" ".join(prefix + t))
    cases += [" ".join(prefix + b) for b in body]
    if replay_case is not None:
        t = [x for x in replay_case.split() if not re.match(r"^(H[01]|V[01]{3})$", x)]
        cases = [" ".join(prefix + t)]
    env = _env()
    # the kernel shared object is built once, before the shards start
    C.run_lines([impl], [" ".join(prefix + ["nd:D0", "nk:K0:D0", "end"])], env=env, timeout=300)

    proof_failures = list(pr["failures"])
    if variant != "V111":
        proof_failures.append("the tree under test is code variant %s, the theorems of Properties_C01.v describe V111 "
                              "(fixes/C01-1.patch: swap through copy/assign = 1st digit; fixes/C01-2.patch: freeRing by "
                              "reference = 2nd digit, pool detaches its buffer from the device ring = 3rd digit)" % variant)
    import vlib.common as VC
    orig_known = VC.load_known_findings
    VC.load_known_findings = lambda prop: orig_known(prop) + (extra_known() if prop == PROP else [])
    try:
        D = C.Differential(run, PROP, [impl], model, env, view=strip_rings, signatures=SIGNATURES, keep_first=3,
                           model_desc="coq/C01/Model.v (variant %s) vs gc.tpp, src/core/*.cpp, src/occa/internal/core/*.cpp" % variant)
        I, R, S = D.eval(cases)
        prop_fails, corr_breaks = D.judge(cases, I, R, S, proof_failures=proof_failures, max_report=4)
    finally:
        VC.load_known_findings = orig_known

    distinct = set(c for c in cases if nontrivial(c))
    cov = run.coverage
    cov["distinct_nontrivial"] = len(distinct)
    cov["rule"] = ("seeded handle histories (1-30 operations + final drops + sweep) over 17 typed variables on 1-2 Serial devices, "
                   "operations weighted towards swap, self-assignment, free-then-copy, drop of ring head/tail, device free with "
                   "live children, plus a directed batch around the two repaired defects; non-trivial = the history shares an "
                   "object between wrappers (copy/assign/swap) and later frees or drops; distinct = distinct case text")
    cov["samples"] = [dict(case=cases[i], impl=I[i], model=R[i], spec=S[i]) for i in sorted(set((0, len(cases) // 2, len(cases) - 1)))]
    ops = ("nd", "nm", "np", "nr", "sl", "nk", "ns", "nt", "gs", "cp", "as", "sw", "fr", "dr", "du")
    cov["op_mix"] = {k: sum(c.count(" " + k + ":") for c in cases) for k in ops}
    cov["tree_variant"] = variant
    cov["hook_present"] = hook == "H1"
    cov["ub_in_model"] = sum(1 for r in R if r.endswith("UB"))
    run.assumptions = ["single thread (the concurrent protocol is C30)",
                       "Serial backend; kernels are loaded from one pre-built shared object with buildKernelFromBinary",
                       "pool reservations are one alignment unit each and reservations are not sliced",
                       "the observation after every operation includes the order of every ring, so a change of ring "
                       "discipline is a correspondence break even when no object leaks"]


def replay(run, path):
    case = C.replay_case_from_file(path)
    if case is None:
        print("no case in replay file")
        return 2
    globals()["run"](run, "quick", run.seed, replay_case=case)
    for s in run.coverage.get("samples", [])[:1]:
        print("replayed: %s\nimplementation: %s\nmodel:          %s\nspecification:  %s" % (s["case"], s["impl"], s["model"], s["spec"]))
    return run.finish()
