"""C08 — a crash at any point of a kernel build never poisons the cache (DESIGN.md 5/C08).

Tie (T): every run builds real kernels under strace with the library built from /repo's working tree,
tools/C08_fstrace.py translates the traces into coq/gen/C08_traces.v, and Coq re-checks (vm_compute)
that (a) every real trace passes `protocol_ok` — the hypothesis of theorem crash_safe — and (b) the
operations on the kernel's cache entry are exactly what the model process `emitted` predicts for the
entry's initial contents (fresh, fully cached, and partially deleted entries).
Supporting replay (a test, not the proof): the builder is really killed with SIGKILL at sampled
syscall boundaries and a fresh process must then build and run the kernel correctly.
"""
import glob, os, random, re, shutil, subprocess, sys, time
from concurrent.futures import ThreadPoolExecutor
from vlib import common as C
sys.path.insert(0, os.path.join(C.VERIF, "tools"))
import C08_fstrace as FT

PROP = "C08"
FLAVOURS = ["asan", "plain"]
CHECKER = "make -C /verif/coq -k C08/Properties_C08.vo gen/C08_traces.vo  (coqc 8.16.1, full .vo; gen/C08_traces.v regenerated from strace of this run)"
TRUSTED = [
    "Coq 8.16.1 kernel incl. vm_compute",
    "translator tools/C08_fstrace.py (strace -f -y text -> op lists; fd tables per process) and strace's output format",
    "model of POSIX semantics in coq/C08/Model.v: rename atomic; a file is Partial from the truncating open until its last writer closes; process kill = no further steps (power loss / fsync ordering not modelled)",
    "hypothesis fresh_temps: distinct processes draw distinct staged temp names (io::getStagedTempFilename = hash_t::random())",
    "drivers/C08.cpp; g++ as the JIT compiler; kill replay via strace --inject (supporting test)",
]
META = dict(
    level="Coq theorems over the file-system protocol of a kernel build: any trace accepted by the decidable check protocol_ok is "
          "safe at every kill point (no completion-tested path ever holds a partial file), and the build state machine run by any "
          "number of processes under any schedule (kill = never scheduled again) keeps that invariant, lets a later process finish "
          "with a complete binary, and never has a binary without its build.json. Tied to the code on every run by a translator: "
          "real builds are straced, translated to the model's operations, and Coq re-checks that the real traces pass protocol_ok "
          "and equal the model process's emitted operations for fresh/cached/partially deleted entries.",
    note="Fault model: process kill (SIGKILL) at any file-system operation; power loss/fsync ordering not modelled. Trusted: the "
         "strace translator, the POSIX model (atomic rename), fresh temp names. Real kill replays are a supporting test.",
    technique="Coq invariant proof over traces and schedules + translator from strace of real builds (obligations re-checked by vm_compute)",
    design_ref="DESIGN.md section 5, C08")

EXPECT = {7: "R OK 7,8,9,10,11,12"}
KILL_SYSCALLS = "openat,rename,mkdir,write,close,fsync"


def kernel_file_text(n):
    return ("@kernel void addN(const int entries, const int *a, int *b) {\n"
            "  for (int i = 0; i < entries; ++i; @tile(4, @outer, @inner)) {\n"
            "    b[i] = a[i] + %d;\n  }\n}\n" % n)


def base_dir(seed):
    d = os.path.join(C.WORK, "C08", "run-%d-%d" % (seed, os.getpid()))
    shutil.rmtree(d, ignore_errors=True)
    os.makedirs(d)
    return d


def run_build(exe, cache, mode, how, n, kfile, strace_out=None, inject_when=None, timeout=300):
    env = C.lib_env("plain", cache_dir=cache)
    env["C08_KERNEL_FILE"] = kfile
    cmd = [exe, mode, how, str(n)]
    if strace_out:
        cmd = ["strace", "-f", "-y", "-o", strace_out, "-e", "trace=file,desc,process", "-e", "signal=none"] + cmd
    elif inject_when is not None:
        # strace keeps one counter per syscall, so a kill point is (syscall name, k-th call of it)
        sc, k = inject_when
        cmd = ["strace", "-o", "/dev/null", "-e", "trace=" + sc,
               "-e", "inject=%s:signal=SIGKILL:when=%d" % (sc, k)] + cmd
    rc, out, err = C.sh(cmd, env=env, timeout=timeout)
    line = ([l for l in out.splitlines() if l.startswith("R ")] or ["R NONE rc=%d %s" % (rc, err[-200:].replace("\n", " "))])[0]
    return rc, line


def listing(cache):
    res = []
    for root, _, files in os.walk(cache):
        for f in files:
            res.append(os.path.join(root, f))
    return sorted(res)


# ---- python mirror of Model.v (only to localise a failing operation for the report)
def py_protocol(ops, init=()):
    fs = dict(init)
    for i, (op, a, b) in enumerate(ops):
        st = fs.get(a, "Absent")
        if op == "OCreate":
            if a[0] == "F" or st != "Absent":
                return i
            fs[a] = "Partial"
        elif op == "OWrite":
            if a[0] == "F":
                return i
            if st != "Absent":
                fs[a] = "Partial"
        elif op == "OClose":
            if st == "Partial":
                fs[a] = "Complete"
        elif op == "ORename":
            if a[0] == "F" or st != "Complete":
                return i
            fs[b] = st
            fs[a] = "Absent"
        elif op == "OUnlink":
            if a[0] == "F":
                return i
            fs[a] = "Absent"
    return None


def collapse_writes(ops):
    out = []
    for o in ops:
        if o[0] == "OWrite" and out and out[-1] == o:
            continue
        out.append(o)
    return out


def entry_runs(tr, ops, pre_listing):
    """Split the operations on kernel hash directories into the two entries the code stages there:
       A = the cached string source (role 1), B = raw source, transformed source, build.json, binary (roles 2-5)."""
    runs = []
    init = {}
    for p in pre_listing:
        mp = tr.mpath(p)
        if mp and mp[0] == "F":
            init[mp] = "Complete"
    target = {}
    for key, k in tr.temps.items():
        d, name = key.split("/", 1)
        fin = FT.TEMP_RE.match(name).group(2)
        target[("T", k)] = ("F", 100 * tr.dirs[d] + FT.role_of(fin, tr.extra))
    kdirs = set()
    for mp in list(tr.names.keys()) + list(init.keys()):
        if mp[0] == "F" and mp[1] % 100 in (2, 3, 4):
            kdirs.add(mp[1] // 100)
    for d in sorted(kdirs):
        def fin_of(mp):
            return mp if mp[0] == "F" else target.get(mp)
        dops = [o for o in ops if fin_of(o[1]) is not None and fin_of(o[1])[1] // 100 == d]
        for roles, binrole in (((1,), 1), ((2, 3, 4, 5), 5)):
            eops = [o for o in dops if fin_of(o[1])[1] % 100 in roles]
            einit = [(mp, st) for mp, st in init.items() if mp[1] // 100 == d and mp[1] % 100 in roles]
            if not eops and not einit:
                continue
            stages = []
            for r in roles:
                fin = ("F", 100 * d + r)
                ks = [mp[1] for mp, t in target.items() if t == fin and any(o[1] == mp for o in eops)]
                stages.append((fin[1], ks[0] if ks else 9000 + r))
            runs.append(dict(init=einit, stages=stages, bin=100 * d + binrole, ops=eops, dir=d))
    return runs


def probe_runs(tr, ops, pre_listing):
    """The compiler-vendor probe and the OpenMP flag probe directories, as programs of coq/C08/GModel.v
    (groups and guards) with the temp ids observed in this trace."""
    init = {}
    for p in pre_listing:
        mp = tr.mpath(p)
        if mp and mp[0] == "F":
            init[mp] = "Complete"
    target = {}
    for key, k in tr.temps.items():
        d, name = key.split("/", 1)
        fin = FT.TEMP_RE.match(name).group(2)
        target[("T", k)] = ("F", 100 * tr.dirs[d] + FT.role_of(fin, tr.extra))
    runs = []
    finals = set(mp for mp in list(tr.names.keys()) + list(init.keys()) if mp[0] == "F")
    for d in sorted(set(mp[1] // 100 for mp in finals)):
        roles = set(mp[1] % 100 for mp in finals if mp[1] // 100 == d)

        def fin_of(mp):
            return mp if mp[0] == "F" else target.get(mp)
        dops = [o for o in ops if fin_of(o[1]) is not None and fin_of(o[1])[1] // 100 == d]

        def f(role):
            fin = ("F", 100 * d + role)
            ks = [mp[1] for mp, t in target.items() if t == fin and any(o[1] == mp for o in dops)]
            return "(%d, %d)" % (fin[1], ks[0] if ks else 9000 + role)
        if 10 in roles:
            prog = "[IGroup true [%s]; IGuard %d; IGroup true [%s; %s]; IGroup false [%s]]" % (
                f(10), 100 * d + 12, f(5), f(11), f(12))
            kind = "vendor probe"
        elif 13 in roles:
            prog = "[IGroup true [%s]; IGroup true [%s; %s]]" % (f(13), f(5), f(12))
            kind = "OpenMP flag probe"
        else:
            continue
        einit = [(mp, st) for mp, st in init.items() if mp[1] // 100 == d]
        runs.append(dict(kind=kind, init=einit, prog=prog, ops=dops, dir=d))
    return runs


def coq_fs(init):
    return "[" + "; ".join("(%s, %s)" % (FT.coq_path(mp), st) for mp, st in sorted(init)) + "]"


def write_gen(traces, runs, gruns=()):
    os.makedirs(os.path.join(C.COQ, "gen"), exist_ok=True)
    L = ["(* GENERATED by props/C08.py from strace of real builds of this run; do not edit. *)",
         "From Coq Require Import List NArith Bool.", "From OV.C08 Require Import Model GModel.", "Import ListNotations.",
         "Local Open Scope N_scope.", ""]
    for i, (name, ops) in enumerate(traces):
        L.append("(* %s *)" % name)
        L.append("Definition trace_%d : list op := %s." % (i, FT.coq_ops(ops)))
    L.append("Definition real_traces : list (list op) := [%s]." % "; ".join("trace_%d" % i for i in range(len(traces))))
    for i, (name, r) in enumerate(runs):
        L.append("(* %s *)" % name)
        L.append("Definition run_%d : real_run := {| r_init := %s; r_stages := [%s]; r_bin := %d; r_ops := %s |}." % (
            i, coq_fs(r["init"]), "; ".join("(%d, %d)" % s for s in r["stages"]), r["bin"], FT.coq_ops(r["ops"])))
    L.append("Definition real_runs : list real_run := [%s]." % "; ".join("run_%d" % i for i in range(len(runs))))
    for i, (name, r) in enumerate(gruns):
        L.append("(* %s *)" % name)
        L.append("Definition grun_%d : real_grun := {| rg_init := %s; rg_prog := %s; rg_ops := %s |}." % (
            i, coq_fs(r["init"]), r["prog"], FT.coq_ops(r["ops"])))
    L.append("Definition real_gruns : list real_grun := [%s]." % "; ".join("grun_%d" % i for i in range(len(gruns))))
    L += ["",
          "(* every real trace satisfies the hypothesis of theorem crash_safe (from the empty cache) *)",
          "Example real_traces_conform : forallb protocol_ok real_traces = true.",
          "Proof. vm_compute. reflexivity. Qed.",
          "(* on every kernel cache entry the real operations are exactly the model process's *)",
          "Example real_runs_match_model : forallb run_matches_model real_runs = true.",
          "Proof. vm_compute. reflexivity. Qed.",
          "(* the probe directories (multi-file staging groups, guards): same publication order and per-temp life cycle as the group model *)",
          "Example real_probe_runs_match_model : forallb grun_matches_model real_gruns = true.",
          "Proof. vm_compute. reflexivity. Qed.",
          "Example real_traces_nonempty : negb (Nat.eqb (length real_traces) 0) && negb (Nat.eqb (length real_runs) 0) = true.",
          "Proof. vm_compute. reflexivity. Qed.", ""]
    with open(os.path.join(C.COQ, "gen", "C08_traces.v"), "w") as f:
        f.write("\n".join(L))


def scenarios(tier):
    modes = ["Serial", "OpenMP"]
    sc = []
    for m in modes:
        for how in ("string", "file"):
            sc.append((m, how, "fresh+cached"))
    # partially deleted entries: which finals (by role) are removed before the rebuild
    dels = [(5,), (4, 5), (3, 4, 5), (2, 3), (4,)] if tier == "quick" else \
        [tuple(r for j, r in enumerate((2, 3, 4, 5)) if (mask >> j) & 1) for mask in range(1, 16)]
    for dset in dels:
        sc.append(("Serial", "string" if len(dset) % 2 else "file", "delete:" + ",".join(map(str, dset))))
    # partially published probe groups ({binary, build.log} of the vendor probe, {binary, output} of the OpenMP probe)
    for roles in ((12,), (5,)) if tier == "quick" else ((12,), (5,), (11,), (5, 11), (10,), (13,)):
        sc.append(("OpenMP", "file", "pdelete:" + ",".join(map(str, roles))))
    return sc


def pregen():
    p = os.path.join(C.COQ, "gen", "C08_traces.v")
    if not os.path.exists(p):
        write_gen([("placeholder", [])], [])


def setup():
    C.build_lib("plain")
    C.build_driver("C08", flavour="plain")
    pregen()


def content_signature(cache):
    """Contents of every cache file except compiled binaries and logs, with the build date removed: an entry rebuilt
    from ANY partial state must end up identical to a fully built one (same sources, same build.json incl. the
    recorded dependencies and metadata)."""
    sig = {}
    for p in listing(cache):
        name = os.path.basename(p)
        if name in ("binary", "build.log", "launcher_binary") or FT.TEMP_RE.match(name):
            continue
        try:
            txt = open(p, errors="replace").read()
        except OSError:
            continue
        if name.endswith(".json"):
            txt = re.sub(r'"(date|human_date)"\s*:\s*"[^"]*",?', "", txt)
            txt = re.sub(r"\s+", " ", txt)
        sig[os.path.relpath(p, cache)] = txt
    return sig


def trace_scenario(exe, base, idx, mode, how, what):
    """returns list of (trace name, translator, ops, pre listing, result line)"""
    cache = os.path.join(base, "cache-%d" % idx)
    os.makedirs(cache)
    kfile = os.path.join(base, "addN-%d.okl" % idx)
    open(kfile, "w").write(kernel_file_text(7))
    out = []

    def one(tag):
        pre = listing(cache)
        st = os.path.join(base, "strace-%d-%s.txt" % (idx, tag))
        rc, line = run_build(exe, cache, mode, how, 7, kfile, strace_out=st)
        tr = FT.translate(st, cache)
        ops = collapse_writes(tr.finish())
        out.append(("%s %s %s [%s]" % (mode, how, what, tag), tr, ops, pre, line, content_signature(cache)))
        os.unlink(st)
    one("fresh")
    if what == "fresh+cached":
        one("cached")
    elif what.startswith("pdelete:"):
        # what a builder killed between the two renames of a probe's staging group leaves behind:
        # one file of the group missing (and the kernel binary, so that the next process really rebuilds)
        roles = set(int(x) for x in what.split(":")[1].split(","))
        for p in listing(cache):
            dfiles = [os.path.basename(q) for q in glob.glob(os.path.dirname(p) + "/*")]
            probe = "findCompilerVendor.cpp" in dfiles or "compilerSupportsOpenMP.cpp" in dfiles
            if probe and FT.role_of(os.path.basename(p), {}) in roles:
                os.unlink(p)
            if not probe and os.path.basename(p) == "binary" and "build.json" in dfiles:
                os.unlink(p)
        one("rebuild")
    else:
        roles = set(int(x) for x in what.split(":")[1].split(","))
        for p in listing(cache):
            name = os.path.basename(p)
            d = os.path.basename(os.path.dirname(p))
            if FT.role_of(name, {}) in roles and any(FT.role_of(os.path.basename(q), {}) in (2, 3, 4) for q in glob.glob(os.path.dirname(p) + "/*")):
                os.unlink(p)
        one("rebuild")
    return out


def delete_one(exe, base, mode, how, only=None):
    """Kill-then-rebuild on the real cache: every subset of complete files may be what a killed builder left
    behind.  After a full build, each single cache file in EVERY cache directory (kernel entry, compiler-vendor
    probe, OpenMP flag probe: the latter two are staged as multi-file groups) is removed in turn and a fresh
    process must still build and run the kernel correctly."""
    cache = os.path.join(base, "del1-%s-%s" % (mode, how))
    shutil.rmtree(cache, ignore_errors=True)
    os.makedirs(cache)
    kfile = os.path.join(base, "del1-%s-%s.okl" % (mode, how))
    open(kfile, "w").write(kernel_file_text(7))
    run_build(exe, cache, mode, how, 7, kfile)
    pristine = cache + "-pristine"
    shutil.rmtree(pristine, ignore_errors=True)
    shutil.copytree(cache, pristine, symlinks=True)
    res = []
    for p0 in listing(pristine):
        rel = os.path.relpath(p0, pristine)
        if only and rel.split("/")[-1] != only:
            continue
        # every trial starts from the complete cache (a rebuild does not necessarily restore the removed file)
        shutil.rmtree(cache, ignore_errors=True)
        shutil.copytree(pristine, cache, symlinks=True)
        os.unlink(os.path.join(cache, rel))
        # the kernel's own binary goes too, otherwise the next process just loads it and stages nothing
        for q in listing(cache):
            if os.path.basename(q) == "binary" and os.path.exists(os.path.join(os.path.dirname(q), "build.json")):
                os.unlink(q)
        rc, line = run_build(exe, cache, mode, how, 7, kfile)
        res.append(dict(mode=mode, how=how, removed=rel, line=line, ok=(line == EXPECT[7])))
    shutil.rmtree(cache, ignore_errors=True)
    shutil.rmtree(pristine, ignore_errors=True)
    return res


def kill_replay(exe, base, tag, mode, how, sc, k):
    cache = os.path.join(base, "kill-%s-%s-%d" % (tag, sc, k))
    os.makedirs(cache, exist_ok=True)
    kfile = os.path.join(base, "kill-%s-%s-%d.okl" % (tag, sc, k))
    open(kfile, "w").write(kernel_file_text(7))
    rc1, l1 = run_build(exe, cache, mode, how, 7, kfile, inject_when=(sc, k))
    killed = (rc1 in (-9, 137)) or l1.startswith("R NONE")
    time.sleep(0.05)
    rc2, l2 = run_build(exe, cache, mode, how, 7, kfile)
    rc3, l3 = run_build(exe, cache, mode, how, 7, kfile)
    shutil.rmtree(cache, ignore_errors=True)
    return dict(mode=mode, how=how, sc=sc, k=k, killed=killed, first=l1, rebuilt=l2, again=l3,
                ok=(l2 == EXPECT[7] and l3 == EXPECT[7]))


def group_kill_replay(exe, base, tag, mode, how, delay):
    """Kill the builder AND its children (compiler, linker) `delay` seconds after start: covers partial files
    written by child processes, which a kill of the builder alone never produces."""
    import signal
    cache = os.path.join(base, "gkill-%s-%d" % (tag, int(delay * 1e6)))
    os.makedirs(cache, exist_ok=True)
    kfile = os.path.join(base, "gkill-%s-%d.okl" % (tag, int(delay * 1e6)))
    open(kfile, "w").write(kernel_file_text(7))
    env = dict(os.environ)
    env.update(C.lib_env("plain", cache_dir=cache))
    env["C08_KERNEL_FILE"] = kfile
    p = subprocess.Popen([exe, mode, how, "7"], env=env, stdout=subprocess.PIPE, stderr=subprocess.PIPE,
                         start_new_session=True, text=True)
    try:
        out, _ = p.communicate(timeout=delay)
        killed = False
    except subprocess.TimeoutExpired:
        try:
            os.killpg(p.pid, signal.SIGKILL)
        except ProcessLookupError:
            pass
        out, _ = p.communicate()
        killed = True
    l1 = ([l for l in (out or "").splitlines() if l.startswith("R ")] or ["R NONE killed" if killed else "R NONE"])[0]
    rc2, l2 = run_build(exe, cache, mode, how, 7, kfile)
    rc3, l3 = run_build(exe, cache, mode, how, 7, kfile)
    shutil.rmtree(cache, ignore_errors=True)
    return dict(mode=mode, how=how, sc="group", k=int(delay * 1e6), killed=killed, first=l1, rebuilt=l2, again=l3, group=True,
                ok=(l2 == EXPECT[7] and l3 == EXPECT[7]))


def build_seconds(exe, base, mode, how):
    cache = os.path.join(base, "time-%s-%s" % (mode, how))
    os.makedirs(cache)
    kfile = os.path.join(base, "time-%s-%s.okl" % (mode, how))
    open(kfile, "w").write(kernel_file_text(7))
    t0 = time.time()
    run_build(exe, cache, mode, how, 7, kfile)
    shutil.rmtree(cache, ignore_errors=True)
    return time.time() - t0


def count_kill_points(exe, base, mode, how):
    """number of calls of each kill syscall made by the builder process itself (children are not traced)"""
    cache = os.path.join(base, "count-%s-%s" % (mode, how))
    shutil.rmtree(cache, ignore_errors=True)
    os.makedirs(cache)
    kfile = os.path.join(base, "count-%s-%s.okl" % (mode, how))
    open(kfile, "w").write(kernel_file_text(7))
    env = C.lib_env("plain", cache_dir=cache)
    env["C08_KERNEL_FILE"] = kfile
    st = os.path.join(base, "count.txt")
    C.sh(["strace", "-o", st, "-e", "trace=" + KILL_SYSCALLS, exe, mode, how, "7"], env=env, timeout=300)
    counts = {}
    for l in open(st, errors="replace"):
        m = re.match(r"^(\w+)\(", l)
        if m:
            counts[m.group(1)] = counts.get(m.group(1), 0) + 1
    os.unlink(st)
    shutil.rmtree(cache, ignore_errors=True)
    return counts


def all_kill_points(counts):
    return [(sc, k) for sc in KILL_SYSCALLS.split(",") for k in range(1, counts.get(sc, 0) + 1)]


def run(run, tier, seed, replay_case=None):
    C.build_lib("plain")
    exe = C.build_driver("C08", flavour="plain")
    base = base_dir(seed)
    rng = random.Random(seed * 104729 + 8)
    try:
        scs = scenarios(tier)
        with ThreadPoolExecutor(max_workers=8) as ex:
            results = list(ex.map(lambda a: trace_scenario(exe, base, a[0], *a[1]), list(enumerate(scs))))
        traces, runs, gruns, bad_results, samples = [], [], [], [], []
        content_bad = []
        for res in results:
            first_sig = res[0][5]
            for name, tr, ops, pre, line, sig in res[1:]:
                m = re.search(r" delete:([\d,]+) ", name)
                if m:
                    # only states a killed builder can leave: files are published in the order raw source,
                    # transformed source, build.json, binary, so what is missing is a suffix of that order
                    # (binary_implies_metadata: a binary without build.json is unreachable)
                    gone = sorted(int(x) for x in m.group(1).split(","))
                    if gone != list(range(gone[0], 6)):
                        continue
                diff = [k for k in sorted(set(first_sig) | set(sig)) if first_sig.get(k) != sig.get(k)]
                if diff:
                    content_bad.append((name, diff, first_sig, sig))
        for res in results:
            for name, tr, ops, pre, line, _sig in res:
                traces.append((name, ops))
                if line != EXPECT[7]:
                    bad_results.append((name, line))
                for r in entry_runs(tr, ops, pre):
                    runs.append((name + " dir %d entry bin=%d" % (r["dir"], r["bin"] % 100), r))
                for r in probe_runs(tr, ops, pre):
                    gruns.append((name + " dir %d %s" % (r["dir"], r["kind"]), r))
        write_gen(traces, runs, gruns)
        pr = C.coq_properties(PROP, gen_targets=["gen/C08_traces.vo"])
        run.add_proof(pr, CHECKER)
        run.coverage["trusted_base"] = TRUSTED

        # localise protocol failures for the report
        proto_fail = []
        for name, ops in traces:
            i = py_protocol(ops)
            if i is not None:
                proto_fail.append((name, i, ops[i]))

        # supporting kill replays
        kills = []
        targets = [("Serial", "string"), ("OpenMP", "file")] if tier == "quick" else \
            [("Serial", "string"), ("Serial", "file"), ("OpenMP", "string"), ("OpenMP", "file")]
        jobs = []
        for mode, how in targets:
            pts = all_kill_points(count_kill_points(exe, base, mode, how))
            if tier == "quick":
                # the late calls are the ones made while staging cache files
                late = [p for p in pts if p[1] > 0.4 * max(q[1] for q in pts if q[0] == p[0])]
                ks = rng.sample(late, min(9, len(late)))
            else:
                ks = pts
            jobs += [(mode, how, sc, k) for sc, k in ks]
        if proto_fail and tier == "quick":
            # a protocol obligation broke: search every kill point of the offending scenario for a real failure
            mode, how = proto_fail[0][0].split()[0], proto_fail[0][0].split()[1]
            pts = all_kill_points(count_kill_points(exe, base, mode, how))
            pts.sort(key=lambda p: (p[0] == "openat", p[0] == "mkdir"))
            jobs += [(mode, how, sc, k) for sc, k in pts]
        if replay_case:
            m = re.match(r"kill (\w+) (\w+) (\w+) (\d+)", replay_case)
            jobs = [(m.group(1), m.group(2), m.group(3), int(m.group(4)))] if m else jobs
        gjobs = []
        if not (replay_case and replay_case.startswith("kill ")):
            for mode, how in targets:
                T = build_seconds(exe, base, mode, how)
                ng = 6 if tier == "quick" else 120
                if proto_fail:
                    ng *= 6
                gjobs += [(mode, how, rng.uniform(0.02, T * 1.1)) for _ in range(ng)]
        if replay_case:
            m = re.match(r"groupkill (\w+) (\w+) (\d+)", replay_case)
            if m:
                jobs, gjobs = [], [(m.group(1), m.group(2), int(m.group(3)) / 1e6)]
        with ThreadPoolExecutor(max_workers=max(2, C.NPROC // 2)) as ex:
            kills = list(ex.map(lambda j: kill_replay(exe, base, "%s-%s" % (j[0], j[1]), *j), list(dict.fromkeys(jobs))))
            kills += list(ex.map(lambda j: group_kill_replay(exe, base, "%s-%s" % (j[0], j[1]), *j), gjobs))
        kill_fail = [k for k in kills if not k["ok"]]
        d1 = []
        if not replay_case or replay_case.startswith("deleteone"):
            d1targets = [("OpenMP", "file"), ("Serial", "string")] if tier == "quick" else \
                [("OpenMP", "file"), ("Serial", "string"), ("OpenMP", "string"), ("Serial", "file")]
            only = None
            if replay_case:
                m = re.match(r"deleteone (\w+) (\w+) (\S+)", replay_case)
                d1targets, only = [(m.group(1), m.group(2))], os.path.basename(m.group(3))
            with ThreadPoolExecutor(max_workers=4) as ex:
                for r in ex.map(lambda t: delete_one(exe, base, t[0], t[1], only), d1targets):
                    d1 += r
        for r in [r for r in d1 if not r["ok"]][:4]:
            case = "deleteone %s %s %s" % (r["mode"], r["how"], r["removed"])
            run.violation("a cache directory holding only complete files is not rebuilt correctly: " + case,
                          "property C08 fails on the implementation built from /repo\ncase: %s\n"
                          "state: a complete cache entry from which the single file %s is missing (what a builder killed between two "
                          "renames of one staging group, or before this file's rename, leaves behind)\nfresh process: %s\nrequired: %s\n"
                          "replay: ./check C08 --replay <this file>\n" % (case, r["removed"], r["line"], EXPECT[7]))

        for k in kill_fail[:5]:
            case = ("groupkill %s %s %d" % (k["mode"], k["how"], k["k"])) if k.get("group") else \
                   ("kill %s %s %s %d" % (k["mode"], k["how"], k["sc"], k["k"]))
            run.violation("a build killed at a syscall boundary poisons the cache: " + case,
                          "property C08 fails on the implementation built from /repo\ncase: %s\n"
                          "builder killed by SIGKILL (kill: on entering its k-th call of the named syscall; groupkill: whole "
                          "process group k microseconds after start), k=%d, syscalls considered {%s}: %s\n"
                          "fresh process, same cache dir: %s\nthird process: %s\nrequired: %s\n"
                          "replay: ./check C08 --replay <this file>\n"
                          % (case, k["k"], KILL_SYSCALLS, k["first"], k["rebuilt"], k["again"], EXPECT[7]))
        for name, diff, a, b in content_bad[:3]:
            k = diff[0]
            run.violation("a cache entry rebuilt from a partial state differs from a fully built one: " + name,
                          "property C08 fails on the implementation built from /repo\ncase: content %s\n"
                          "state: a complete cache from which the named files were removed (what a killed builder leaves behind), "
                          "then rebuilt by a fresh process\ndiffering files: %s\n--- %s after a full build:\n%s\n--- after the rebuild:\n%s\n"
                          "required: identical contents (the entry is later trusted as complete: dependencies and metadata in "
                          "build.json decide cache invalidation and argument checks)\n"
                          % (name, ", ".join(diff), k, (a.get(k) or "<absent>")[:700], (b.get(k) or "<absent>")[:700]))
        for name, line in bad_results[:3]:
            run.violation("a traced build did not produce the expected kernel output: " + name,
                          "case: %s\nobserved: %s\nrequired: %s\n" % (name, line, EXPECT[7]))
        if pr["failures"] and not run.violations:
            detail = "; ".join("%s: operation #%d %s violates the protocol" % (n, i, FT.coq_op(o)) for n, i, o in proto_fail[:5])
            run.violation("proof obligations no longer check",
                          "obligations of coq/C08/Properties_C08.v / coq/gen/C08_traces.v (real_traces_conform, real_runs_match_model) "
                          "no longer check: %s\n%s\nsearched %d real kill points, every later build succeeded\n"
                          % ("; ".join(pr["failures"])[:1500], detail, len(kills)), no_input=True)

        cov = run.coverage
        cov["evaluations"] = len(traces) + len(kills) + len(d1)
        distinct = set(FT.coq_ops(ops) for _, ops in traces if len(ops) > 8)
        cov["distinct_nontrivial"] = len(distinct) + len(set((k["mode"], k["how"], k["sc"], k["k"]) for k in kills if k["killed"]))
        cov["rule"] = ("real builds (Serial/OpenMP x string/file kernels; fresh, fully cached and partially deleted cache entries) "
                       "traced with strace and translated; non-trivial trace = more than 8 file-state operations, distinct by "
                       "operation list; plus kill replays counted when the builder really died from the injected SIGKILL, distinct "
                       "by (mode, kind, syscall index)")
        cov["traces_validated_against_impl"] = len(traces)
        cov["real_entry_runs_compared_with_model"] = len(runs)
        cov["real_probe_dir_runs_compared_with_group_model"] = len(gruns)
        cov["single_file_removed_rebuilds"] = len(d1)
        cov["rebuilt_entries_content_compared"] = sum(len(r) - 1 for r in results)
        cov["kill_replays"] = len(kills)
        cov["kill_replays_builder_died"] = sum(1 for k in kills if k["killed"])
        cov["samples"] = [dict(trace=traces[0][0], ops=FT.coq_ops(traces[0][1])[:600])] + \
                         [dict(kill=dict(mode=k["mode"], kind=k["how"], syscall=k["sc"], index=k["k"], builder_output=k["first"][:60],
                                         rebuilt=k["rebuilt"])) for k in kills[:3]]
        cov["scenario_mix"] = {w: sum(1 for s in scs if s[2].startswith(w)) for w in ("fresh", "delete", "pdelete")}
        run.assumptions = ["fault model: SIGKILL of the building process; not power loss", "POSIX rename atomicity"]
    finally:
        shutil.rmtree(base, ignore_errors=True)


def replay(run, path):
    case = C.replay_case_from_file(path)
    globals()["run"](run, "quick", run.seed, replay_case=case)
    return run.finish()
