"""C12 — the tokenizer never crashes and re-reads its own token spellings (DESIGN.md 5/C12)."""
import os, random, re, sys
from vlib import common as C

PROP = "C12"
CHECKER = ("tools/C12_optable.py /repo -> coq/gen/C12_OpTable.v; make -C /verif/coq -k C12/Properties_C12.vo "
           "C12/Extract.vo gen/C12_OpTable.vo  (coqc 8.16.1, full .vo)")
TRUSTED = [
    "Coq 8.16.1 kernel incl. vm_compute; no native_compute",
    "hand transcription of tokenizer.cpp, primitive::load (cursor movement only), escape/unescape and the token "
    "printers into coq/C12/Model.v, tied by the differential run of this check (tokens, printed text, re-tokenized tokens)",
    "tools/C12_optable.py (operator.cpp -> coq/gen/C12_OpTable.v; refuses statements it cannot read)",
    "operators.getLongest/has modelled as longest stored prefix / membership of the table (that the trie computes this is C28)",
    "extraction (ExtrOcamlBasic only) + extract/C12/driver.ml + extract/zutil.ml",
    "drivers/C12.cpp (exact-size heap copy of the input so that ASan sees reads past the NUL)",
    "g++ 12 / ASan+UBSan as the observer of out-of-bounds reads in the implementation",
]

META = dict(
    level="Coq theorems over all byte strings: the modelled tokenizer (cursor loops skipTo/skipFrom with the backslash rule, "
          "shallowPeek, peekForIdentifier, primitive::load's cursor movement, getString/getCharToken/getRawString, comments, "
          "getOperatorToken over the regenerated operator table, the token loop, getHeader) never reads past the terminating "
          "NUL and terminates within |input|+2 steps; and round trips: every identifier, numeric literal spelling, operator "
          "of the table, character/string literal value in the lexer's image (all prefixes, user suffixes, escapes incl. a "
          "leading quote), block comment and any blank-separated sequence of those re-tokenizes to itself, operators by "
          "longest match. Raw strings and two comment shapes are partial (known findings). The model is tied to the C++ "
          "by running both on grammar streams, mutations and arbitrary bytes under ASan and comparing tokens, printed text "
          "and re-tokenized tokens.",
    note="Model = code after fixes/C12-1..5 (pinned variants kept as _refuted theorems). Trusted: Coq kernel; hand model "
         "(differential tie); the table translator; trie = longest prefix (C28); extraction; drivers; ASan.",
    technique="Coq invariant/structural-induction proofs (bounds safety, progress, round trip) + generated operator table + "
              "extracted-model/implementation differential correspondence under ASan",
    design_ref="DESIGN.md section 5, C12")


# ----------------------------------------------------------------------------- helpers
def hx(b):
    return bytes(b).hex()


def chunks(b):
    """one hex chunk per byte so that the shrinker can delete single bytes"""
    return " ".join("%02x" % x for x in b)


# ----------------------------------------------------------------------------- the C/OKL lexical grammar
KEYWORDS = ["int", "for", "if", "else", "return", "const", "float", "double", "void", "while", "struct", "char",
            "unsigned", "long", "static", "inline", "typedef", "break", "continue", "switch", "case", "default"]
OPWORDS = ["sizeof", "new", "delete", "throw", "typeid", "noexcept", "alignof"]
ENC_NAMES = ["u8", "u", "U", "L", "R", "u8R", "uR", "UR", "LR", "Ru", "RL"]
IDCH0 = "abcdefghijklmnopqrstuvwxyzABCDEFGHIJKLMNOPQRSTUVWXYZ_"
IDCH = IDCH0 + "0123456789"

_optable = None


def operator_symbols():
    global _optable
    if _optable is None:
        sys.path.insert(0, os.path.join(C.VERIF, "tools"))
        import C12_optable
        info = C12_optable.parse(os.path.join(C.REPO, "src/occa/internal/lang/operator.cpp"))
        _optable = [info["ops"][n]["sym"] for n in info["tok_ops"]]
    return _optable


def g_ident(rng):
    x = rng.random()
    if x < 0.12:
        return rng.choice(KEYWORDS)
    if x < 0.20:
        return rng.choice(ENC_NAMES)                     # an identifier that could be an encoding prefix
    if x < 0.27:
        return rng.choice(["true", "false"]) + rng.choice(["1", "0x", "_", "9a", "e5", "true", "L"])
    if x < 0.30:
        return rng.choice(OPWORDS) + rng.choice(["_", "x", "0"])
    n = rng.randint(0, 7)
    s = rng.choice(IDCH0) + "".join(rng.choice(IDCH) for _ in range(n))
    if s in OPWORDS or s in ("true", "false"):
        s += "_"
    return s


def g_int_suffix(rng):
    return rng.choice(["", "", "", "u", "U", "l", "L", "ul", "UL", "lu", "LU", "ll", "LL", "ull", "ULL", "llu", "LLu", "uLL"])


def g_prim(rng):
    x = rng.random()
    if x < 0.08:
        return rng.choice(["true", "false"])
    if x < 0.40:
        d = rng.choice(["0", "1", "7", "42", "123456789", "4294967296", "18446744073709551615", "007", "0755", "10"])
        return d + g_int_suffix(rng)
    if x < 0.55:
        h = "".join(rng.choice("0123456789abcdefABCDEF") for _ in range(rng.randint(1, 9)))
        return rng.choice(["0x", "0X"]) + h + g_int_suffix(rng)
    if x < 0.63:
        b = "".join(rng.choice("01") for _ in range(rng.randint(1, 12)))
        return rng.choice(["0b", "0B"]) + b + g_int_suffix(rng)
    # floating
    ip = "".join(rng.choice("0123456789") for _ in range(rng.randint(0, 4)))
    fp = "".join(rng.choice("0123456789") for _ in range(rng.randint(0, 4)))
    y = rng.random()
    if y < 0.5:
        if not ip and not fp:
            ip = "1"
        m = ip + "." + fp
    else:
        m = ip or "3"
    ex = ""
    if rng.random() < 0.5 or "." not in m:
        ex = rng.choice("eE") + rng.choice(["", "+", "-"]) + "".join(rng.choice("0123456789") for _ in range(rng.randint(1, 3)))
    return m + ex + rng.choice(["", "", "f", "F", "l", "L"])


PLAIN = list(b"abcXYZ019 _+-*/%<>=!&|^~?:;,.()[]{}#@$`") + [9, 0x80, 0xe9, 0xff, 1, 0x7f]
ESC2 = list(b"ntr0\\abfvx?e") + [10]                    # byte after a backslash (10: line continuation)


def g_raw(rng, q):
    """the text between the quotes, as units; returns (raw bytes, value bytes)"""
    other = 39 if q == 34 else 34
    raw, val = [], []
    n = rng.choice([0, 1, 1, 2, 3, 5, 8])
    for i in range(n):
        x = rng.random()
        if x < 0.18:                                      # escaped quote (at index 0 with extra weight)
            raw += [92, q]
            val += [q]
        elif x < 0.30:
            c = rng.choice(ESC2)
            raw += [92, c]
            val += [92, c]
        elif x < 0.36:
            raw += [92, other]
            val += [92, other]
        elif x < 0.42:
            raw += [other]
            val += [other]
        else:
            c = rng.choice(PLAIN)
            raw += [c]
            val += [c]
    if rng.random() < 0.15:                               # value starting with the quote
        raw = [92, q] + raw
        val = [q] + val
    return raw, val


def g_udf(rng):
    if rng.random() < 0.8:
        return ""
    return "_" + "".join(rng.choice(IDCH) for _ in range(rng.randint(0, 3)))


def g_token(rng, kf=True):
    """one token in case syntax"""
    x = rng.random()
    if x < 0.22:
        return "I" + hx(g_ident(rng).encode())
    if x < 0.40:
        return "P" + hx(g_prim(rng).encode())
    if x < 0.62:
        syms = [s for s in operator_symbols() if s not in ("//", "/*")]
        return "O" + hx(rng.choice(syms).encode())
    if x < 0.74:
        raw, val = g_raw(rng, 34)
        enc = rng.choice([0, 0, 0, 2, 4, 8, 16])
        if kf and rng.random() < 0.002:
            enc |= 1                                       # raw string: known finding
            val = [c for c in val if c not in (34, 41)]
        return "S%d.%s.%s" % (enc, hx(val), hx(g_udf(rng).encode()))
    if x < 0.84:
        raw, val = g_raw(rng, 39)
        return "C%d.%s.%s" % (rng.choice([0, 0, 4, 8, 16]), hx(val), hx(g_udf(rng).encode()))
    if x < 0.91:
        body = [c for c in (rng.choice(PLAIN + [10, 42, 47, 42]) for _ in range(rng.randint(0, 10))) if c != 92]
        txt = bytes(body)
        while b"*/" in txt:
            txt = txt.replace(b"*/", b"* /")
        if txt.startswith(b"/"):
            txt = b" " + txt
        if kf and rng.random() < 0.003:
            txt = rng.choice([b"/ x ", b" a \\*/ b ", b"\\"]) + txt
        return "K" + hx(b"/*" + txt + b"*/")
    if x < 0.96:
        return "N"
    return "U" + hx(bytes([rng.choice([36, 96, 0x80, 0xc3, 0xff, 1, 0x7f])]))


def gen_Q(rng, tier):
    n = rng.choice([1, 1, 2, 2, 3, 4, 6, 9, 14])
    # known-finding shapes (raw strings, two comment shapes) are drawn at random only in the thorough tier; the quick
    # tier has their minimal witnesses in fixed_cases() (every failing case is shrunk, which costs process starts)
    return "Q " + " ".join(g_token(rng, kf=(tier != "quick")) for _ in range(n))


# spelling of a token for the byte streams (python reference printer)
def spell(tok):
    k, body = tok[0], tok[1:]
    if k in "IPOK":
        return bytes.fromhex(body)
    if k == "N":
        return b"\n"
    if k == "U":
        return bytes.fromhex(body)
    enc, v, u = body.split(".")
    enc = int(enc)
    q = 34 if k == "S" else 39
    pre = b""
    if enc & 2 and k == "S":
        pre = b"u8"
    elif enc & 4:
        pre = b"u"
    elif enc & 8:
        pre = b"U"
    elif enc & 16:
        pre = b"L"
    val = bytes.fromhex(v)
    if enc & 1:
        d = b"xy"
        return pre + b'R"' + d + b"(" + val + b")" + d + b'"' + bytes.fromhex(u)
    esc = b"".join((b"\\" + bytes([c]) if c == q else bytes([c])) for c in val)
    return pre + bytes([q]) + esc + bytes([q]) + bytes.fromhex(u)


ALPHA = (list(b"\"\"\"'''\\\\\\\n\n  \t()RRuUL8/*/*..+-+-eExX0011bfFlL_") + list(b"aZ9<>=!&|#@$;,:?[]{}%^~") +
         [0x80, 0xff, 1, 11, 12, 13])


def gen_B(rng, tier):
    x = rng.random()
    if x < 0.35:
        toks = [g_token(rng, kf=False) for _ in range(rng.choice([1, 2, 3, 5, 8, 12]))]
        seps = [b" ", b" ", b"", b"\n", b"\t", b"  ", b" \\\n ", b"\r\n", b"//c\n", b"/* c */", b"// c \\\n d\n", b"//\\\r\n"]
        b = b"".join(spell(t) + rng.choice(seps) for t in toks)
    elif x < 0.75:
        toks = [g_token(rng, kf=False) for _ in range(rng.choice([1, 2, 3, 5]))]
        b = bytearray(b" ".join(spell(t) for t in toks))
        for _ in range(rng.choice([1, 1, 2, 3])):
            y = rng.random()
            if not b:
                break
            i = rng.randrange(len(b))
            if y < 0.3:
                del b[i:]                                   # truncation: unterminated literals and comments
            elif y < 0.5:
                del b[i]
            elif y < 0.8:
                b.insert(i, rng.choice(ALPHA))
            else:
                b[i] = rng.choice(ALPHA)
        b = bytes(b)
    else:
        b = bytes(rng.choice(ALPHA) for _ in range(rng.choice([1, 2, 3, 4, 6, 10, 20, 40])))
    b = bytes(c for c in b if c != 0)
    return "B " + chunks(b)


def g_line_body(rng):
    """text of a // comment after the slashes: plain bytes and backslash pairs (never backslash-backslash, never a
    lone backslash at the end); backslash-newline (also backslash, CR, LF... the CR is just the escaped byte) continues
    the comment on the next line"""
    out = bytearray()
    for _ in range(rng.choice([0, 1, 2, 4, 7, 12])):
        x = rng.random()
        if x < 0.30:
            out += b"\\" + bytes([rng.choice([10, 10, 10, 13, 32, 34, 39, 42, 47, 110, 120])])
        else:
            out.append(rng.choice(list(b"abc xyz01 */\"'(){};=+-#@$\t") + [0x80, 0xff]))
    if rng.random() < 0.35:
        out += b" \\\n" + rng.choice([b"", b"a = a / 0;", b"  second line", b"// x", b"\"s"])
    return bytes(c for c in out if c != 0)


def gen_L(rng, tier):
    for _ in range(20):
        b = g_line_body(rng)
        # keep inside the reference: no backslash-backslash, no trailing lone backslash, no bare newline
        ok, i = True, 0
        while i < len(b):
            if b[i] == 92:
                if i + 1 >= len(b) or b[i + 1] == 92:
                    ok = False
                    break
                i += 2
            elif b[i] == 10:
                ok = False
                break
            else:
                i += 1
        if ok:
            return "L " + chunks(b)
    return "L " + chunks(b"a \\\nb")


def gen_H(rng, tier):
    name = bytes(rng.choice(b"abc./_-h\\ ") for _ in range(rng.randint(0, 6)))
    x = rng.random()
    if x < 0.25:
        b = b"<" + name + b">"
    elif x < 0.5:
        b = b'"' + name + b'"'
    elif x < 0.7:
        b = rng.choice([b"<", b'"']) + name + rng.choice([b"", b"\n", b"\n>", b"\\"])
    else:
        b = bytes(rng.choice(ALPHA) for _ in range(rng.randint(0, 6)))
    b = rng.choice([b"", b"", b" ", b"\t "]) + b + rng.choice([b"", b"\n", b" x"])
    return "H " + chunks(bytes(c for c in b if c != 0))


def fixed_cases():
    """deterministic batch: every operator alone and before '=' / itself; the witnesses of the findings"""
    cs = []
    for s in operator_symbols():
        cs.append("Q O" + hx(s.encode())) if s not in ("//", "/*") else None
        cs.append("B " + chunks(s.encode()))
        cs.append("B " + chunks(s.encode() + b"="))
        cs.append("B " + chunks(s.encode() + s.encode()))
        cs.append("B " + chunks(b"a" + s.encode() + b"1"))
    cs = [c for c in cs if c]
    for w in [b'"abc', b"'a", b'R"abc', b'R"d(xx)d"', b'L "abc"', b"true1 false_x false0", b'"\\"a"', b"'\\''", b'"a\\',
              b"/*/ x */", b"/* \\*/ y */", b"1e+\n5 x", b"a \\b c", b"..5 ...5 1.2.3", b"0x 0b 0xg 1e 1e+ 1e+x 1e5e6e7", b"u8 'c'",
              b'u8"s"_k L\'c\'_m uR"(r)"', b"sizeof...(a) new[] delete[] throwx", b"/*", b"//", b"/", b"\\", b"a\\", b'"\\', b"'"]:
        cs.append("B " + chunks(w))
    for w in [b"a \\\nb", b"\\\n", b"x \\\r y", b"", b"disabled for now \\\na = a / 0;", b"\\n \\\n\\\n z", b"a\\ b"]:
        cs.append("L " + chunks(w))
    for w in [b"<abc", b"<abc\n", b"<abc>", b'"abc"', b'"abc', b"abc", b"", b" <a b>", b"+x>"]:
        cs.append("H " + chunks(w))
    cs += ["Q I4c S0.616263.", "Q I7472756531", "Q S0.2261.", "Q C0.27.", "Q S2.22615c6e.5f6b C16.275c6e.", "Q P31652b35 O2b P2e35",
           "Q S1.6162.", "Q K2f2a2f20782a2f", "Q K2f2a205c2a2f I78 K2f2a2a2f"]
    return cs


# ----------------------------------------------------------------------------- views, signatures
def view(obs):
    """B and H cases only require 'no crash'; Q cases require the exact tokens and printed text."""
    if obs.startswith("R B ") or obs.startswith("R H "):
        if "CRASH" in obs or "OOB" in obs or "NOFUEL" in obs:
            return obs
        return "R NOCRASH"
    return obs


def _q_tokens(case):
    t = case.split()
    return t[1:] if t and t[0] == "Q" else []


def sig_raw_string(case):
    return any(re.match(r"^S(\d+)\.", tok) and int(re.match(r"^S(\d+)\.", tok).group(1)) & 1 for tok in _q_tokens(case))


def sig_comment_slash_star_slash(case):
    return any(tok.startswith("K2f2a2f") for tok in _q_tokens(case))


def sig_comment_backslash(case):
    return any(tok[0] == "K" and "5c" in re.findall("..", tok[1:]) for tok in _q_tokens(case))


SIGNATURES = {"raw_string": sig_raw_string,
              "comment_slash_star_slash": sig_comment_slash_star_slash,
              "comment_backslash": sig_comment_backslash}

# known findings proposed by this property live in docs/notes/C12.known until they are merged into
# known_findings.txt (same line format); the framework's loader is wrapped to read both.
_orig_load = C.load_known_findings


def _load_with_notes(prop):
    res = list(_orig_load(prop))
    for name in ("C12", "C15"):
        p = os.path.join(C.VERIF, "docs", "notes", name + ".known")
        if os.path.exists(p):
            for line in open(p):
                line = line.strip()
                if not line or line.startswith("#"):
                    continue
                parts = [x.strip() for x in line.split("|")]
                if len(parts) >= 4 and parts[0] == prop and not any(r["signature"] == parts[1] for r in res):
                    res.append(dict(prop=parts[0], signature=parts[1], input=parts[2], what=" | ".join(parts[3:])))
    return res


C.load_known_findings = _load_with_notes


def nontrivial(case):
    t = case.split()
    if t[0] == "Q":
        return len(t) >= 3
    return len(t) >= 4


# ----------------------------------------------------------------------------- check
def pregen():
    sys.path.insert(0, os.path.join(C.VERIF, "tools"))
    import C12_optable
    out = os.path.join(C.COQ, "gen", "C12_OpTable.v")
    try:
        C12_optable.generate(C.REPO, out)
    except C12_optable.Refuse as e:
        raise C.CheckError("tools/C12_optable.py refuses %s/src/occa/internal/lang/operator.cpp: %s" % (C.REPO, e))


def setup():
    C.build_driver("C12", flavour="asan")
    C.build_model(PROP)


def run(run, tier, seed, replay_case=None):
    C.build_lib("asan")
    impl = C.build_driver("C12", flavour="asan")
    pregen()
    global _optable
    _optable = None
    pr = C.coq_properties(PROP, extra_targets=["C12/Extract.vo"], gen_targets=["gen/C12_OpTable.vo"])
    run.add_proof(pr, CHECKER)
    run.coverage["trusted_base"] = TRUSTED
    model = C.build_model(PROP)

    rng = random.Random(seed * 7919 + 12)
    corpus = C.load_corpus(PROP)
    nq, nb, nh = (2200, 2600, 300) if tier == "quick" else (10000, 12000, 1000)
    cases = list(corpus) + fixed_cases()
    cases += [gen_Q(rng, tier) for _ in range(nq)]
    cases += [gen_B(rng, tier) for _ in range(nb)]
    cases += [gen_H(rng, tier) for _ in range(nh)]
    cases += [gen_L(rng, tier) for _ in range(nh)]
    if replay_case is not None:
        cases = [replay_case]
    env = C.lib_env("asan")
    D = C.Differential(run, PROP, [impl], model, env, view=view, signatures=SIGNATURES, keep_first=1,
                       model_desc="coq/C12/Model.v (fixed variant) vs tokenizer.cpp, primitive::load, escape/unescape, token printers")
    I, R, S = D.eval(cases)
    D.judge(cases, I, R, S, proof_failures=pr["failures"])

    cov = run.coverage
    distinct = set(c for c in cases if nontrivial(c))
    cov["distinct_nontrivial"] = len(distinct)
    cov["rule"] = ("Q: token sequences drawn from the C/OKL lexical grammar (identifiers incl. keywords/encoding-prefix names/"
                   "true-false prefixes, int/float literals with suffixes, every operator of the regenerated table, char/string "
                   "literals with prefixes, escapes, leading quotes and user suffixes, block comments, newlines, stray bytes), "
                   "built as token objects, printed by the library, re-tokenized; L: // comments with backslash pairs and "
                   "backslash-newline continuations, followed by a newline and an identifier (exact tokens required); B: the same grammar spelled by a reference "
                   "printer with varied separators, byte mutations/truncations of it, and random bytes from a quote/backslash/"
                   "digit-heavy alphabet, tokenized, printed, re-tokenized under ASan; H: getHeader inputs. non-trivial = at "
                   "least two tokens (Q) or three bytes (B/H); distinct = distinct case text")
    kinds = {k: sum(1 for c in cases if c.startswith(k + " ") or c == k) for k in "QBHL"}
    cov["case_kinds"] = kinds
    pick = [0, len(cases) // 3, 2 * len(cases) // 3, len(cases) - 1]
    cov["samples"] = [dict(case=cases[i][:300], impl=I[i][:300], model=R[i][:300], spec=S[i][:300]) for i in pick if i < len(cases)]
    cov["impl_crashes"] = sum(1 for x in I if "CRASH" in x)
    run.assumptions = ["inputs are C strings (bytes up to the first NUL); the driver hands the tokenizer an exact-size heap copy",
                       "token origins, line numbers, error texts and comment spacing are not compared",
                       "numeric values of literals are not compared (C14); literals are compared by their stored source text",
                       "the model describes the code after fixes/C12-1..5.patch"]


def replay(run, path):
    case = C.replay_case_from_file(path)
    if case is None:
        print("no case in replay file")
        return 2
    globals()["run"](run, "quick", run.seed, replay_case=case)
    for s in run.coverage.get("samples", [])[:1]:
        print("replayed: %s\nimplementation: %s\nmodel:          %s\nspecification:  %s" % (s["case"], s["impl"], s["model"], s["spec"]))
    return run.finish()
