"""C06 — kernel cache keys separate every build configuration (DESIGN.md 5/C06).

Tie (T+H):
  T  tools/C06_keyfields.py re-reads the key composition (which property values are hashed, how they are
     combined) and the list of properties the build consumes from the C++ text of the tree under test on
     every run and writes coq/gen/C06_KeyFields.v / C06_KeyChecks.v; Coq re-proves that the composition
     found is well formed (good_shape) and instantiates theorem key_injective for it.
  H  the extracted model, run with that generated composition, and the real library
     (device::setupKernelInfo, no compilation; two separate processes per case) must agree on
     `key c1 = key c2` for every generated pair of configurations; the specification
     (effective sub-records equal / different) is the oracle for the property itself.
  Supporting replay: for three families of colliding pairs the kernels are really built (shared cache
  directory vs separate ones) to show that the second build runs the first one's code.
"""
import os, random, re, shutil, sys, time
from concurrent.futures import ThreadPoolExecutor
from vlib import common as C
sys.path.insert(0, os.path.join(C.VERIF, "tools"))
import C06_keyfields as KF

PROP = "C06"
FLAV = "plain"     # the asan flavour dies in occa::hash (signed overflow, C27's finding) before any key is produced
CHECKER = ("make -C /verif/coq -k C06/Properties_C06.vo C06/Extract.vo gen/C06_KeyFields.vo gen/C06_KeyChecks.vo  "
           "(coqc 8.16.1, full .vo; gen/C06_*.v regenerated from the C++ text of this run)")
TRUSTED = [
    "Coq 8.16.1 kernel incl. vm_compute; std++ (gset) — theorems closed under the global context",
    "ideal XOR hash: distinct hashed inputs have distinct 256-bit hashes (accidental collisions of occa::hash out of scope); "
    "operator^ is exact XOR (src/utils/hash.cpp)",
    "domain separation built into the atoms: a raw text that is hashed (kernel source, string literal) is never the dump of a "
    "hashed JSON value, and json dump is injective (C24 round trip); explicit hypothesis dom_sepb: the source text is not one "
    "of the hashed literals",
    "translator tools/C06_keyfields.py (regex over setupKernelInfo, versionedHash, serial/openmp hash and kernelHash, "
    "kernelHeaderHash, kernelPropsHash; refuses operands it does not understand) ",
    "Spec.effective_paths: hand list of the properties buildKernel/assembleKernelHeader/the OKL preprocessor and parsers consume, "
    "compared on every run with the reads the translator finds (gen_reads_known, gen_effective_read)",
    "extraction (ExtrOcamlBasic + ExtrOcamlString) + extract/C06/driver.ml (JSON reader, sorts object keys) + extract/zutil.ml",
    "drivers/C06.cpp (`#define private public` to reach device::setupKernelInfo); g++ as the JIT compiler in the build replays",
    "process environment fixed by the harness (OCCA_CXX etc. unset/fixed); kernel properties given per build, at device level "
    "(occa::device({mode, kernel: {...}})) or in occa::settings(); the merge of the three levels itself is C26's subject "
    "(cases keep an object-valued property at one level per configuration)",
]
META = dict(
    level="Coq theorem over an ideal XOR hash (hash value = finite set of atoms, ^ = symmetric difference): for every key "
          "composition that passes the decidable check good_shape (one hash per named record, records disjoint and covering every "
          "property the build consumes, literals distinct), equal keys imply equal mode, source and effective properties, for all "
          "configurations (arbitrary JSON trees); the key is a function of the configuration only. The composition is not written "
          "by hand: a translator regenerates it from setupKernelInfo/kernelHash/kernelHeaderHash on every run and Coq re-checks "
          "good_shape for it; the extracted model with that composition is compared with the real keys on seeded configuration "
          "pairs (two processes per case).",
    note="The pinned composition (one hash per value, XORed) is refuted in Coq and on the library (values swapped between "
         "properties, equal values cancelling, okl/* and serial/include_std and kernel/include_occa not in the key); the positive "
         "theorem describes the composition after fixes/C06-1.patch. Accidental 256-bit collisions and environment variables are "
         "out of scope. Only Serial and OpenMP are covered (as the property states).",
    technique="Coq proof (parity-of-occurrences characterisation of XOR keys, unbounded) + translator from the C++ text + "
              "extracted-model/specification/implementation differential correspondence + real build replays",
    design_ref="DESIGN.md section 5, C06")

SOURCES = ["k0"] + [
    "@kernel void k(int *out) {\n  for (int i = 0; i < 1; ++i; @tile(1, @outer, @inner)) {\n    out[0] = %d;\n  }\n}\n" % n
    for n in (2, 3)
] + ["host"]  # "k0" is the drivers' default text; the last one violates domain separation on purpose (rare)

STR = ['"-O2"', '"-O1"', '"-g"', '"g++"', '"gcc"', '""', '"cpp"', '"c"', '"-DX=1"', '"2.0.0"', '"host"', '"Serial"',
       '"OpenMP"', '"disabled"', '"/opt/a"', '"-O2 -g"', '"a\\"b"', '"openmp device::kernelHash"']
BOOL = ['true', 'false']
INT = ['0', '1', '5']
ARR = ['[]', '["/opt/a"]', '["/opt/a", "/opt/b"]', '["/opt/b"]', '["-O2"]', '["#define Q 1"]']
OBJ = ['{}', '{"X":1}', '{"X":"1"}', '{"X":5}', '{"Y":2,"X":1}', '{"X":1,"Y":2}']
KINDS = dict(s=STR, b=BOOL, i=INT, a=ARR, o=OBJ, n=['null'])
PATHS = {
    "compiler": "s", "compiler_flags": "s", "compiler_env_script": "s", "compiler_vendor": "s", "compiler_language": "s",
    "compiler_linker_flags": "s", "compiler_shared_flags": "s", "include_occa": "b", "link_occa": "b",
    "defines": "o", "functions": "o", "includes": "a", "headers": "a",
    "kernel/include_occa": "b", "kernel/link_occa": "b", "okl/enabled": "b", "okl/include_paths": "a", "okl/restrict": "s",
    "okl/strict_headers": "b", "okl/validate": "b", "serial/include_std": "b", "mode": "s",
    "verbose": "b", "silent": "b", "vendor": "i", "foo": "s", "okl/foo": "i",
}
INERT = ["verbose", "silent", "vendor", "foo", "okl/foo"]
ORDERP = ["headers", "includes", "okl/include_paths", "headers", "okl/include_paths", "compiler_flags"]
ORDER_ITEMS = ["/opt/a", "/opt/b", "/opt/c", "#define Q 1", "#define Q 2", "x.h"]
LEVELP = ["defines", "includes", "headers", "functions", "compiler_flags", "okl/include_paths"]
ALLP = list(PATHS)


def enc(s):
    return s.replace("%", "%25").replace(" ", "%20").replace("\n", "%0A")


class Gen:
    def __init__(self, rng):
        self.rng = rng

    def value(self, path):
        rng = self.rng
        k = PATHS[path] if rng.random() < 0.8 else rng.choice("sbiaon")
        return rng.choice(KINDS[k])

    def base(self, lo=0, hi=6):
        rng = self.rng
        ps = rng.sample(ALLP, rng.randint(lo, hi))
        return {p: self.value(p) for p in ps}

    def pair(self):
        rng = self.rng
        kind = rng.choices(["ident", "inert", "one", "swap", "move", "cancel", "source", "mode", "random", "remove",
                            "level", "levelmove", "order"],
                           [8, 5, 24, 12, 8, 12, 5, 5, 9, 5, 10, 4, 8])[0]
        m1 = m2 = rng.choice("SSO")
        base = self.base()
        toks = ["A%s=%s" % (p, enc(v)) for p, v in base.items()]
        s1 = s2 = rng.choice([0, 0, 1, 2])
        if kind == "ident":
            pass
        elif kind == "inert":
            p = rng.choice(INERT)
            toks.append("1%s=%s" % (p, enc(self.value(p))))
        elif kind == "one":
            p = rng.choice(ALLP)
            toks.append("1%s=%s" % (p, enc(self.value(p))))
            if rng.random() < 0.5:
                toks.append("2%s=%s" % (p, enc(self.value(p))))
        elif kind == "swap":
            p, q = rng.sample(ALLP, 2)
            a, b = self.value(p), self.value(q)
            if rng.random() < 0.6:
                a, b = rng.choice(STR), rng.choice(STR)
            toks += ["1%s=%s" % (p, enc(a)), "1%s=%s" % (q, enc(b)), "2%s=%s" % (p, enc(b)), "2%s=%s" % (q, enc(a))]
        elif kind == "move":
            p, q = rng.sample(ALLP, 2)
            a = self.value(p)
            toks = [t for t in toks if not (t[1:].startswith(p + "=") or t[1:].startswith(q + "="))]
            toks += ["1%s=%s" % (p, enc(a)), "2%s=%s" % (q, enc(a))]
        elif kind == "cancel":
            p, q = rng.sample(ALLP, 2)
            a = self.value(p)
            toks = [t for t in toks if not (t[1:].startswith(p + "=") or t[1:].startswith(q + "="))]
            toks += ["1%s=%s" % (p, enc(a)), "1%s=%s" % (q, enc(a))]
        elif kind == "remove":
            if base:
                p = rng.choice(list(base))
                toks = [t for t in toks if not t[1:].startswith(p + "=")] + ["1%s=%s" % (p, enc(base[p]))]
        elif kind in ("level", "levelmove"):
            # the property comes from the device's kernel properties (d) or from occa::settings() (g), not from the build's
            p = rng.choice(LEVELP if rng.random() < 0.7 else [q for q in ALLP if q != "mode"])
            toks = [t for t in toks if not t[1:].startswith(p + "=")]
            l1 = rng.choice("dg")
            a = self.value(p)
            if kind == "level":
                b = self.value(p) if rng.random() < 0.85 else a
                toks += ["%s1%s=%s" % (l1, p, enc(a))]
                if rng.random() < 0.8:
                    toks += ["%s2%s=%s" % (rng.choice([l1, "d", "g"]), p, enc(b))]
            else:
                toks += ["%s1%s=%s" % (l1, p, enc(a)), "2%s=%s" % (p, enc(a))]
        elif kind == "order":
            # same entries, different order, in an array-valued property (the build consumes arrays in order: header
            # text is emitted in order, include paths are searched in order).  `defines`/`functions` are objects =
            # sorted maps (std::map), so their key order cannot differ between two configurations.
            p = rng.choice(ORDERP)
            items = rng.sample(ORDER_ITEMS, rng.randint(2, 4))
            perm = items[:]
            while perm == items:
                rng.shuffle(perm)
            lv = rng.choice(["", "", "d", "g"])
            toks = [t for t in toks if not t[1:].startswith(p + "=")]
            arr = lambda l: "[" + ", ".join('"%s"' % x for x in l) + "]"
            toks += ["%s1%s=%s" % (lv, p, enc(arr(items))), "%s2%s=%s" % (lv, p, enc(arr(perm)))]
        elif kind == "source":
            s2 = rng.choice([x for x in (0, 1, 2) if x != s1])
            if rng.random() < 0.05:
                s2 = 3
        elif kind == "mode":
            m2 = "O" if m1 == "S" else "S"
        elif kind == "random":
            other = self.base()
            toks = ["1%s=%s" % (p, enc(v)) for p, v in base.items()] + ["2%s=%s" % (p, enc(v)) for p, v in other.items()]
            m2 = rng.choice("SO")
        toks += ["x%d=%s" % (i, enc(SOURCES[s])) for i, s in ((1, s1), (2, s2)) if s != 0]
        return " ".join([m1, m2] + toks)


def extra_known():
    res = []
    p = os.path.join(C.VERIF, "docs", "notes", "C06.known")
    if os.path.exists(p):
        for line in open(p):
            parts = [x.strip() for x in line.strip().split("|")]
            if len(parts) >= 4 and parts[0] == PROP:
                res.append(dict(prop=parts[0], signature=parts[1], input=parts[2], what=" | ".join(parts[3:])))
    return res


SIGNATURES = {}


class PairDiff(C.Differential):
    """implementation side = real keys from two separate processes per case; property oracle = one-sided."""

    def __init__(self, *a, base=None, **kw):
        super().__init__(*a, **kw)
        self.base = base
        self.n = 0

    def keys(self, lines, tag):
        self.n += 1
        cache = os.path.join(self.base, "keys-%s-%d" % (tag, self.n))
        os.makedirs(cache, exist_ok=True)
        env = C.lib_env(FLAV, cache_dir=cache)
        env.update(FIXED_ENV)
        if len(lines) > 40:
            return C.run_impl_parallel(self.impl_cmd, lines, env=env, jobs=4 if tag == "a" else 3)
        return C.run_impl_isolating(self.impl_cmd, lines, env=env)

    def eval(self, lines, parallel=True):
        R, S = C.run_model(self.model_exe, lines)
        K1, K2 = self.keys(lines, "a"), self.keys(lines, "b")
        I = []
        for a, b in zip(K1, K2):
            pa = a.split()
            if a != b:
                I.append("R NONDET %s | %s" % (a[2:60], b[2:60]))
            elif len(pa) == 3 and len(pa[1]) == 64 and len(pa[2]) == 64:
                I.append("R EQ" if pa[1] == pa[2] else "R NE")
            else:
                I.append(a)
        self.last_keys = K1
        return I, R, S

    def fails_spec(self, i_obs, s_obs):
        i, s = i_obs[2:], s_obs[2:]
        if s.startswith("BAD") or s == "":
            return False
        if i not in ("EQ", "NE"):
            return True
        if s == "DIFF":
            return i == "EQ"
        if s == "IDENT":
            return i != "EQ"
        return False


FIXED_ENV = {"OCCA_CXX": "", "OCCA_CXXFLAGS": "", "OCCA_LDFLAGS": "", "OCCA_COMPILER_SHARED_FLAGS": "",
             "OCCA_COMPILER_LANGUAGE": "", "OCCA_INCLUDE_PATH": "", "CXXFLAGS": "", "CXX": "g++"}

BUILD_SRC = ("#ifndef C06_Y\n#define C06_Y 0\n#endif\n"
             "@kernel void k(int *out) {\n  for (int i = 0; i < 1; ++i; @tile(1, @outer, @inner)) {\n"
             "    out[0] = 100 * C06_X + C06_Y;\n  }\n}\n")
BUILD_SRC_INC = ("#include \"c06.h\"\n"
                 "@kernel void k(int *out) {\n  for (int i = 0; i < 1; ++i; @tile(1, @outer, @inner)) {\n"
                 "    out[0] = 100 * C06_X + C06_Z;\n  }\n}\n")


def build_families(base):
    da, db = os.path.join(base, "incA"), os.path.join(base, "incB")
    for d, z in ((da, 1), (db, 2)):
        os.makedirs(d, exist_ok=True)
        open(os.path.join(d, "c06.h"), "w").write("#define C06_Z %d\n" % z)
    return [
        ("swap: compiler_flags <-> compiler_linker_flags", BUILD_SRC,
         {"compiler_flags": '"-DC06_X=1"', "compiler_linker_flags": '"-DC06_X=2"'},
         {"compiler_flags": '"-DC06_X=2"', "compiler_linker_flags": '"-DC06_X=1"'}),
        ("cancel: defines and functions hold equal values", BUILD_SRC,
         {"compiler_flags": '"-DC06_X=3"', "defines": '{"C06_Y":5}', "functions": '{"C06_Y":5}'},
         {"compiler_flags": '"-DC06_X=3"'}),
        ("okl/include_paths not in the key", BUILD_SRC_INC,
         {"compiler_flags": '"-DC06_X=4"', "okl/include_paths": '["%s"]' % da},
         {"compiler_flags": '"-DC06_X=4"', "okl/include_paths": '["%s"]' % db}),
        ("defines from the device's kernel properties", BUILD_SRC,
         {"compiler_flags": '"-DC06_X=6"', "@d:defines": '{"C06_Y":1}'},
         {"compiler_flags": '"-DC06_X=6"', "@d:defines": '{"C06_Y":2}'}),
        ("headers: same entries in a different order", BUILD_SRC,
         {"compiler_flags": '"-DC06_X=8"',
          "headers": '["#ifndef C06_Y\\n#define C06_Y 1\\n#endif", "#ifndef C06_Y\\n#define C06_Y 2\\n#endif"]'},
         {"compiler_flags": '"-DC06_X=8"',
          "headers": '["#ifndef C06_Y\\n#define C06_Y 2\\n#endif", "#ifndef C06_Y\\n#define C06_Y 1\\n#endif"]'}),
        ("headers from occa::settings()", BUILD_SRC,
         {"compiler_flags": '"-DC06_X=7"', "@g:headers": '["#define C06_Y 1"]'},
         {"compiler_flags": '"-DC06_X=7"', "@g:headers": '["#define C06_Y 2"]'}),
    ]


def cfg_tokens(cfg, who):
    """tokens of a build-replay configuration; keys "@d:path" / "@g:path" are device-level / settings-level"""
    out = []
    for p, v in cfg.items():
        if p.startswith("@"):
            out.append("%s%s%s=%s" % (p[1], who, p[3:], enc(v)))
        else:
            out.append("%s%s=%s" % (who, p, enc(v)))
    return out


def one_build(exe, cache, mode, src, cfg):
    os.makedirs(cache, exist_ok=True)
    env = C.lib_env(FLAV, cache_dir=cache)
    env.update(FIXED_ENV)
    toks = cfg_tokens(cfg, "A") + ["xA=" + enc(src)]
    rc, out, err = C.sh([exe, "build", mode, "-", "k"] + toks, env=env, timeout=600)
    line = ([l for l in out.splitlines() if l.startswith("R ")] or ["R NONE rc=%d %s" % (rc, err[-200:].replace("\n", " "))])[0]
    return line


def build_replay(exe, base, idx, fam, mode):
    name, src, c1, c2 = fam
    d = os.path.join(base, "build-%d-%s" % (idx, mode))
    iso1 = one_build(exe, os.path.join(d, "iso1"), mode, src, c1)
    iso2 = one_build(exe, os.path.join(d, "iso2"), mode, src, c2)
    sh1 = one_build(exe, os.path.join(d, "shared"), mode, src, c1)     # fresh process
    sh2 = one_build(exe, os.path.join(d, "shared"), mode, src, c2)     # second process, same cache directory
    val = lambda l: l.split()[2] if l.startswith("R OK") else l
    ok = (val(sh1) == val(iso1) and val(sh2) == val(iso2) and iso1.startswith("R OK") and iso2.startswith("R OK"))
    return dict(name=name, mode=mode, c1=c1, c2=c2, isolated=(val(iso1), val(iso2)), shared=(val(sh1), val(sh2)), ok=ok,
                same_key=(sh1.split()[-1] == sh2.split()[-1]))


def pregen():
    """returns (composition, refusal message or None)"""
    refused = None
    try:
        res = KF.translate(C.REPO)
    except KF.Refuse as e:
        refused = ("tools/C06_keyfields.py refuses the key composition found under %s (the C++ no longer has the "
                   "`hash(a) ^ b ^ c` / kernelPropsHash shape the translator understands): %s" % (C.REPO, e))
        res = KF.reference()      # keep searching for a failing input with the reference composition
    KF.write_coq(res, os.path.join(C.COQ, "gen"), C.REPO)
    return res, refused


def setup():
    C.build_lib(FLAV)
    C.build_driver(PROP, flavour=FLAV)
    pregen()


def run(run, tier, seed, replay_case=None):
    C.build_lib(FLAV)
    exe = C.build_driver(PROP, flavour=FLAV)
    shape, refused = pregen()
    pr = C.coq_properties(PROP, extra_targets=["C06/Extract.vo"],
                          gen_targets=["gen/C06_KeyFields.vo", "gen/C06_KeyChecks.vo"])
    if refused:
        pr["failures"].append(refused)
        pr["discharged"] = 0
    run.add_proof(pr, CHECKER)
    run.coverage["trusted_base"] = TRUSTED
    model = C.build_model(PROP)
    base = os.path.join(C.WORK, "C06", "run-%d-%d" % (seed, os.getpid()))
    shutil.rmtree(base, ignore_errors=True)
    os.makedirs(base)
    try:
        d = PairDiff(run, PROP, [exe, "keys"], model, None, signatures=SIGNATURES, keep_first=2, sep=" ", base=base,
                     model_desc="extracted keys_equal over the key composition generated from the C++ text")
        if replay_case is not None:
            cases = [replay_case]
        else:
            rng = random.Random(seed * 7919 + 6)
            g = Gen(rng)
            n = 2000 if tier == "quick" else 40000
            cases = C.load_corpus(PROP) + [g.pair() for _ in range(n)]
        I, R, S = d.eval(cases)
        if replay_case is not None:
            print("case: %s\nimplementation: %s  (keys %s)\nmodel: %s\nspecification: %s" % (replay_case, I[0], d.last_keys[0][2:], R[0], S[0]))
        known_before = C.load_known_findings
        C.load_known_findings = lambda prop: known_before(prop) + extra_known()
        try:
            prop_fails, corr = d.judge(cases, I, R, S, proof_failures=[], max_report=6)
        finally:
            C.load_known_findings = known_before

        # ---- supporting replay: really build colliding families (second build must not run the first one's code)
        replays = []
        if replay_case is None:
            fams = build_families(base)
            jobs = [(i, f, m) for i, f in enumerate(fams) for m in (["S"] if tier == "quick" else ["S", "O"])]
            if tier == "quick":
                jobs = jobs[:3] + [(j[0], j[1], "O") for j in jobs[3:]]
            with ThreadPoolExecutor(max_workers=5) as ex:
                replays = list(ex.map(lambda j: build_replay(exe, base, j[0], j[1], j[2]), jobs))
            for r in replays:
                if not r["ok"] and len(run.violations) < 12:
                    toks = cfg_tokens(r["c1"], "1") + cfg_tokens(r["c2"], "2")
                    run.violation("a build reuses the binary of a different configuration: " + r["name"],
                                  "property C06 fails on the implementation built from /repo\n"
                                  "case: %s %s %s\n"
                                  "two builds of the same kernel source `out[0] = 100*C06_X + C06_Y|C06_Z`, each in a fresh process:\n"
                                  "  first configuration : %s\n  second configuration: %s\n"
                                  "values computed with separate cache directories: %s then %s\n"
                                  "values computed sharing one cache directory   : %s then %s   (same key: %s)\n"
                                  "required: the shared-directory values equal the separate-directory values\n"
                                  "replay: ./check C06 --replay <this file>   (re-runs the key comparison of the case)\n"
                                  % (r["mode"], r["mode"], " ".join(toks), r["c1"], r["c2"], r["isolated"][0], r["isolated"][1],
                                     r["shared"][0], r["shared"][1], r["same_key"]))

        if pr["failures"] and not run.violations:
            run.violation("proof obligations no longer check",
                          "obligations of coq/C06/Properties_C06.v / coq/gen/C06_KeyChecks.v no longer check: %s\n"
                          "key composition found in the source:\n%s\nsearched %d configuration pairs and %d build replays on the "
                          "implementation: no pair with different effective inputs and equal keys\n"
                          % ("; ".join(pr["failures"])[:1500], KF.describe(shape), len(cases), len(replays)), no_input=True)

        cov = run.coverage
        eq_pairs = sum(1 for x in I if x == "R EQ")
        sig = set()
        for c, i in zip(cases, I):
            toks = c.split()
            diff = tuple(sorted(set((t[1:] if t[0] in "12" else t[0] + ":" + t[2:]).split("=")[0] for t in toks[2:]
                                    if t[0] in "12" or (t[0] in "dg" and t[1] in "12"))))
            sig.add((toks[0], toks[1], diff, i))
        cov["distinct_nontrivial"] = len(sig)
        cov["rule"] = ("configuration pairs counted as distinct by (mode of each side, set of property paths on which the two sides "
                       "differ, observed EQ/NE); each pair = two key computations by device::setupKernelInfo in each of two processes")
        cov["pairs_with_equal_keys"] = eq_pairs
        cov["spec_classes"] = {k: sum(1 for s in S if s == "S " + k) for k in ("IDENT", "SAME", "DIFF")}
        cov["build_replays"] = [dict(family=r["name"], mode=r["mode"], isolated=r["isolated"], shared=r["shared"], ok=r["ok"]) for r in replays]
        cov["key_composition_found"] = KF.describe(shape)
        cov["samples"] = [dict(case=cases[i][:400], implementation=I[i], model=R[i], specification=S[i]) for i in range(min(3, len(cases)))]
        cov["input_distribution"] = "pair kinds: identical 8%, inert-only 5%, one property 30%, swap 12%, move 8%, cancel 12%, source 5%, mode 5%, unrelated 10%, removal 5%; values from shared pools so that values coincide across properties"
        run.assumptions = ["process environment held fixed (OCCA_* compiler variables empty)", "devices created with only a mode",
                           "ideal XOR hash (no accidental 256-bit collisions)"]
    finally:
        shutil.rmtree(base, ignore_errors=True)


def replay(run, path):
    case = C.replay_case_from_file(path)
    globals()["run"](run, "quick", run.seed, replay_case=case)
    return run.finish()
