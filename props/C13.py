"""C13 — preprocessing agrees with the C preprocessor on the supported subset (DESIGN.md 5/C13).

Per generated translation unit:
  I    the real library (drivers/C13.cpp: tokenizer_t -> preprocessor_t, token stream per output line, error count)
  R    the Coq model of the directive state machine + C14's folder model for conditions (coq/C13/Model.v, `pfixed`)
  S    the Coq specification: the standard's group semantics + C++17/intmax_t condition values (coq/C13/Spec.v)
  cpp  the system preprocessor `cpp -x c++ -P` (reference for kept lines AND for macro expansion)
Proved in Coq: conditionals (I is tied to R, R = S by theorem, S is tied to cpp).
TEST ONLY (no theorem): macro expansion — object-like, function-like, variadic, #undef — I against cpp.
"""
import os, random, re, subprocess, tempfile, time
from concurrent.futures import ThreadPoolExecutor
from vlib import common as C

PROP = "C13"
CHECKER = "make -C /verif/coq -k C13/Properties_C13.vo C13/Extract.vo  (coqc 8.16.1, full .vo)"
TRUSTED = [
    "Coq 8.16.1 kernel incl. vm_compute; no native_compute",
    "hand transcription of preprocessor_t::processIf/Ifdef/Ifndef/Elif/Else/Endif, pushStatus/popStatus, lineIsTrue into "
    "coq/C13/Model.v, tied by the differential run of this check; condition values reuse coq/C14 (see C14's trusted base)",
    "coq/C13/Spec.v as a reading of C11 6.10.1 / C++17 [cpp.cond], tied to the system cpp by this check",
    "extraction (ExtrOcamlBasic only) + extract/C13/driver.ml (line classifier, condition lexer/parser) + extract/zutil.ml",
    "drivers/C13.cpp; g++ 12 ASan+UBSan as the observer of undefined behaviour; GNU cpp 12 as the reference preprocessor",
    "macro expansion is NOT covered by a theorem: it is compared with cpp -P on generated units only",
]

META = dict(
    level="Coq theorems conditional_bisim / no_error_in_dead_code / if_value_agrees_partial: for every sequence of source "
          "lines (text, #define/#undef, #if/#ifdef/#ifndef/#elif/#else/#endif) on which the standard's conditional-inclusion "
          "semantics is defined, the model of OCCA's status word + statusStack keeps the same lines, evaluates exactly the "
          "conditions the standard evaluates (in order), reports no error and cannot crash, for every condition evaluator "
          "that returns the standard's value where there is one; the evaluator is C14's folder model on the line after "
          "identifiers -> 0, defined() and 64-bit typing, equal to C14's C++ specification by C14's theorem. Unbounded "
          "(induction over the line sequence with a stack invariant). Macro expansion (object-like, function-like, variadic, "
          "#undef) is tested against cpp -P only.",
    note="partial: conditionals and condition values proved (conditions within C14's guards); macro expansion tested. "
         "Trusted: hand model (differential tie), Spec tied to GNU cpp, extraction, drivers. Needs fixes/C14-1..7 and "
         "fixes/C13-1..3 in the tree; *_refuted theorems keep the pinned behaviour.",
    technique="Coq simulation proof (status stack vs group frames, invariant over line sequences) + reuse of C14's folder "
              "theorem + differential correspondence (library / extracted model / extracted spec / system cpp)",
    design_ref="DESIGN.md section 5, C13")

NL = "\\n"     # line separator inside a case (two characters)

# ---------------------------------------------------------------------------------- generator
LIT_MACROS = [("N3", "3"), ("N0", "0"), ("BIG", "4294967296"), ("HX", "0x80000000"), ("NEG", "7"), ("U1", "1u"),
              ("LL5", "5LL"), ("M64", "0xffffffffffffffff")]
FLAG_MACROS = ["FLAG", "OPT_A", "OPT_B"]
FUNC_MACROS = [("F(a,b)", "((a) + (b))"), ("SQ(x)", "((x) * (x))"), ("ID(x)", "x"), ("G(x)", "F(x, N3)"),
               ("V(x, ...)", "f(x, __VA_ARGS__)"), ("W(...)", "g(__VA_ARGS__)"), ("PAIR(a,b)", "a, b"),
               ("CALL(fn, ...)", "fn(__VA_ARGS__)"), ("TWICE(x)", "ID(ID(x))"), ("Z()", "zero"),
               ("FIRST(a, ...)", "a"), ("REST(a, ...)", "__VA_ARGS__"), ("COUNT3(a, b, c)", "3 a b c")]
OBJ_MACROS = [("EXPR", "(1 + 2)"), ("NAME", "other_name"), ("CHAIN", "N3"), ("SELF", "SELF + 1")]
UNDEFINED = ["UNDEF_A", "UNDEF_B"]

COND_LITS = ["0", "1", "2", "3", "7", "10", "0x10", "2147483647", "2147483648", "4294967295", "4294967296",
             "0x7fffffff", "0x80000000", "0xffffffff", "65536", "1u", "0u", "3L", "2UL", "1LL", "true", "false",
             "9223372036854775807", "0xffffffffffffffff", "010"]


def gen_cond(rng, depth, live):
    """live: the condition will be evaluated (keep it defined); otherwise anything goes"""
    if not live and rng.random() < 0.35:
        return rng.choice(["1/0", "1 % 0", "1 +", "(", "0 / 0 == 1", "UNDEF_A(", "1 2", ""])
    if depth == 0 or rng.random() < 0.2:
        x = rng.random()
        if x < 0.45:
            return rng.choice(COND_LITS)
        if x < 0.7:
            return rng.choice([m for m, _ in LIT_MACROS] + UNDEFINED)
        name = rng.choice([m for m, _ in LIT_MACROS] + FLAG_MACROS + UNDEFINED + ["F", "EXPR"])
        if rng.random() < 0.04:
            return "defined %s" % name          # valid C; known finding defined_without_parens
        return "defined(%s)" % name
    x = rng.random()
    if x < 0.12:
        return "! %s" % paren(gen_cond(rng, depth - 1, live))
    if x < 0.18:
        return "- %s" % paren(gen_cond(rng, depth - 1, live))
    if x < 0.30:
        a = gen_cond(rng, depth - 1, live)
        op = rng.choice(["&&", "||"])
        if rng.random() < 0.4:
            # an operand that C does not evaluate
            bad = rng.choice(["(1/0)", "(1 % 0)", "(2147483647 + 1 > 0 && 1/0)"])
            return "%s %s %s" % (("0" if op == "&&" else "1"), op, bad)
        return "%s %s %s" % (paren(a), op, paren(gen_cond(rng, depth - 1, live)))
    if x < 0.38:
        return "%s ? %s : %s" % (paren(gen_cond(rng, depth - 1, live)), paren(gen_cond(rng, depth - 1, live)),
                                 paren(gen_cond(rng, depth - 1, live)))
    if x < 0.62:
        op = rng.choice(["<", "<=", ">", ">=", "==", "!="])
    elif x < 0.86:
        op = rng.choice(["+", "-", "*"])
    elif x < 0.92:
        op = rng.choice(["/", "%"])
        return "%s %s %s" % (paren(gen_cond(rng, depth - 1, live)), op, rng.choice(["1", "2", "3", "7", "N3"]))
    else:
        op = rng.choice(["&", "|", "^", "<<", ">>"])
        if op in ("<<", ">>"):
            return "%s %s %s" % (paren(rng.choice(COND_LITS[:12])), op, rng.choice(["0", "1", "4", "31", "32", "40"]))
    a = gen_cond(rng, depth - 1, live)
    b = gen_cond(rng, depth - 1, live)
    if op in ("+", "-", "*", "&", "|", "^"):
        # arithmetic on comparison results is where "int acts as intmax_t" differs from C++: keep operands numeric
        a = rng.choice(COND_LITS + [m for m, _ in LIT_MACROS])
        b = rng.choice(COND_LITS[:16] + ["N3"])
    return "%s %s %s" % (paren(a), op, paren(b))


def paren(s):
    return s if re.match(r"^[A-Za-z0-9_]+$", s) or re.match(r"^defined\([A-Za-z0-9_]+\)$", s) else "(%s)" % s


# Only parentheses protect a comma inside a macro invocation: a comma inside [] or {} (and not inside ()) separates
# arguments.  The calls below are built so that the number of arguments cpp sees fits the macro (otherwise cpp rejects
# the whole unit and nothing is compared): a fixed-arity macro gets exactly as many top-level-for-cpp commas as it
# needs, variadic macros take any number.
BR1 = ["x[1, 2]", "{1, 2}", "v[i, j]", "m[(a, b), c]", "{(a, b), c}", "f(u)[1, 2]", "{x[1], y}", "p[q{1, 2}]"]   # 1 splitting comma
BR0 = ["(x[1, 2])", "f({1, 2})", "m[(a, b)]", "{(a, b)}", "(v[i, j], {k, l})"]                                    # none
BR2 = ["x[1, 2, 3]", "{a, b, c}", "m[i, {j, k}]", "{(a, b), c, d}"]                                                 # 2


def bracket_calls(rng, arg):
    b1, b0, b2 = rng.choice(BR1), rng.choice(BR0), rng.choice(BR2)
    return [
        "F(%s)" % b1, "PAIR(%s)" % b1, "F(%s, %s)" % (b0, arg()), "SQ(%s)" % b0, "ID(%s)" % b0, "G(%s)" % b0,
        "COUNT3(%s, %s)" % (b1, arg()), "COUNT3(%s)" % b2, "COUNT3(%s, %s)" % (arg(), b1),
        "FIRST(%s, %s)" % (b1, arg()), "FIRST(%s)" % b2, "REST(%s, %s)" % (b1, arg()), "REST(%s, %s)" % (b2, b0),
        "V(%s, %s)" % (b1, arg()), "V(%s, %s)" % (arg(), b2), "W(%s)" % b1, "W(%s, %s)" % (b2, b1),
        "CALL(h, %s)" % b1, "CALL(h, %s, %s)" % (b0, b2), "TWICE(%s)" % b0, "FIRST(ID(%s), %s)" % (b0, b1),
    ]


def gen_text(rng, k):
    toks = ["L%d" % k]
    for _ in range(rng.randint(1, 4)):
        x = rng.random()
        if x < 0.25:
            toks.append(rng.choice(["x", "y", "42", "+", "foo", ";", "1.5", '"s"', "a[i]"]))
        elif x < 0.45:
            toks.append(rng.choice([m for m, _ in LIT_MACROS] + FLAG_MACROS + [m for m, _ in OBJ_MACROS] + UNDEFINED))
        else:
            arg = lambda: rng.choice(["1", "x", "N3", "(a, b)", "y + 2", "ID(3)", "F(1, 2)", "p->q", "f(u, v)"])
            toks.append(rng.choice([
                "F(%s, %s)" % (arg(), arg()), "SQ(%s)" % arg(), "ID(%s)" % arg(), "G(%s)" % arg(),
                "V(%s, %s)" % (arg(), arg()), "V(%s, %s, %s)" % (arg(), arg(), arg()),
                "W(%s)" % arg(), "W(%s, %s, %s)" % (arg(), arg(), arg()), "PAIR(%s, %s)" % (arg(), arg()),
                "CALL(h, %s, %s)" % (arg(), arg()), "TWICE(%s)" % arg(), "F (%s, %s)" % (arg(), arg()),
                "Z()"] + bracket_calls(rng, arg)))
    return " ".join(toks)


class Gen:
    def __init__(self, rng):
        self.rng = rng
        self.k = 0
        self.lines = []

    def text(self):
        self.k += 1
        self.lines.append(gen_text(self.rng, self.k))

    def directive_def(self):
        rng = self.rng
        x = rng.random()
        if x < 0.35:
            m, b = rng.choice(LIT_MACROS)
            self.lines.append("#define %s %s" % (m, rng.choice([b, b, rng.choice(COND_LITS[:20])])))
        elif x < 0.5:
            self.lines.append("#define %s" % rng.choice(FLAG_MACROS))
        elif x < 0.75:
            m, b = rng.choice(FUNC_MACROS)
            self.lines.append("#define %s %s" % (m, b))
        elif x < 0.85:
            m, b = rng.choice(OBJ_MACROS)
            self.lines.append("#define %s %s" % (m, b))
        else:
            self.lines.append("#undef %s" % rng.choice([m for m, _ in LIT_MACROS] + FLAG_MACROS + ["F", "V", "EXPR"]))

    def body(self, depth, live):
        rng = self.rng
        for _ in range(rng.randint(0, 3)):
            x = rng.random()
            if x < 0.5:
                self.text()
            elif x < 0.75:
                self.directive_def()
            elif depth > 0:
                self.cond_block(depth - 1, live)

    def cond_block(self, depth, live):
        rng = self.rng
        x = rng.random()
        if x < 0.6:
            self.lines.append("#if %s" % gen_cond(rng, rng.choice([0, 1, 2, 2]), live))
        elif x < 0.8:
            self.lines.append("#ifdef %s" % rng.choice([m for m, _ in LIT_MACROS] + FLAG_MACROS + UNDEFINED + ["F"]))
        else:
            self.lines.append("#ifndef %s" % rng.choice([m for m, _ in LIT_MACROS] + FLAG_MACROS + UNDEFINED))
        # which branch is live is not known here; conditions of later #elif are generated as "possibly dead" half the time
        self.body(depth, live)
        for _ in range(rng.choice([0, 0, 1, 1, 2])):
            self.lines.append("#elif %s" % gen_cond(rng, rng.choice([0, 1, 2]), live and rng.random() < 0.5))
            self.body(depth, live)
        if rng.random() < 0.6:
            self.lines.append("#else")
            self.body(depth, live)
        self.lines.append("#endif")


def gen_case(rng, tier):
    g = Gen(rng)
    # a prologue of definitions, then a mix
    for _ in range(rng.randint(2, 6)):
        g.directive_def()
    for _ in range(rng.randint(2, 5)):
        x = rng.random()
        if x < 0.55:
            g.cond_block(rng.choice([0, 1, 2]), True)
        elif x < 0.8:
            g.text()
        else:
            g.directive_def()
    g.text()
    if rng.random() < 0.04:
        # malformed nesting
        i = rng.randint(0, len(g.lines))
        g.lines.insert(i, rng.choice(["#endif", "#else", "#elif 1", "#if 1"]))
    return NL.join(g.lines)


def bracket_fixed_cases():
    """deterministic: every bracket argument shape through a fixed-arity, a variadic-first and a variadic-rest macro"""
    pro = ["#define FIRST(a, ...) a", "#define REST(a, ...) __VA_ARGS__", "#define COUNT3(a, b, c) 3 a b c",
           "#define F(a,b) ((a) + (b))", "#define ID(x) x", "#define W(...) g(__VA_ARGS__)"]
    cases = []
    k = 0
    lines = list(pro)
    for b in BR1:
        k += 1
        lines.append("L%d FIRST(%s, 3) ; REST(%s, 3) ; COUNT3(%s, 9) ; F(%s) ; W(%s)" % (k, b, b, b, b, b))
    cases.append(NL.join(lines))
    lines = list(pro)
    for b in BR0:
        k += 1
        lines.append("L%d FIRST(%s, 3) ; REST(%s, 3) ; F(%s, 9) ; ID(%s) ; W(%s)" % (k, b, b, b, b, b))
    for b in BR2:
        k += 1
        lines.append("L%d FIRST(%s) ; REST(%s) ; COUNT3(%s) ; W(%s)" % (k, b, b, b, b))
    cases.append(NL.join(lines))
    return cases


def fixed_cases():
    """deterministic batch: all shapes of one group (if / elif* / else) x all truth assignments, nested in a live and in a
    dead parent, with an undefined condition (1/0) in every position the standard does not evaluate"""
    cases = []
    import itertools
    for n_elif in (0, 1, 2):
        for has_else in (0, 1):
            for vals in itertools.product("01", repeat=1 + n_elif):
                for parent in (None, "1", "0"):
                    lines = []
                    if parent is not None:
                        lines += ["#if %s" % parent, "L90 p"]
                    taken = False
                    for j, v in enumerate(vals):
                        cond = v
                        if parent == "0" and j > 0:
                            cond = "1/0"          # never evaluated: the whole group is skipped
                        elif taken:
                            cond = "1/0"          # never evaluated: a branch was taken
                        lines.append(("#if %s" if j == 0 else "#elif %s") % cond)
                        lines.append("L%d b" % (j + 1))
                        taken = taken or v == "1"
                    if has_else:
                        lines += ["#else", "L8 e"]
                    lines += ["#endif", "L9 after"]
                    if parent is not None:
                        lines += ["#endif", "L91 q"]
                    cases.append(NL.join(lines))
    return cases


# ---------------------------------------------------------------------------------- observations
TOK = re.compile(r'\s*("(?:[^"\\]|\\.)*"|[A-Za-z_][A-Za-z0-9_]*|\.?[0-9][0-9a-zA-Z_.]*|<<|>>|<=|>=|==|!=|&&|\|\||->|\+\+|--|.)')


def toks(s):
    return [t for t in TOK.findall(s) if t.strip()]


def ids_of_impl(obs):
    """R <line> | <line> ... #E<n>  ->  ('<ids>', n) ; crash observations unchanged"""
    m = re.match(r"^R (.*?) ?#E(\d+)$", obs)
    if not m:
        return obs[2:], None
    body = m.group(1)
    ids = []
    if body.strip():
        for ln in body.split(" | "):
            first = ln.split(" ")[0]
            mm = re.match(r"^L(\d+)$", first)
            ids.append(mm.group(1) if mm else "-1")
    return " ".join(ids), int(m.group(2))


def view_model(obs):
    """what is compared with the model: kept line ids (or how the process died).  The error *count* is not compared:
    whether a malformed condition is counted in preprocessor_t::errors or only printed depends on which part of the
    expression parser rejects it, which the model does not describe; `errors == 0` on every unit the standard accepts
    is part of the property check (failure_kind)."""
    ids, n = ids_of_impl(obs)
    return "R %s" % ids if n is not None else obs


def strip_errors(model_obs):
    return re.sub(r" ?#E\d+( #B)?$", "", model_obs)


def model_saw_malformed(model_obs):
    """the model evaluated a condition that is not an expression (marker #B): the library's expression parser accepts some
    such token lines (e.g. `(1 2) || (1 +)` is true for it), which is outside the model; the standard's run is undefined
    on these units, so only the comparison with the model is skipped"""
    return model_obs.endswith(" #B")


def stream_of_impl(obs):
    m = re.match(r"^R (.*?) ?#E(\d+)$", obs)
    if not m:
        return None
    return [toks(ln) for ln in m.group(1).split(" | ")] if m.group(1).strip() else []


def run_cpp(case):
    """(token stream per kept line) or None when GNU cpp reports an error on the unit"""
    src = case.replace(NL, "\n") + "\n"
    p = subprocess.run(["cpp", "-x", "c++", "-std=c++17", "-P", "-undef", "-nostdinc", "-"],
                       input=src, capture_output=True, text=True, timeout=60)
    # GNU cpp only warns about "integer overflow in preprocessor expression": such a unit is undefined, not accepted
    if p.returncode != 0 or "error" in p.stderr or "overflow" in p.stderr:
        return None
    return [toks(ln) for ln in p.stdout.splitlines() if ln.strip()]


def cpp_all(cases):
    with ThreadPoolExecutor(max_workers=min(8, C.NPROC)) as ex:
        return list(ex.map(run_cpp, cases))


def split_by_marker(stream):
    """cpp -P may put the expansion of one source line on several output lines or join lines: compare per L<k> marker"""
    res = {}
    cur = None
    for ln in stream:
        for t in ln:
            if re.match(r"^L\d+$", t):
                cur = t
                res[cur] = []
            elif cur is not None:
                res[cur].append(t)
            else:
                res.setdefault("_", []).append(t)
    return res


def impl_env():
    env = C.lib_env("asan")
    env["UBSAN_OPTIONS"] = "print_stacktrace=0:halt_on_error=1:exitcode=98"
    env["ASAN_OPTIONS"] = env["ASAN_OPTIONS"] + ":symbolize=0"
    return env


# ---------------------------------------------------------------------------------- known findings
def sig_defined_without_parens(case):
    """an evaluated-looking `defined NAME` without parentheses, and nothing else than plain conditionals around it"""
    return bool(re.search(r"#(?:if|elif)[^\\]*\bdefined\s+[A-Za-z_]", case))


SIGNATURES = {"defined_without_parens": sig_defined_without_parens}


def load_known(prop):
    res = C.load_known_findings(prop)
    p = os.path.join(C.VERIF, "docs", "notes", prop + ".known")
    if os.path.exists(p):
        for line in open(p):
            line = line.strip()
            if not line or line.startswith("#"):
                continue
            parts = [x.strip() for x in line.split("|")]
            if len(parts) >= 4 and parts[0] == prop and not any(k["signature"] == parts[1] for k in res):
                res.append(dict(prop=parts[0], signature=parts[1], input=parts[2], what=" | ".join(parts[3:])))
    return res


class Tie(C.Differential):
    pass


def failure_kind(i_obs, s_obs, cpp_stream):
    """None, or why the implementation's observation violates the property on this unit"""
    ids, nerr = ids_of_impl(i_obs)
    if s_obs not in ("", "S UNDEF"):
        if nerr is None:
            return "dies (%s) where the standard's run is defined" % i_obs[2:]
        if ids != s_obs[2:].strip():
            return "keeps lines [%s], the standard keeps [%s]" % (ids, s_obs[2:].strip())
        if nerr != 0:
            return "reports %d error(s) on a unit the standard accepts" % nerr
    if cpp_stream is not None:
        st = stream_of_impl(i_obs)
        if st is None:
            return "dies (%s) where cpp accepts the unit" % i_obs[2:]
        a, b = split_by_marker(st), split_by_marker(cpp_stream)
        if a != b:
            ks = [k for k in sorted(set(a) | set(b)) if a.get(k) != b.get(k)]
            k = ks[0]
            return "token stream differs from cpp at %s: %s vs cpp %s" % (k, " ".join(a.get(k, ["<absent>"])),
                                                                          " ".join(b.get(k, ["<absent>"])))
    return None


def line_candidates(lines):
    n = len(lines)
    cands = []
    for size in sorted(set([max(1, n // 2), max(1, n // 4), 2, 1]), reverse=True):
        for i in range(0, n - size + 1, max(1, size // 2) if size > 1 else 1):
            c = lines[:i] + lines[i + size:]
            if c and c not in cands:
                cands.append(c)
    return cands[:48]


def shrink_many(cases_, fails, max_rounds=10):
    """line-deletion shrinking of several failing units in lock step: one batch of candidates (one run of the library
    driver, one round of cpp) per round for all of them"""
    cur = [c.split(NL) for c in cases_]
    active = list(range(len(cur)))
    for _ in range(max_rounds):
        if not active:
            break
        texts, owner = [], []
        for k in active:
            for c in line_candidates(cur[k]):
                texts.append(NL.join(c))
                owner.append((k, c))
        if not texts:
            break
        verdicts = fails(texts)
        nxt = {}
        for (k, c), v in zip(owner, verdicts):
            if v and k not in nxt:
                nxt[k] = c
        for k in nxt:
            cur[k] = nxt[k]
        active = [k for k in active if k in nxt]
    return [NL.join(l) for l in cur]


def nontrivial(case):
    return case.count("#if") + case.count("#ifdef") + case.count("#ifndef") >= 1 and "#define" in case


def setup():
    C.build_lib("asan")
    C.build_driver(PROP, flavour="asan")
    C.coq_make(["C13/Properties_C13.vo", "C13/Extract.vo"])
    C.build_model(PROP)


def run(run, tier, seed, replay_case=None):
    C.build_lib("asan")
    impl = C.build_driver(PROP, flavour="asan")
    pr = C.coq_properties(PROP, dirs=[PROP, "C14", "lib"], extra_targets=["C13/Extract.vo"])
    run.add_proof(pr, CHECKER)
    run.coverage["trusted_base"] = TRUSTED
    model = C.build_model(PROP)

    rng = random.Random(seed * 7919 + 13)
    corpus = C.load_corpus(PROP)
    n = 350 if tier == "quick" else 8000
    cases = list(corpus) + fixed_cases() + bracket_fixed_cases() + [gen_case(rng, tier) for _ in range(n)]
    if replay_case is not None:
        cases = [replay_case]
    seen = set()
    cases = [c for c in cases if not (c in seen or seen.add(c))]
    env = impl_env()
    D = Tie(run, PROP, [impl], model, env, signatures=SIGNATURES, sep=NL,
            model_desc="coq/C13/Model.v (pfixed) vs src/occa/internal/lang/preprocessor.cpp")
    t0 = time.time()
    I, R, S = D.eval(cases)
    C.log("[C13] %d units through library, model and specification (%.1fs)" % (len(cases), time.time() - t0))
    CP = cpp_all(cases)
    C.log("[C13] cpp done (%.1fs)" % (time.time() - t0))
    known = load_known(PROP)

    kinds = [failure_kind(I[i], S[i], CP[i]) for i in range(len(cases))]
    prop_fails = [i for i in range(len(cases)) if kinds[i]]
    pf = set(prop_fails)
    # units using `defined NAME` without parentheses (known finding): the library rejects the line, the model (whose
    # condition parser accepts the form) cannot be compared with it where the standard's run is undefined anyway
    corr = [i for i in range(len(cases)) if i not in pf and not model_saw_malformed(R[i])
            and not sig_defined_without_parens(cases[i])
            and view_model(I[i]) != strip_errors(R[i])]

    def fails(texts):
        i1, r1, s1 = D.eval(texts, parallel=len(texts) > 40)
        c1 = cpp_all(texts)
        return [failure_kind(a, b, c) is not None for a, b, c in zip(i1, s1, c1)]

    reported = set()
    budget = 5 if tier == "quick" else 16
    groups = {}
    chosen = []
    for i in sorted(prop_fails, key=lambda i: len(cases[i])):
        # units that show a known finding's construct: one representative per signature is shrunk (the others of
        # the same kind only if the budget allows), every other kind of failure two per kind
        pre = sorted(k["signature"] for k in known if SIGNATURES.get(k["signature"], lambda c: False)(cases[i]))
        kind_key = re.sub(r"L\d+|\[[^\]]*\]|[0-9]+", "", kinds[i])[:60]
        key = ("kf",) + tuple(pre) + (kind_key,) if pre else kind_key
        groups[key] = groups.get(key, 0) + 1
        if groups[key] > (1 if pre else 2) or len(chosen) >= budget:
            continue
        chosen.append(i)
    smalls = shrink_many([cases[i] for i in chosen], fails) if chosen else []
    for i, small in zip(chosen, smalls):
        if small in reported:
            continue
        reported.add(small)
        matched = [k for k in known if SIGNATURES.get(k["signature"], lambda c: False)(small)]
        if matched:
            run.known_finding("%s [signature %s, e.g. %s]" % (matched[0]["what"], matched[0]["signature"], matched[0]["input"]))
            continue
        if len(run.violations) >= 12:
            continue
        i1, r1, s1 = D.eval([small], parallel=False)
        c1 = run_cpp(small)
        content = ("property %s fails on the implementation built from %s\ncase: %s\nwhy: %s\nimplementation: %s\n"
                   "required (specification): %s\ncpp -P: %s\nmodel: %s\nreplay: ./check %s --replay <this file>\n"
                   % (PROP, C.REPO, small, failure_kind(i1[0], s1[0], c1), i1[0], s1[0],
                      "<error>" if c1 is None else " | ".join(" ".join(l) for l in c1), r1[0], PROP))
        run.violation("implementation differs from the reference on: " + small, content)

    if corr and not run.violations:
        i = corr[0]
        content = ("correspondence for %s (%s) no longer holds; no input was found on which the implementation violates "
                   "the specification (%d units searched, %d disagree with the model)\nfirst disagreeing case: %s\n"
                   "implementation: %s\nmodel: %s\nspecification: %s\n"
                   % (PROP, D.model_desc, len(cases), len(corr), cases[i], view_model(I[i]), R[i], S[i]))
        run.violation("correspondence break: model and implementation differ", content, no_input=True)
    if pr["failures"] and not run.violations:
        content = ("proof obligations for %s no longer check: %s\nsearched %d units on the implementation, none violates "
                   "the specification\n" % (PROP, "; ".join(pr["failures"]), len(cases)))
        run.violation("proof obligations no longer check", content, no_input=True)

    # ---- specification vs cpp: kept lines
    spec_bad = []
    for c, s, cp in zip(cases, S, CP):
        if s == "S UNDEF" or cp is None:
            continue
        ids = [t[1:] for ln in cp for t in ln[:1] if re.match(r"^L\d+$", t)]
        # lines of cpp output that do not start with a marker are continuations; count markers anywhere
        ids = [t[1:] for ln in cp for t in ln if re.match(r"^L\d+$", t)]
        if " ".join(ids) != s[2:].strip():
            spec_bad.append((c, s, " ".join(ids)))
    if spec_bad and not run.violations:
        c, s, g = spec_bad[0]
        content = ("the specification coq/C13/Spec.v disagrees with GNU cpp on %d of %d units\nfirst disagreeing case: %s\n"
                   "specification keeps: %s\ncpp keeps: %s\n" % (len(spec_bad), len(cases), c, s, g))
        run.violation("specification differs from the system preprocessor", content, no_input=True)

    cov = run.coverage
    cov["evaluations"] = cov.get("evaluations", 0) + len(cases)
    cov["traces_validated_against_impl"] = len(cases) - len(corr) - len(prop_fails)
    cov["correspondence_disagreements"] = len(corr)
    cov["spec_disagreements"] = len(prop_fails)
    cov["spec_vs_cpp_disagreements"] = len(spec_bad)
    cov["spec_defined"] = sum(1 for s in S if s != "S UNDEF")
    cov["cpp_accepted"] = sum(1 for c in CP if c is not None)
    cov["macro_expansion_is_test_only"] = True
    cov["units_with_malformed_evaluated_condition_not_compared_with_model"] = sum(1 for r in R if model_saw_malformed(r))
    cov["distinct_nontrivial"] = len(set(c for c in cases if nontrivial(c)))
    cov["rule"] = ("translation units: a deterministic batch (one group with 0-2 #elif and optional #else under every truth "
                   "assignment, at top level, inside a live and inside a dead parent, with 1/0 in every condition the standard "
                   "does not evaluate) plus seeded random units: a prologue of object-like (integer bodies incl. > INT_MAX and "
                   "hex top-bit), flag, function-like and variadic macros, then nested #if/#ifdef/#ifndef/#elif/#else/#endif "
                   "(depth <= 3) over conditions built from literals, macro names, defined(), ! - && || ?: comparisons and "
                   "arithmetic, with undefined or malformed conditions in dead positions, #define/#undef inside groups, and text "
                   "lines invoking the macros with non-empty arguments, including arguments with commas inside [] and {} (which separate "
                   "arguments) and inside () (which do not), for fixed-arity and variadic macros; non-trivial = at least one conditional and one #define; "
                   "distinct = distinct text")
    pick = [0, len(cases) // 2, len(cases) - 1]
    cov["samples"] = [dict(case=cases[i], impl=I[i], model=R[i], spec=S[i],
                           cpp=None if CP[i] is None else " | ".join(" ".join(l) for l in CP[i])) for i in pick]
    run.assumptions = ["GNU cpp 12 (-x c++ -std=c++17 -P -undef -nostdinc) is the reference preprocessor",
                       "operands of # and ## are excluded (OCCA expands them on purpose); macro arguments are non-empty",
                       "conditions stay within C14's guards (no ~ on a comparison result, no & | ^ of two comparison results, "
                       "?: branches of the same type) and do not do arithmetic on comparison results"]


def replay(run, path):
    case = C.replay_case_from_file(path)
    if case is None:
        print("no case in replay file")
        return 2
    globals()["run"](run, "quick", run.seed, replay_case=case)
    for s in run.coverage.get("samples", [])[:1]:
        print("replayed: %s\nimplementation: %s\nmodel:          %s\nspecification:  %s\ncpp -P:         %s"
              % (s["case"], s["impl"], s["model"], s["spec"], s["cpp"]))
    return run.finish()
