"""C07 — editing an included header always invalidates stale cached kernels (DESIGN.md 5/C07).

Tie (H): real histories.  Every case is a history of file edits/deletions and builds; the harness writes the
files (kernel source k.okl and headers h1.h..h4.h whose #include lines -- quoted or angle-bracket form, both
resolved through okl/include_paths -- and defined macro are given by the case; a text may be written with a timestamp in the past `^o` or in the future `^f`), and runs EVERY build in a fresh process (drivers/C07.cpp) with one cache directory per history.  The
observation of a build = the values the kernel computes (which encode the texts it was compiled from) and
whether the compiler ran or a cached binary was loaded.  The extracted model (device::applyDependencyHash with
fuel, build.json dependency records, binary reuse) must predict both; the extracted specification (what a
fresh compilation of the current texts computes) is the oracle for the property.
"""
import os, random, re, shutil, sys, time
from concurrent.futures import ThreadPoolExecutor
from vlib import common as C

PROP = "C07"
FLAV = "plain"
CHECKER = "make -C /verif/coq -k C07/Properties_C07.vo C07/Extract.vo  (coqc 8.16.1, full .vo)"
TRUSTED = [
    "Coq 8.16.1 kernel incl. vm_compute; no axioms (theorems closed under the global context)",
    "ideal hashes: distinct texts / distinct (key, dependency state) pairs have distinct 256-bit hashes",
    "hand transcription of device::applyDependencyHash, device::buildKernel/setupKernelInfo, the binary-present test of "
    "serial::device::buildKernel, preprocessor #include following and the kernel/dependencies record into coq/C07/Model.v, "
    "tied by the differential run of this check (values computed + compiler ran or not, per build)",
    "file texts abstracted to (#include list, number); files found through one okl/include_paths directory",
    "extraction (ExtrOcamlBasic) + extract/C07/driver.ml + extract/zutil.ml; drivers/C07.cpp; g++ as the JIT compiler",
    "not modelled (exercised as known-finding scenarios): headers passed through to the host compiler, okl/enabled:false "
    "kernels; not exercised: a new file shadowing an included one earlier in the include path, concurrent or killed builds (C08/C09)",
]
META = dict(
    level="Coq theorems over a model of the kernel cache (file system, #include expansion, build.json dependency records, "
          "device::applyDependencyHash with fuel, binary reuse): for every finite history of edits, deletions and builds the "
          "kernel that runs after each build was compiled from exactly the current texts of everything it includes "
          "(build_runs_current), and applyDependencyHash returns within |cache|+1 calls for every cache (apply_terminates). "
          "The model is tied to the library by real histories: every build in a fresh process sharing one cache directory, "
          "comparing the computed values and whether the compiler ran with the extracted model and specification.",
    note="The theorems describe the code after fixes/C07-1.patch; the pinned function is refuted in Coq and on the library "
         "(two headers edited to equal texts, all dependencies missing, and an ordinary edit sequence that makes two cache "
         "entries point at each other: unbounded recursion, SIGSEGV in every later build). Partial: includes that OCCA passes "
         "through to the host compiler and okl/enabled:false kernels are not dependency-tracked (known findings).",
    technique="Coq invariant proof over histories + fuel/measure termination argument + extracted-model/specification/"
              "implementation differential correspondence on real build histories",
    design_ref="DESIGN.md section 5, C07")

NH = 4          # headers h1..h4
NV = 6          # X1..X6
VB = NV + 1     # a contents number n stands for: macro X<n mod 7> (none for 0) and, bit k of n div 7, whether the k-th
                # #include line is written <h.h> (angle brackets, resolved through okl/include_paths) instead of "h.h"


def include_lines(incs, val):
    bits = val // VB
    return "".join(('#include <h%d.h>\n' if (bits >> k) & 1 else '#include "h%d.h"\n') % j for k, j in enumerate(incs))


def header_text(incs, val):
    t = include_lines(incs, val)
    if val % VB > 0:
        t += "#define X%d 1\n" % (val % VB)
    return t


def root_text(incs, val):
    t = include_lines(incs, val)
    for v in range(1, NV + 1):
        t += "#ifdef X%d\n#define B%d %d\n#else\n#define B%d 0\n#endif\n" % (v, v, 1 << (v - 1), v)
    t += ("@kernel void k(int *out) {\n  for (int i = 0; i < 1; ++i; @tile(1, @outer, @inner)) {\n"
          "    out[0] = %d;\n    out[1] = %s;\n  }\n}\n" % (val, " + ".join("B%d" % v for v in range(1, NV + 1))))
    return t


def parse_tok(t):
    if t == "B":
        return ("B",)
    if t[0] == "D":
        return ("D", int(t[1:]))
    if t[0] == "E":
        when = ""
        if "^" in t:
            t, when = t.split("^", 1)
        e, c = t.index("="), t.index(":")
        incs = [int(x) for x in t[c + 1:].split(",") if x != ""]
        return ("E", int(t[1:e]), int(t[e + 1:c]), incs, when)
    raise ValueError(t)


def fname(src, p):
    return os.path.join(src, "k.okl" if p == 0 else "h%d.h" % p)


def run_history(exe, base, idx, line, mode="S"):
    d = os.path.join(base, "h%d" % idx)
    src, cache = os.path.join(d, "src"), os.path.join(d, "cache")
    shutil.rmtree(d, ignore_errors=True)
    os.makedirs(src)
    os.makedirs(cache)
    env = C.lib_env(FLAV, cache_dir=cache)
    items = []
    t0 = time.time()
    try:
        for t in line.split():
            try:
                op = parse_tok(t)
            except (ValueError, IndexError):
                return "R BAD"
            if op[0] == "E":
                _, p, val, incs, when = op
                open(fname(src, p), "w").write(root_text(incs, val) if p == 0 else header_text(incs, val))
                # the property is about CONTENTS: the new text may arrive with an old timestamp (mv of a backup, cp -p,
                # rsync -t, tar x: "^o", older than every build.json) or a future one ("^f")
                if when == "o":
                    os.utime(fname(src, p), (t0 - 10000 - len(items), t0 - 10000 - len(items)))
                elif when == "f":
                    os.utime(fname(src, p), (t0 + 10000, t0 + 10000))
            elif op[0] == "D":
                try:
                    os.unlink(fname(src, op[1]))
                except OSError:
                    pass
            else:
                rc, out, err = C.sh([exe, mode, fname(src, 0), src], env=env, timeout=300)
                got = [l for l in out.splitlines() if l.startswith("R ")]
                if got and rc == 0:
                    items.append(got[0][2:])
                elif rc == -9:
                    items.append("TIMEOUT")
                else:
                    items.append("CRASH(%s)" % (("signal %d" % -rc) if rc < 0 else ("exit %d" % rc)))
    finally:
        shutil.rmtree(d, ignore_errors=True)
    return "R " + ";".join(items)


def strip_flags(obs):
    return obs[:2] + ";".join(re.sub(r"^[CL?]:", "", it) for it in obs[2:].split(";"))


class HistDiff(C.Differential):
    def __init__(self, *a, base=None, exe=None, workers=4, **kw):
        super().__init__(*a, **kw)
        self.base, self.exe, self.workers = base, exe, workers
        self.n = 0

    def eval(self, lines, parallel=True):
        R, S = C.run_model(self.model_exe, lines)
        self.n += 1
        tag = self.n * 100000
        with ThreadPoolExecutor(max_workers=self.workers) as ex:
            I = list(ex.map(lambda a: run_history(self.exe, self.base, tag + a[0], a[1]), list(enumerate(lines))))
        return I, R, S


class Gen:
    def __init__(self, rng, max_builds):
        self.rng, self.max_builds = rng, max_builds

    def contents(self, p, acyclic_from):
        rng = self.rng
        cand = [j for j in range(acyclic_from + 1, NH + 1)]
        incs = [j for j in cand if rng.random() < 0.35]
        return (self.number(len(incs)), incs)

    def number(self, nincs, lo=0):
        """macro number plus random bracket style for each include line"""
        rng = self.rng
        bits = 0
        for k in range(nincs):
            if rng.random() < 0.45:
                bits |= 1 << k
        return rng.randint(lo, NV) + VB * bits

    def history(self):
        rng = self.rng
        toks = []
        files = {}
        past = {p: [] for p in range(0, NH + 1)}

        def edit(p, val, incs):
            files[p] = (val, list(incs))
            past[p].append((val, list(incs)))
            when = rng.choices(["", "^o", "^f"], [50, 40, 10])[0]     # timestamps do not follow edits
            toks.append("E%d=%d:%s%s" % (p, val, ",".join(map(str, incs)), when))

        rincs = sorted(rng.sample(range(1, NH + 1), rng.randint(1, 3)))
        edit(0, self.number(len(rincs), 1), rincs)
        for p in range(1, NH + 1):
            if p in rincs or rng.random() < 0.6:
                edit(p, *self.contents(p, p))
        toks.append("B")
        builds = 1
        target = rng.randint(3, self.max_builds)
        while builds < target:
            for _ in range(rng.choice([0, 1, 1, 1, 2, 2, 3])):
                kind = rng.choices(["val", "equal", "revert", "graph", "rootval", "rootincs", "delete", "create", "swap"],
                                   [30, 14, 16, 12, 5, 8, 3, 8, 4])[0]
                hs = [p for p in files if p != 0]
                if kind == "val" and hs:
                    p = rng.choice(hs)
                    edit(p, self.number(len(files[p][1])), files[p][1])
                elif kind == "equal" and len(hs) >= 2:
                    p, q = rng.sample(hs, 2)
                    common = [j for j in files[p][1] if j > max(p, q)] if rng.random() < 0.5 else []
                    v = self.number(len(common))
                    edit(p, v, common)
                    edit(q, v, common)
                elif kind == "revert":
                    p = rng.choice(list(files))
                    if len(past[p]) >= 2:
                        edit(p, *rng.choice(past[p][:-1]))
                elif kind == "graph" and hs:
                    p = rng.choice(hs)
                    ni = self.contents(p, p)[1]
                    edit(p, files[p][0] % VB + VB * (self.number(len(ni)) // VB), ni)
                elif kind == "rootval":
                    edit(0, self.number(len(files[0][1]), 1), files[0][1])
                elif kind == "rootincs":
                    ni = sorted(rng.sample(range(1, NH + 1), rng.randint(0, 3)))
                    edit(0, files[0][0] % VB + VB * (self.number(len(ni)) // VB), ni)
                elif kind == "delete" and hs:
                    p = rng.choice(hs)
                    del files[p]
                    toks.append("D%d" % p)
                elif kind == "create":
                    missing = [p for p in range(1, NH + 1) if p not in files]
                    if missing:
                        p = rng.choice(missing)
                        edit(p, *(rng.choice(past[p]) if past[p] and rng.random() < 0.5 else self.contents(p, p)))
                elif kind == "swap" and len(hs) >= 2:
                    p, q = rng.sample(hs, 2)
                    a, b = files[p], files[q]
                    if all(j > max(p, q) for j in a[1] + b[1]):
                        edit(p, *b)
                        edit(q, *a)
            toks.append("B")
            builds += 1
        return " ".join(toks)


# ---- scenarios outside the model (untracked includes): known findings when stale
def kf_scenarios(exe, base):
    res = []
    for name, arg, kernel, hname in (
            ("KF okl_disabled", "okl-disabled",
             '#include "u1.h"\nextern "C" void k(int *out) { out[0] = 7; out[1] = UV; }\n', "u1.h"),
            ("KF passthrough", "passthrough",
             '#include "u1.h"\n@kernel void k(int *out) {\n  for (int i = 0; i < 1; ++i; @tile(1, @outer, @inner)) {\n'
             '    out[0] = 7;\n    out[1] = UV;\n  }\n}\n', "u1.h")):
        d = os.path.join(base, name.replace(" ", "_"))
        src, inc, cache = os.path.join(d, "src"), os.path.join(d, "inc"), os.path.join(d, "cache")
        for x in (src, inc, cache):
            os.makedirs(x)
        env = C.lib_env(FLAV, cache_dir=cache)
        open(os.path.join(src, "k.okl"), "w").write(kernel)
        vals = []
        for v in (1, 2):
            hdir = src if arg == "okl-disabled" else inc
            open(os.path.join(hdir, hname), "w").write("#define UV %d\n" % v)
            a = [exe, "S", os.path.join(src, "k.okl"), src, arg, hdir]
            rc, out, err = C.sh(a, env=env, timeout=300)
            got = [l for l in out.splitlines() if l.startswith("R ")]
            vals.append(got[0][2:] if got else "CRASH rc=%d" % rc)
        res.append((name, vals))
    return res


SIGNATURES = {
    "okl_disabled_untracked": lambda c: c.startswith("KF okl_disabled"),
    "passthrough_untracked": lambda c: c.startswith("KF passthrough"),
}


def extra_known():
    res = []
    p = os.path.join(C.VERIF, "docs", "notes", "C07.known")
    if os.path.exists(p):
        for line in open(p):
            parts = [x.strip() for x in line.strip().split("|")]
            if len(parts) >= 4 and parts[0] == PROP:
                res.append(dict(prop=parts[0], signature=parts[1], input=parts[2], what=" | ".join(parts[3:])))
    return res


def setup():
    C.build_lib(FLAV)
    C.build_driver(PROP, flavour=FLAV)


def run(run, tier, seed, replay_case=None):
    C.build_lib(FLAV)
    exe = C.build_driver(PROP, flavour=FLAV)
    pr = C.coq_properties(PROP, extra_targets=["C07/Extract.vo"])
    run.add_proof(pr, CHECKER)
    run.coverage["trusted_base"] = TRUSTED
    model = C.build_model(PROP)
    base = os.path.join(C.WORK, "C07", "run-%d-%d" % (seed, os.getpid()))
    shutil.rmtree(base, ignore_errors=True)
    os.makedirs(base)
    known = C.load_known_findings(PROP) + extra_known()
    try:
        d = HistDiff(run, PROP, [exe], model, None, view=strip_flags, signatures=SIGNATURES, keep_first=0, sep=" ",
                     base=base, exe=exe, workers=4,
                     model_desc="extracted model of applyDependencyHash / build.json dependencies / binary reuse")
        if replay_case is not None and replay_case.startswith("KF "):
            cases = []
        elif replay_case is not None:
            cases = [replay_case]
        else:
            rng = random.Random(seed * 15485863 + 7)
            g = Gen(rng, 8 if tier == "quick" else 10)
            n = 6 if tier == "quick" else 150
            cases = C.load_corpus(PROP) + [g.history() for _ in range(n)]
        I, R, S = d.eval(cases) if cases else ([], [], [])
        if replay_case is not None and cases:
            print("case: %s\nimplementation: %s\nmodel: %s\nspecification: %s" % (replay_case, I[0], R[0], S[0]))
        # bounded shrinking of the first failing histories (every step re-runs real builds)
        fails = [i for i in range(len(cases)) if d.fails_spec(I[i], S[i])]
        for i in fails[:1]:
            def still(tokens):
                l = " ".join(tokens)
                i1, r1, s1 = d.eval([l])
                return d.fails_spec(i1[0], s1[0])
            small = " ".join(C.shrink_tokens(cases[i].split(" "), still, max_rounds=14))
            if small != cases[i]:
                i1, r1, s1 = d.eval([small])
                cases[i], I[i], R[i], S[i] = small, i1[0], r1[0], s1[0]
        if cases:
            before = C.load_known_findings
            C.load_known_findings = lambda prop: before(prop) + extra_known()
            try:
                d.judge(cases, I, R, S, proof_failures=pr["failures"], shrink=False, max_report=6)
            finally:
                C.load_known_findings = before
        elif pr["failures"]:
            run.violation("proof obligations no longer check", "; ".join(pr["failures"])[:2000], no_input=True)

        # untracked includes
        kfs = kf_scenarios(exe, base) if (replay_case is None or replay_case.startswith("KF ")) else []
        for name, vals in kfs:
            want = ["C:7,1", "C:7,2"]
            if vals == want:
                continue
            matched = [k for k in known if SIGNATURES.get(k["signature"], lambda c: False)(name)]
            if matched and vals == ["C:7,1", "L:7,1"]:
                run.known_finding("%s [signature %s, e.g. %s]" % (matched[0]["what"], matched[0]["signature"], matched[0]["input"]))
            else:
                run.violation("a build reuses a binary compiled against an older header: " + name,
                              "property C07 fails on the implementation built from /repo\ncase: %s\n"
                              "kernel including u1.h (`#define UV 1`), built; u1.h edited to `#define UV 2`, built again in a "
                              "fresh process with the same cache directory\nobserved: %s\nrequired: %s\n"
                              "replay: ./check C07 --replay <this file>\n" % (name, vals, want))

        cov = run.coverage
        nb = sum(len(x[2:].split(";")) for x in I) if I else 0
        cov["evaluations"] = cov.get("evaluations", 0) + len(kfs)
        cov["real_builds"] = nb + 2 * len(kfs)
        items = set()
        for c, i in zip(cases, I):
            prev = None
            for it in i[2:].split(";"):
                items.add((it[:1], prev[:1] if prev else "-", len(c.split())))
                prev = it
        cov["distinct_nontrivial"] = len(set((c, i) for c, i in zip(cases, I) if i.count(";") >= 2))
        cov["rule"] = ("histories with at least three builds, distinct by (history, observation); every build runs in a fresh "
                       "process against the history's own cache directory; observation per build = kernel output "
                       "(source number, bit mask of the macros of the included files) and compiled-now / loaded-from-cache")
        cov["build_outcomes"] = {k: sum(it.startswith(k) for x in I for it in x[2:].split(";")) for k in ("C:", "L:", "F", "CRASH", "TIMEOUT")}
        cov["samples"] = [dict(history=cases[i], implementation=I[i], model=R[i], specification=S[i]) for i in range(min(3, len(cases)))]
        cov["untracked_include_scenarios"] = [dict(name=n, observed=v) for n, v in kfs]
        cov["input_distribution"] = ("histories of 3..%d builds over k.okl + 4 headers; between builds 0-3 edits: header text 30%%, two "
                                     "headers made equal 14%%, revert to an earlier text 16%%, include-graph change 12%%, source "
                                     "text/includes 13%%, delete/create 11%%, swap 4%%" % (8 if tier == "quick" else 10))
        run.assumptions = ["ideal hashes", "files reached through one okl/include_paths directory", "sequential builds (one process at a time)"]
    finally:
        shutil.rmtree(base, ignore_errors=True)


def replay(run, path):
    case = C.replay_case_from_file(path)
    globals()["run"](run, "quick", run.seed, replay_case=case)
    return run.finish()
