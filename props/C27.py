"""C27 — hash_t strings are faithful and hashing has no undefined behaviour (DESIGN.md 5/C27)."""
import os, random, re
from vlib import common as C

PROP = "C27"
CHECKER = "make -C /verif/coq -k C27/Properties_C27.vo C27/Extract.vo  (coqc 8.16.1, full .vo)"
TRUSTED = [
    "Coq 8.16.1 kernel incl. vm_compute (finite sweeps over the 256 bytes / 22x22 hex digit pairs); no native_compute",
    "hand transcription of src/utils/hash.cpp, include/occa/utils/hash.hpp and toHex/fromHex of "
    "src/occa/internal/utils/string.hpp into coq/C27/Model.v (int = 32-bit two's complement, plain char signed, "
    "little endian: x86-64), tied by the differential run of this check",
    "extraction (ExtrOcamlBasic only) + extract/C27/driver.ml + extract/zutil.ml",
    "drivers/C27.cpp (reads the public field h[8]; builds hash_t values through the public constructors)",
    "g++ 12 UBSan/ASan (-fno-sanitize-recover=undefined) as the observer of undefined behaviour in the implementation",
]

META = dict(
    level="Coq theorems over all hash values, all byte strings and all histories of hash_t operations: "
          "fromString(getFullString h) = h for every 8-int value; after every history of construction / assignment / "
          "fromString / ^= / clear / getString calls, getString of every variable is the first 16 characters of its full "
          "string and every observation equals the specification's (hex text of the 32 bytes), with no undefined behaviour; "
          "hash(ptr,n) is UB-free for every byte string, equals the wrapped signed product the pinned code computed in "
          "practice, and depends only on the n bytes read. The pinned code is refuted in Coq (empty / stale short string, "
          "signed overflow on every non-empty input). The model is tied to the real hash_t under ASan+UBSan by running "
          "the same histories through both and comparing all strings and ints; two processes compare hash values.",
    note="Trusted: Coq kernel; the hand model (differential tie, seeded + enumerated special values and all 256 byte values); "
         "extraction; drivers; x86-64 data model (signed char, 32-bit int, little endian). Needs fixes/C27-1.patch and "
         "fixes/C27-2.patch applied to /repo: on the pinned tree the check reports the two defects as VIOLATION. "
         "hash_t::random() and hash<T>(const T&) over padded structs are outside the model.",
    technique="Coq proofs (arithmetic over Z with explicit wrap, finite sweeps for single bytes, invariant over histories, "
              "refinement to a cache-free specification) + extracted-model/implementation differential correspondence under UBSan",
    design_ref="DESIGN.md section 5, C27")

M32 = 0xFFFFFFFF
DEFAULT_H = [101527, 101531, 101533, 101537, 101561, 101573, 101581, 101599]
PRIMES = [102679, 102701, 102761, 102763, 102769, 102793, 102797, 102811]
INT_MIN, INT_MAX = -2 ** 31, 2 ** 31 - 1


def signed(u):
    u &= M32
    return u - (1 << 32) if u >= (1 << 31) else u


def ref_hash(bs):
    """Generator-side only (to aim I tokens at realistic values): the hash of a byte string."""
    h = list(DEFAULT_H)
    for b in bs:
        sc = b - 256 if b >= 128 else b
        for j in range(8):
            h[j] = ((h[j] * PRIMES[j]) & M32) ^ (sc & M32)
    return [signed(x) for x in h]


def full_of(ws):
    return "".join("%02x" % (((w & M32) >> (8 * k)) & 255) for w in ws for k in range(4))


def ints_tok(i, ws):
    return "I%d:%s" % (i, ",".join(str(w) for w in ws))


def bytes_tok(prefix, bs):
    """prefix + '=' literal when every byte is a printable non-space character, else ':' + hex."""
    if bs and all(33 <= b <= 126 for b in bs):
        return prefix + "=" + "".join(chr(b) for b in bs)
    return prefix + ":" + "".join("%02x" % b for b in bs)


SPECIAL_WORDS = [0, 0, 1, -1, INT_MIN, INT_MAX, 255, 256, -256, 0x12345678, -0x12345678, 0x0f0f0f0f, signed(0xf0f0f0f0),
                 16, 15, 0x7f, 0x80, signed(0x80000000), 0x00ff00ff, signed(0xff00ff00), 0x0a0b0c0d, signed(0xa0b0c0d0)]


def rand_value(rng, pool):
    x = rng.random()
    if x < 0.18:
        return [0] * 8
    if x < 0.26:
        return list(DEFAULT_H)
    if x < 0.50 and pool:
        return list(rng.choice(pool))
    if x < 0.70:
        return ref_hash([rng.randrange(256) for _ in range(rng.randint(0, 12))])
    if x < 0.85:
        return [rng.choice(SPECIAL_WORDS) for _ in range(8)]
    if x < 0.92:
        # mostly zero with one non-zero word: != is decided late / early
        v = [0] * 8
        v[rng.randrange(8)] = rng.choice(SPECIAL_WORDS)
        return v
    return [signed(rng.getrandbits(32)) for _ in range(8)]


def rand_bytes(rng, tier):
    n = rng.choice([0, 1, 1, 2, 3, 5, 8, 16, 31, 64]) if rng.random() < 0.7 else rng.randint(0, 40 if tier == "quick" else 300)
    x = rng.random()
    if x < 0.4:
        return [rng.choice(b"abcxyz/._-0129AZ") for _ in range(n)]
    if x < 0.6:
        return [rng.choice([0, 0x7f, 0x80, 0xff, 0xe9, 1, 0x20, 0x0a]) for _ in range(n)]
    return [rng.randrange(256) for _ in range(n)]


def rand_hex_text(rng, pool):
    """strings fromString is specified on: hexadecimal text, any length, either case."""
    x = rng.random()
    v = rand_value(rng, pool)
    s = full_of(v)
    if x < 0.45:
        pass
    elif x < 0.6:
        s = s.upper()
    elif x < 0.7:
        s = "".join(c.upper() if rng.random() < 0.5 else c for c in s)
    elif x < 0.85:
        s = s[:rng.choice([0, 1, 2, 3, 15, 16, 17, 32, 62, 63])]
    else:
        s = s + "".join(rng.choice("0123456789abcdefABCDEF") for _ in range(rng.choice([1, 2, 3, 8, 64])))
    return [ord(c) for c in s]


def rand_ascii_text(rng):
    n = rng.choice([0, 1, 2, 3, 7, 16, 63, 64, 65, 70])
    alph = "0123456789abcdefABCDEFgzGZ@`/:[{ !~\x00\x7f\x01"
    return [ord(rng.choice(alph)) for _ in range(n)]


def gen_case(rng, tier):
    pool = []
    toks = []
    regs = [0, 1, 2, 3]

    def setv(i):
        v = rand_value(rng, pool)
        pool.append(v)
        toks.append(ints_tok(i, v))
    for i in rng.sample(regs, rng.randint(1, 3)):
        setv(i)
    nops = rng.randint(3, 14 if tier == "quick" else 30)
    for _ in range(nops):
        x = rng.random()
        i, j = rng.choice(regs), rng.choice(regs)
        if x < 0.13:
            setv(i)
        elif x < 0.22:
            toks.append(bytes_tok("F%d" % i, rand_hex_text(rng, pool)))
        elif x < 0.31:
            toks.append("A%d%d" % (i, j))
        elif x < 0.50:
            # combinations, self-combination (all-zero result) more often than chance
            toks.append("X%d%d" % (i, i if rng.random() < 0.3 else j))
        elif x < 0.53:
            toks.append("C%d" % i)
        elif x < 0.72:
            toks.append("S%d" % i)
        elif x < 0.79:
            toks.append("L%d" % i)
        elif x < 0.86:
            toks.append("T%d" % i)
        elif x < 0.90:
            toks.append("E%d%d" % (i, j))
        elif x < 0.92:
            toks.append("N%d" % i)
        elif x < 0.97:
            toks.append(bytes_tok("H", rand_bytes(rng, tier)))
        else:
            toks.append(bytes_tok("P", rand_ascii_text(rng)))
    for i in regs:
        if rng.random() < 0.6:
            toks += ["S%d" % i, "L%d" % i]
    if rng.random() < 0.4:
        toks.append("T%d" % rng.choice(regs))
    return " ".join(toks)


def gen_hash_case(rng, tier):
    return " ".join(bytes_tok("H", rand_bytes(rng, tier)) for _ in range(rng.randint(1, 4)))


def gen_nospec_case(rng):
    """fromString on strings with characters >= 0x80 (outside the theorems: the model predicts UB exactly when such a
    character is the first of a consumed pair); compared with the model only."""
    n = rng.choice([2, 3, 4, 8, 64, 66, 70])
    hi = [0x80, 0xe9, 0xff, 0xc3]
    lo = [0x30, 0x61, 0x46, 0x7a, 0x39]
    if rng.random() < 0.6:
        # defined: high characters only as second of a pair, in an ignored trailing character or beyond 64 characters
        bs = [rng.choice(hi) if (k % 2 == 1 or k >= 64 or (k == n - 1 and n % 2 == 1)) and rng.random() < 0.5 else rng.choice(lo)
              for k in range(n)]
    else:
        bs = [rng.choice(lo) if rng.random() < 0.7 else rng.choice(hi) for _ in range(n)]
    return "Q " + bytes_tok("P", bs)


def enumerated():
    """Deterministic batch: special values x cache states, and every byte value through toHex/fromHex."""
    cases = []
    vals = [[0] * 8, DEFAULT_H, [-1] * 8, [INT_MIN] * 8, [INT_MAX] * 8, [1, 2, 3, 4, 5, 6, 7, 8],
            [0, 0, 0, 0, 0, 0, 0, 1], [1, 0, 0, 0, 0, 0, 0, 0], ref_hash(b"a"), ref_hash(b""), ref_hash(b"occa")]
    for v in vals:
        cases.append("%s S0 L0 T0 S0 N0" % ints_tok(0, v))                        # fresh object
        cases.append("%s %s X01 S0 L0 T0 E01" % (ints_tok(0, v), ints_tok(1, v)))  # combined to zero
        cases.append("%s S0 X00 S0 L0" % ints_tok(0, v))                           # cached, then zero
        cases.append("F0=%s S0 L0 T0" % full_of(v))                                # through fromString
        for u in vals[:6]:
            cases.append("%s S0 %s S0 L0 A10 S1 L1" % (ints_tok(0, u), ints_tok(0, v)))   # cached u, then v
            cases.append("%s %s E01 E10 X01 S0 L0 T0" % (ints_tok(0, u), ints_tok(1, v)))
    for b in range(256):
        w = signed(b | ((255 - b) << 8) | (b << 16) | (b << 24))
        v = [w, signed(b << 24), b, signed(b * 0x01010101), w, 0, signed((b << 8)), w]
        cases.append("%s L0 T0 S0" % ints_tok(0, v))
    for b in list(range(0, 256, 5)) + [0x7f, 0x80, 0xff]:
        cases.append("H:%02x H:%02x%02x H:00%02x00" % (b, b, b, b))
    cases.append("H: S0 L0 T0")
    return cases


def norm_impl(line):
    """UBSan stops the driver on the first undefined operation: the model's observation for that is `UB`."""
    if line.startswith("R CRASH UndefinedBehaviorSanitizer") or line.startswith("R CRASH UBSan"):
        return "R UB"
    return line


MASK_H = re.compile(r"H\([^;)]*;[^;)]*;[^;)]*;")
MASK_P = re.compile(r"P\([^)]*\)")


def view(obs):
    """What the property speaks about: the value of hash(bytes) and of fromString on non-hex text are masked."""
    return MASK_P.sub("P(_)", MASK_H.sub("H(_;", obs))


class Diff(C.Differential):
    def eval(self, lines, parallel=True):
        I, R, S = super().eval(lines, parallel)
        return [norm_impl(x) for x in I], R, S


def nontrivial(case):
    t = case.split()
    changes = [x for x in t if x[0] in "XFAC"]
    reads = [x for x in t if x[0] in "ST"]
    return (len(changes) >= 1 and len(reads) >= 1) or any(x[0] == "H" and len(x) > 2 for x in t)


def load_extra_known():
    """docs/notes/C27.known: extra known-finding lines (same format as known_findings.txt); none at present."""
    p = os.path.join(C.VERIF, "docs", "notes", "C27.known")
    res = []
    if os.path.exists(p):
        for line in open(p):
            parts = [x.strip() for x in line.strip().split("|")]
            if len(parts) >= 4 and parts[0] == PROP and not line.startswith("#"):
                res.append(dict(prop=parts[0], signature=parts[1], input=parts[2], what=" | ".join(parts[3:])))
    return res


SIGNATURES = {}


def setup():
    C.build_lib("asan")
    C.build_driver("C27", flavour="asan")
    C.coq_properties(PROP, extra_targets=["C27/Extract.vo"])
    C.build_model(PROP)


def second_process(run, impl, env, cases, I):
    """hashing equal bytes gives equal hashes in every process: a second process with another heap layout,
    buffer alignment and (ASLR) other addresses must print the same lines."""
    hcases = [(k, c) for k, c in enumerate(cases) if " H" in " " + c and not I[k].startswith("R CRASH") and I[k] != "R UB"]
    if not hcases:
        return 0
    env2 = dict(env)
    env2["C27_SALT"] = "5"
    I2 = [norm_impl(x) for x in C.run_impl_parallel([impl], [c for _, c in hcases], env=env2, jobs=2)]
    bad = 0
    for (k, c), y in zip(hcases, I2):
        if y.startswith("R CRASH (not run"):
            continue
        if y != I[k]:
            bad += 1
            if bad <= 3:
                content = ("property %s fails on the implementation built from /repo: two processes disagree\ncase: %s\n"
                           "implementation: %s\nsecond process (C27_SALT=5): %s\nrequired (specification): equal lines\n"
                           % (PROP, c, I[k], y))
                run.violation("hash values differ between two processes on: " + c, content)
    return len(hcases)


def run(run, tier, seed, replay_case=None):
    C.build_lib("asan")
    impl = C.build_driver("C27", flavour="asan")
    pr = C.coq_properties(PROP, extra_targets=["C27/Extract.vo"])
    run.add_proof(pr, CHECKER)
    run.coverage["trusted_base"] = TRUSTED
    model = C.build_model(PROP)

    rng = random.Random(seed * 7919 + 27)
    corpus = C.load_corpus(PROP)
    n = 2500 if tier == "quick" else 40000
    nh = 400 if tier == "quick" else 4000
    cases = list(corpus) + enumerated() + [gen_case(rng, tier) for _ in range(n)] + [gen_hash_case(rng, tier) for _ in range(nh)]
    nospec = [gen_nospec_case(rng) for _ in range(36 if tier == "quick" else 120)]
    if replay_case is not None:
        cases = [replay_case]
        nospec = []
        if replay_case.startswith("Q "):
            cases, nospec = [], [replay_case]
    env = C.lib_env("asan")
    # no stack traces: symbolising libocca.so costs seconds per stopped process, and the summary line is enough
    env["UBSAN_OPTIONS"] = "print_stacktrace=0:halt_on_error=1:exitcode=98"
    D = Diff(run, PROP, [impl], model, env, view=view, signatures=SIGNATURES, keep_first=0, jobs=2,
             model_desc="coq/C27/Model.v vs src/utils/hash.cpp + toHex/fromHex of src/occa/internal/utils/string.hpp")
    orig_known = C.load_known_findings
    C.load_known_findings = lambda prop: orig_known(prop) + load_extra_known()
    try:
        I, R, S = ([], [], [])
        if cases:
            I, R, S = D.eval(cases)
            D.judge(cases, I, R, S, proof_failures=pr["failures"], max_report=3)
        nproc2 = second_process(run, impl, env, cases, I) if cases else 0
        if nospec:
            I2, R2, S2 = D.eval(nospec)
            keep = (run.coverage.get("correspondence_disagreements", 0), run.coverage.get("spec_disagreements", 0))
            D.judge(nospec, I2, R2, S2, proof_failures=[], max_report=3)
            run.coverage["correspondence_disagreements"] += keep[0]
            run.coverage["spec_disagreements"] += keep[1]
    finally:
        C.load_known_findings = orig_known

    cov = run.coverage
    distinct = set(c for c in cases if nontrivial(c))
    cov["distinct_nontrivial"] = len(distinct)
    cov["rule"] = ("seeded histories over 4 hash_t variables (values: all-zero, default, hashes of random bytes, extremes, "
                   "one-non-zero-word, random; ops: construct from ints, fromString of hex text in either case and any length, "
                   "assign, ^= (self-combination favoured), clear; observations getString/getFullString/fromString(getFullString)/"
                   "==,!=,</getInt), hash() of byte strings incl. NUL and >=0x80 bytes, fromString of arbitrary ASCII; plus an "
                   "enumerated batch (11 special values x cache states, all 256 byte values through toHex/fromHex, single-byte "
                   "hashes); plus fromString on non-ASCII strings compared with the model only. non-trivial = (a value-changing "
                   "op X/F/A/C and a getString or round-trip read) or a hash of a non-empty byte string; distinct = distinct case text")
    if cases:
        cov["samples"] = [dict(case=cases[i], impl=I[i], model=R[i], spec=S[i]) for i in sorted(set([0, len(cases) // 2, len(cases) - 1]))]
    elif nospec:
        cov["samples"] = [dict(case=nospec[0], impl=I2[0], model=R2[0], spec="")]
    cov["op_mix"] = {k: sum(len(re.findall(r"(?:^| )%s" % k, c)) for c in cases) for k in "IFAXCSLTENHP"}
    cov["second_process_cases"] = nproc2
    cov["nospec_cases_model_only"] = len(nospec)
    cov["hash_input_lengths"] = dict(max=max([len(t) for c in cases for t in c.split() if t[0] == "H"] or [0]))
    run.assumptions = ["x86-64 data model: plain char signed, int 32-bit two's complement, little endian (the model's to_char/to_i32/int_chars)",
                       "strings shorter than 2^31 characters (fromHex casts size() to int)",
                       "hash_t::random() and the template hash<T>(const T&) over objects with padding are not modelled",
                       "fromString on characters >= 0x80 is outside the property (left shift of a negative char, UB before C++20): "
                       "modelled as UB, compared with the implementation, not judged against a specification"]


def replay(run, path):
    case = C.replay_case_from_file(path)
    if case is None:
        print("no case in replay file")
        return 2
    globals()["run"](run, "quick", run.seed, replay_case=case)
    for s in run.coverage.get("samples", [])[:1]:
        print("replayed: %s\nimplementation: %s\nmodel:          %s\nspecification:  %s" % (s["case"], s["impl"], s["model"], s["spec"]))
    return run.finish()
