"""C03 — memory-pool reservations never overlap and keep their contents (DESIGN.md 5/C03)."""
import os, random
from vlib import common as C
from tools import C03_pool as P

PROP = "C03"
CHECKER = "make -C /verif/coq -k C03/Properties_C03.vo C03/Extract.vo  (coqc 8.16.1, full .vo)"
TRUSTED = [
    "Coq 8.16.1 kernel incl. vm_compute; no native_compute; stdlib FMapAVL (axiom-free) for buffer contents",
    "hand transcription of src/occa/internal/core/memoryPool.cpp, modes/serial/memoryPool.cpp and the wrappers in "
    "src/core/{memoryPool,memory}.cpp into coq/C03/Model.v, tied by the differential run of this check",
    "extraction (ExtrOcamlBasic only) + extract/C03/driver.ml + extract/zutil.ml",
    "drivers/C03.cpp (reads modeMemoryPool_t::reservations/offset/size through the internal headers)",
    "tools/C03_pool.py: the placement oracle applied to the implementation's observation",
    "g++ 12 / ASan+UBSan as the observer of out-of-bounds copies in the implementation",
    "64-bit dim_t/udim_t arithmetic is modelled in Z (no wrap-around; sizes far below 2^63)",
]

META = dict(
    level="Coq theorems: for every history of reserve/slice/release/write/resize/shrinkToFit/setAlignment on the modelled "
          "pool (hole search, three exits of reserve, block-merging migration loops of resize and setAlignment with their "
          "memcpy/setPtr arithmetic), every reservation lies inside the buffer, reservations of different reserve() calls share "
          "no byte, every byte of a slice is a byte of its live root, no migration copies outside a buffer, and every handle "
          "reads back exactly what a layout-free reference semantics (one byte array per reserve call, slices as windows) "
          "says (invariant + refinement, unbounded histories). The model is tied to the C++ by running the extracted model and "
          "the real Serial pool on the same histories and comparing offsets, sizes, counters and contents after every step.",
    note="Trusted: Coq kernel; the hand model (tie is differential, seeded); extraction; drivers; Z instead of 64-bit "
         "arithmetic. The model describes the source after "
         "fixes/C03-1..3 and fixes/C04-1; the snapshot's behaviour is kept as the `pinned` variant with *_refuted theorems.",
    technique="Coq invariant + contents refinement over histories; extracted-model/implementation differential correspondence",
    design_ref="DESIGN.md section 5, C03")

SIGNATURES = {}


def setup():
    C.build_driver("C03", flavour="asan")
    C.build_model(PROP)


def run(run, tier, seed, replay_case=None):
    C.build_lib("asan")
    impl = C.build_driver("C03", flavour="asan")
    pr = C.coq_properties(PROP, dirs=["C03", "lib"], extra_targets=["C03/Extract.vo"])
    run.add_proof(pr, CHECKER)
    run.coverage["trusted_base"] = TRUSTED
    model = C.build_model(PROP)

    rng = random.Random(seed * 7919 + 3)
    corpus = C.load_corpus(PROP)
    n = 1500 if tier == "quick" else 15000
    n = int(os.environ.get("VERIF_N", n))            # smaller batches for seeded-bug trials on a loaded machine
    cases = list(corpus) + list(P.SEED_CASES) + P.gen_cases(rng, n, tier)
    if replay_case is not None:
        cases = [replay_case]
    env = C.lib_env("asan")
    D = C.Differential(run, PROP, [impl], model, env, view=P.view_C03, signatures=SIGNATURES, keep_first=0,
                       model_desc="coq/C03/Model.v vs src/occa/internal/core/memoryPool.cpp (+ serial/memoryPool.cpp)")
    I, R, S = D.eval(cases)
    D.judge(cases, I, R, S, proof_failures=pr["failures"], max_report=(3 if "VERIF_N" in os.environ else 12))

    cov = run.coverage
    cov["distinct_nontrivial"] = len(set(c for c in cases if P.nontrivial(c)))
    cov["rule"] = ("seeded pool histories (reserve sizes around alignment multiples, slices at unaligned offsets incl. empty and "
                   "count=-1, releases, writes through aliases, resize/shrinkToFit/setAlignment), one fifth each aimed at "
                   "fragmentation with reserved+aligned==size, orphaned unaligned slices, alignment changes 128->16->256; "
                   "non-trivial = at least two reserves and one release/resize/shrink/re-align; distinct = distinct case text")
    k = len(cases)
    cov["samples"] = [dict(case=cases[i], impl=I[i], model=R[i], spec=S[i]) for i in sorted(set((0, k // 2, k - 1)))]
    cov["op_mix"] = {name: sum(1 for c in cases for t in c.split() if t[0] == ch)
                     for name, ch in (("reserve", "r"), ("slice", "s"), ("release", "f"), ("write", "w"),
                                      ("resize", "z"), ("shrinkToFit", "k"), ("setAlignment", "a"))}
    run.assumptions = ["one Serial device and one pool per history; one occa::memory handle per reservation",
                       "the observation includes offsets, sizes, all four pool counters and both device counters, so a "
                       "change of placement policy is a correspondence break, not a silent pass"]


def replay(run, path):
    case = C.replay_case_from_file(path)
    if case is None:
        print("no case in replay file")
        return 2
    globals()["run"](run, "quick", run.seed, replay_case=case)
    for s in run.coverage.get("samples", [])[:1]:
        print("replayed: %s\nimplementation: %s\nmodel:          %s\nspecification:  %s" % (s["case"], s["impl"], s["model"], s["spec"]))
    return run.finish()
