"""C05 — device memory accounting returns to zero and tracks live allocations (DESIGN.md 5/C05)."""
import os, random
from vlib import common as C
from tools import C05_dev as P

PROP = "C05"
CHECKER = "make -C /verif/coq -k C05/Properties_C05.vo C05/Extract.vo  (coqc 8.16.1, full .vo)"
TRUSTED = [
    "Coq 8.16.1 kernel incl. vm_compute; no native_compute; stdlib FMapAVL (axiom-free) inside the pool model",
    "hand transcription of device::malloc/wrapMemory/createMemoryPool (src/core/device.cpp), serial::device::malloc/wrapMemory, "
    "serial::buffer, ~modeBuffer_t (src/occa/internal/core/buffer.cpp), memory::clone into coq/C05/Model.v, and of the pool "
    "(coq/C03/Model.v), tied by the differential run of this check",
    "extraction (ExtrOcamlBasic only) + extract/C05/driver.ml + extract/zutil.ml",
    "drivers/C05.cpp; tools/C05_dev.py: the sum-of-live / running-maximum oracle applied to the implementation's observation",
    "g++ 12 / ASan+UBSan+LeakSanitizer (a leaked host-pointer buffer shows as a correspondence break)",
    "64-bit udim_t arithmetic is modelled in Z (no wrap-around)",
]

META = dict(
    level="Coq theorems: for every history of malloc (with/without source, use_host_pointer, own_host_pointer), clone, wrapMemory, "
          "release, pool creation, every pool operation of C03/C04 (reserve/slice/release/resize/shrinkToFit/setAlignment) and pool "
          "release, the modelled bytesAllocated equals the bytes of the live malloc/clone allocations plus the sizes of the live pool "
          "buffers (wrapped memory counts nothing), maxBytesAllocated equals the maximum over every value bytesAllocated has taken "
          "(including the moment of a pool migration when both buffers exist), and with nothing live the counter is 0 (invariant over "
          "unbounded histories; the pool part reuses the C03 invariant). The model is tied to the C++ by running the extracted model "
          "and a real Serial device on the same histories and comparing both counters and every pool's size after every step.",
    note="Trusted: Coq kernel; the hand model (tie is differential, seeded); extraction; drivers; Z instead of 64-bit arithmetic. "
         "detach() is excluded as the property says; slices of malloc'ed memories share their buffer and are not modelled. The "
         "model describes the source after fixes/C05-1 (and the pool fixes); the snapshot's wrapped use_host_pointer buffer is kept "
         "as host_counted = false with host_pointer_never_decremented_refuted.",
    technique="Coq invariant over histories + extracted-model/implementation differential correspondence",
    design_ref="DESIGN.md section 5, C05")

SIGNATURES = {}


def setup():
    C.build_driver("C05", flavour="asan")
    C.build_model(PROP)


def run(run, tier, seed, replay_case=None):
    C.build_lib("asan")
    impl = C.build_driver("C05", flavour="asan")
    pr = C.coq_properties(PROP, dirs=["C05", "C03", "lib"], extra_targets=["C05/Extract.vo"])
    run.add_proof(pr, CHECKER)
    run.coverage["trusted_base"] = TRUSTED
    model = C.build_model(PROP)

    rng = random.Random(seed * 7919 + 5)
    corpus = C.load_corpus(PROP)
    n = 1200 if tier == "quick" else 12000
    n = int(os.environ.get("VERIF_N", n))            # smaller batches for seeded-bug trials on a loaded machine
    cases = list(corpus) + list(P.SEED_CASES) + P.gen_cases(rng, n, tier)
    if replay_case is not None:
        cases = [replay_case]
    env = C.lib_env("asan")
    D = C.Differential(run, PROP, [impl], model, env, view=P.view_C05, signatures=SIGNATURES, keep_first=0,
                       model_desc="coq/C05/Model.v vs src/core/device.cpp, serial/{device,buffer}.cpp, core/buffer.cpp, core/memoryPool.cpp")
    I, R, S = D.eval(cases)
    D.judge(cases, I, R, S, proof_failures=pr["failures"], max_report=(3 if "VERIF_N" in os.environ else 12))

    cov = run.coverage
    cov["distinct_nontrivial"] = len(set(c for c in cases if P.nontrivial(c)))
    cov["rule"] = ("seeded device histories: malloc with the four source/use_host_pointer/own_host_pointer combinations (sizes incl. "
                   "0 and negative), clone, wrapMemory, release, up to three pools with reserve/slice/release/resize/shrinkToFit/"
                   "setAlignment, pool release with live reservations; half end by releasing everything; non-trivial = at least two "
                   "allocations/pools and one release; distinct = distinct case text")
    k = len(cases)
    cov["samples"] = [dict(case=cases[i], impl=I[i], model=R[i], spec=S[i]) for i in sorted(set((0, k // 2, k - 1)))]
    cov["op_mix"] = {name: sum(1 for c in cases for t in c.split() if t[0] == ch)
                     for name, ch in (("malloc", "m"), ("clone", "c"), ("wrapMemory", "W"), ("release", "x"),
                                      ("createMemoryPool", "P"), ("pool release", "X"), ("pool op", "p"))}
    cov["host_pointer_mallocs"] = sum(1 for c in cases for t in c.split() if t[0] == "m" and t.endswith((":2", ":3")))
    run.assumptions = ["one Serial device per history; one handle per object; objects are released by dropping handles "
                       "(device.free() with a live pool is C01's finding)",
                       "detach() excluded (as the property says)"]


def replay(run, path):
    case = C.replay_case_from_file(path)
    if case is None:
        print("no case in replay file")
        return 2
    globals()["run"](run, "quick", run.seed, replay_case=case)
    for s in run.coverage.get("samples", [])[:1]:
        print("replayed: %s\nimplementation: %s\nmodel:          %s\nspecification:  %s" % (s["case"], s["impl"], s["model"], s["spec"]))
    return run.finish()
