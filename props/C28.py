"""C28 — the trie returns the longest stored prefix, frozen or not (DESIGN.md 5/C28)."""
import os, random, re
from vlib import common as C

PROP = "C28"
CHECKER = "make -C /verif/coq -k C28/Properties_C28.vo C28/Extract.vo  (coqc 8.16.1, full .vo)"
TRUSTED = [
    "Coq 8.16.1 kernel incl. vm_compute; no native_compute",
    "hand transcription of src/occa/internal/utils/trie.{hpp,tpp,cpp} into coq/C28/Model.v, tied by the differential run of this check",
    "extraction (ExtrOcamlBasic only) + extract/C28/driver.ml + extract/zutil.ml",
    "drivers/C28.cpp (reads public fields root/values/chars/offsets/leafCount/valueIndices)",
    "g++ 12 / ASan+UBSan as the observer of out-of-bounds reads in the implementation",
]

META = dict(
    level="Coq theorems: for every history of add/remove/freeze/defrost/clear over non-empty keys and every query, the "
          "modelled trie (node tree, value vector, frozen arrays + binary search) answers getLongest/get/has/size exactly as a "
          "finite map with longest-stored-prefix lookup does, frozen or not (refinement by invariant, unbounded). The model is "
          "tied to trie.{hpp,tpp,cpp} by running the extracted model and the real class on the same histories and comparing "
          "answers and the internal representation (tree, values, frozen arrays).",
    note="Trusted: Coq kernel; the hand model (tie is differential, seeded + enumerated small histories); extraction "
         "(ExtrOcamlBasic); drivers; empty keys are outside the theorem (known finding).",
    technique="Coq refinement proof (invariant over histories) + extracted-model/implementation differential correspondence",
    design_ref="DESIGN.md section 5, C28")

ALPH = ["61", "62", "63"]
ODD = ["e9", "80", "7f", "01", "2f"]   # bytes that are negative as `char`, and extremes


def rkey(rng, lo=1, hi=4, odd=0.08):
    n = rng.randint(lo, hi)
    return "".join(rng.choice(ODD) if rng.random() < odd else rng.choice(ALPH) for _ in range(n))


def gen_case(rng, tier):
    toks = ["A%d" % rng.choice([0, 0, 1])]
    keys = []
    nops = rng.randint(1, 14 if tier == "quick" else 30)
    for _ in range(nops):
        x = rng.random()
        if x < 0.45:
            if keys and rng.random() < 0.5:
                base = rng.choice(keys)
                # aim at the case splits: extensions and prefixes of stored keys, siblings
                y = rng.random()
                if y < 0.35:
                    k = base + rkey(rng, 1, 2)
                elif y < 0.6 and len(base) > 2:
                    k = base[:-2]
                elif y < 0.8:
                    k = base[:-2] + rng.choice(ALPH)
                else:
                    k = base
            else:
                k = rkey(rng)
            if not k:
                k = rkey(rng)
            keys.append(k)
            toks.append("a:%s=%d" % (k, rng.randint(0, 99)))
        elif x < 0.65:
            k = rng.choice(keys) if keys and rng.random() < 0.8 else rkey(rng)
            toks.append("r:" + k)
        elif x < 0.72:
            toks.append("f")
        elif x < 0.79:
            toks.append("d")
        elif x < 0.82:
            toks.append("c")
        else:
            toks.append(gen_query(rng, keys))
    for _ in range(rng.randint(2, 6)):
        toks.append(gen_query(rng, keys))
    toks += ["S", "D"]
    if rng.random() < 0.03:
        # the empty key / empty query (known finding: the class has no consistent treatment of "")
        toks.insert(rng.randint(1, len(toks) - 1), rng.choice(["a:=7", "H:", "L:", "r:"]))
    if rng.random() < 0.5:
        # the same queries in the other representation
        flip = "f" if toks[0] == "A0" else "d"
        qs = [t for t in toks if t[0] in "LGH"]
        toks += [flip] + qs[-6:] + ["S"]
    return " ".join(toks)


def gen_query(rng, keys):
    kind = rng.choice("LLLGH")
    if keys and rng.random() < 0.8:
        base = rng.choice(keys)
        y = rng.random()
        if y < 0.3:
            q = base
        elif y < 0.6:
            q = base + rkey(rng, 1, 2)
        elif y < 0.8 and len(base) > 2:
            q = base[:-2]
        else:
            q = base[:-2] + rng.choice(ALPH + ODD) + rkey(rng, 0, 1) if len(base) >= 2 else rkey(rng)
    else:
        q = rkey(rng, 1, 5)
    if not q:
        q = rng.choice(ALPH)
    if rng.random() < 0.2 and kind in "LG":
        # the (pointer, length) overloads with a buffer that continues past the length: the bytes after the
        # bound (often continuing a stored key) must not be looked at
        tail = (rng.choice(keys)[len(q):] if keys and rng.random() < 0.6 else "") or rkey(rng, 1, 2)
        n = len(q) // 2
        cut = rng.choice([n, n, max(1, n - 1)])
        return "%s:%s:%d" % (kind.lower(), q + tail, cut)
    return "%s:%s" % (kind, q)


def signed_sibling_cases(rng, n):
    """Siblings that are negative as `char` (>= 0x80) next to ASCII siblings under one node: std::map<char,...>,
    freeze() and the frozen binary search must all use the same (signed) order."""
    HI = ["80", "9f", "c3", "e9", "ff"]
    LO = ["01", "2f", "41", "61", "7a", "7f"]
    cases = []
    for _ in range(n):
        pre = rkey(rng, 0, 2, odd=0.0)
        sibs = rng.sample(HI, rng.randint(1, 3)) + rng.sample(LO, rng.randint(1, 3))
        rng.shuffle(sibs)
        keys = [pre + b + (rkey(rng, 0, 1) if rng.random() < 0.4 else "") for b in sibs]
        toks = ["A%d" % rng.choice([0, 1])] + ["a:%s=%d" % (k, i + 1) for i, k in enumerate(keys)]
        if rng.random() < 0.3:
            toks.append("r:" + rng.choice(keys))
        qs = keys + [pre + b for b in HI + LO if rng.random() < 0.5]
        body = ["L:" + q for q in qs] + ["G:" + q for q in keys] + ["H:" + q for q in keys]
        toks += body + ["S", "D", "f" if toks[0] == "A0" else "d"] + body + ["S"]
        cases.append(" ".join(toks))
    return cases


def exhaustive_small():
    """All histories of <= 3 adds/removes over keys from {a, ab, abc, b} with all queries <= 3 over {a,b,c}
    prefixes: a deterministic batch that always contains the off-by-one witness shape."""
    keys = ["61", "6162", "616263", "62", "6163"]
    qs = ["61", "6162", "616263", "616264", "6164", "62", "6263", "61626364"]
    cases = []
    import itertools
    for auto in (0, 1):
        for n in (1, 2, 3):
            for ks in itertools.permutations(keys, n):
                toks = ["A%d" % auto] + ["a:%s=%d" % (k, i + 1) for i, k in enumerate(ks)]
                toks += ["L:" + q for q in qs] + ["G:" + q for q in qs[:5]] + ["H:" + q for q in qs[:5]] + ["S", "D"]
                toks += ["l:616263616263:%d" % n2 for n2 in (1, 2, 3)] + ["g:616263616263:2"]
                cases.append(" ".join(toks))
                toks2 = toks[:1 + n] + ["r:" + ks[0]] + ["L:" + q for q in qs] + ["H:" + ks[0], "S", "D"]
                cases.append(" ".join(toks2))
    return cases


def strip_dump(obs):
    return re.sub(r"D\([^)]*\)", "D_", obs)


def nontrivial(case):
    t = case.split()
    adds = [x for x in t if x.startswith("a:")]
    return len(adds) >= 2 and any(x[0] == "L" for x in t)


# known-finding signatures: predicates over a (shrunk) failing case
def sig_empty_key(case):
    return any(re.match(r"^(a|r|L|G|H):(=|$)", tok) or tok in ("L:", "G:", "H:") for tok in case.split())


SIGNATURES = {"empty_key": sig_empty_key}


def setup():
    C.build_driver("C28", flavour="asan")
    C.build_model(PROP)


def run(run, tier, seed, replay_case=None):
    C.build_lib("asan")
    impl = C.build_driver("C28", flavour="asan")
    pr = C.coq_properties(PROP, extra_targets=["C28/Extract.vo"])
    run.add_proof(pr, CHECKER)
    run.coverage["trusted_base"] = TRUSTED
    model = C.build_model(PROP)

    rng = random.Random(seed * 7919 + 28)
    corpus = C.load_corpus(PROP)
    n = 1500 if tier == "quick" else 40000
    cases = list(corpus) + exhaustive_small() + signed_sibling_cases(rng, 60 if tier == "quick" else 2000) + \
        [gen_case(rng, tier) for _ in range(n)]
    if replay_case is not None:
        cases = [replay_case]
    env = C.lib_env("asan")
    D = C.Differential(run, PROP, [impl], model, env, view=strip_dump, signatures=SIGNATURES, keep_first=1,
                       model_desc="coq/C28/Model.v vs src/occa/internal/utils/trie.{hpp,tpp,cpp}")
    I, R, S = D.eval(cases)
    prop_fails, corr_breaks = D.judge(cases, I, R, S, proof_failures=pr["failures"])

    distinct = set(c for c in cases if nontrivial(c))
    cov = run.coverage
    cov["distinct_nontrivial"] = len(distinct)
    cov["rule"] = ("seeded histories over keys from {a,b,c}+odd bytes (len 1-4), ops add/remove/freeze/defrost/clear with queries "
                   "aimed at prefixes/extensions/siblings of stored keys, plus an enumerated batch of all <=3-key histories over "
                   "{a,ab,abc,b,ac}; non-trivial = at least two adds and one getLongest; distinct = distinct case text")
    cov["samples"] = [dict(case=cases[i], impl=I[i], model=R[i], spec=S[i]) for i in (0, len(cases) // 2, len(cases) - 1)]
    cov["op_mix"] = {k: sum(c.count(" " + k) for c in cases) for k in ("a:", "r:", "f", "d", "c", "L:", "G:", "H:")}
    run.assumptions = ["keys are non-empty byte strings without NUL (std::string/c_str API)",
                       "the model's observation includes the frozen arrays and the node tree (D), so representation changes are correspondence breaks"]


def replay(run, path):
    case = C.replay_case_from_file(path)
    if case is None:
        print("no case in replay file")
        return 2
    globals()["run"](run, "quick", run.seed, replay_case=case)
    for s in run.coverage.get("samples", [])[:1]:
        print("replayed: %s\nimplementation: %s\nmodel:          %s\nspecification:  %s" % (s["case"], s["impl"], s["model"], s["spec"]))
    return run.finish()
