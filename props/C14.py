"""C14 — constant folding computes what C++ computes (DESIGN.md 5/C14).

Three-way tie per generated expression text:
  I  the real library  (drivers/C14.cpp: tokenizer_t::tokenize + expressionParser::parse + evaluate)
  R  the Coq model of the folder (coq/C14/Model.v, configuration `fixed`), extracted
  S  the Coq specification of C++17/LP64 constant evaluation (coq/C14/Spec.v), extracted
plus S against the host compiler (g++ -std=c++17 -pedantic-errors, `constexpr auto v = (E);`):
which expressions are constant expressions at all, and the type and value of those that are.
"""
import os, random, re, subprocess, tempfile
from concurrent.futures import ThreadPoolExecutor
from vlib import common as C

PROP = "C14"
CHECKER = "make -C /verif/coq -k C14/Properties_C14.vo C14/Extract.vo  (coqc 8.16.1, full .vo)"
TRUSTED = [
    "Coq 8.16.1 kernel incl. vm_compute; no native_compute",
    "hand transcription of src/types/primitive.cpp, include/occa/types/primitive.hpp, parseInt/parseBinary and the "
    "evaluate() methods into coq/C14/Model.v, tied by the differential run of this check",
    "coq/C14/Spec.v as a reading of C++17 [lex.icon] [conv.prom] [expr] [expr.shift] [expr.cond] on LP64, tied to g++ by this check",
    "extraction (ExtrOcamlBasic only) + extract/C14/driver.ml (lexer/parser of the expression text, OCaml doubles as the "
    "float interface, binary32 kept rounded) + extract/zutil.ml",
    "drivers/C14.cpp; g++ 12 with ASan+UBSan as the observer of undefined behaviour inside the library",
    "float theorems hold for every float implementation satisfying the two stated hypotheses; not discharged for IEEE in Coq",
    "the expression parser is outside the model (trees come from the OCaml parser); its two defects found by the tie are "
    "fixes/C14-7 and the known finding parse_nested_ternary",
]

META = dict(
    level="Coq theorem fold_agrees_partial: for every expression tree over bool/integer/floating literals (as written: base, "
          "digits, suffix), unary ! + - ~, the 18 binary operators and ?:, whenever the C++17/LP64 specification gives a "
          "defined result, the model of OCCA's folder (literal typing, to<T>() conversions, retType selection, promotion "
          "inside each switch case, evaluation order) returns the same value with the same signedness and width "
          "(induction on the tree, per-operator lemmas; unbounded).  Excluded by exact syntactic guards (known findings): "
          "~ on a bool operand, & | ^ on two bools, ?: whose branches have different types.  Floats via an abstract "
          "interface.  Model tied to the library and specification tied to g++ by differential runs on generated text.",
    note="Trusted: Coq kernel; hand model (differential tie on seeded expressions depth<=4 incl. boundary literals); Spec as a "
         "reading of the standard (tied to g++ constexpr evaluation); extraction; OCaml lexer/parser and float instance. "
         "The theorem speaks about the repaired code (fixes/C14-1..6); *_refuted theorems keep the pinned behaviour.",
    technique="Coq proof by induction on expressions (model = independent C++17 spec) + three-way differential "
              "correspondence (library / extracted model / extracted spec / g++)",
    design_ref="DESIGN.md section 5, C14")

# ---------------------------------------------------------------------------------- expression trees
# tree: ("lit", text) | ("un", op, t) | ("bin", op, a, b) | ("tern", c, a, b)
PREC = {"*": 10, "/": 10, "%": 10, "+": 9, "-": 9, "<<": 8, ">>": 8, "<": 7, "<=": 7, ">": 7, ">=": 7,
        "==": 6, "!=": 6, "&": 5, "^": 4, "|": 3, "&&": 2, "||": 1}
BINOPS = list(PREC)


def render(t, full=True):
    k = t[0]
    if k == "lit":
        return t[1]
    if k == "un":
        a = t[2]
        s = render(a, full)
        return "%s %s" % (t[1], s if a[0] == "lit" else "( %s )" % s)
    if k == "bin":
        if full:
            rs = render(t[3], True)
            if t[3][0] == "un":
                rs = "( %s )" % rs
            return "( %s %s %s )" % (render(t[2], True), t[1], rs)
        return render_min(t, 0)
    if k == "tern":
        if full:
            return "( %s ? %s : %s )" % (render(t[1], True), render(t[2], True), render(t[3], True))
        return render_min(t, 0)
    raise ValueError(t)


AMBIG = ("+", "-", "*", "&")     # operators that are both unary and binary for OCCA's expression parser


def render_min(t, minp, safe=True):
    """minimal parentheses by C precedence (ternary = 0, unary/primary = 11).
    safe: keep parentheses around (a) a unary-operator expression that is the right operand of a binary + - * &
    and (b) a conditional expression nested directly inside another one: OCCA's expression parser mis-parses
    those two shapes (known findings parse_unary_after_binary, parse_nested_ternary), which would otherwise
    mask the folder's own behaviour."""
    k = t[0]
    if k == "lit":
        return t[1]
    if k == "un":
        a = t[2]
        s = render_min(a, 11, safe)
        return "%s %s" % (t[1], s)
    if k == "bin":
        p = PREC[t[1]]
        r = t[3]
        rs = render_min(r, p + 1, safe)
        if safe and r[0] == "un" and t[1] in AMBIG:
            rs = "( %s )" % rs
        s = "%s %s %s" % (render_min(t[2], p, safe), t[1], rs)
        return "( %s )" % s if p < minp else s
    if k == "tern":
        def sub(x, mp):
            xs = render_min(x, mp, safe)
            return "( %s )" % xs if safe and x[0] == "tern" and not xs.startswith("(") else xs
        s = "%s ? %s : %s" % (sub(t[1], 1), sub(t[2], 0), sub(t[3], 0))
        return "( %s )" % s if minp > 0 else s
    raise ValueError(t)


TOKEN = re.compile(r"\s*(?:(\.?[0-9](?:[0-9a-zA-Z_.]|(?<=[eE])[+-])*|[A-Za-z_][A-Za-z0-9_]*)|(<<|>>|<=|>=|==|!=|&&|\|\||[-+*/%<>&|^~!?:()]))")


def parse(text):
    """text -> tree, or None (same grammar as extract/C14/driver.ml)"""
    toks = []
    pos = 0
    text = text.strip()
    while pos < len(text):
        m = TOKEN.match(text, pos)
        if not m:
            return None
        toks.append(("lit", m.group(1)) if m.group(1) else ("op", m.group(2)))
        pos = m.end()
    idx = [0]

    def peek():
        return toks[idx[0]] if idx[0] < len(toks) else None

    def adv():
        idx[0] += 1

    class Bad(Exception):
        pass

    def primary():
        t = peek()
        if t is None:
            raise Bad()
        if t[0] == "lit":
            adv()
            return ("lit", t[1])
        if t == ("op", "("):
            adv()
            e = tern()
            if peek() != ("op", ")"):
                raise Bad()
            adv()
            return e
        if t[0] == "op" and t[1] in "!+-~":
            adv()
            return ("un", t[1], primary())
        raise Bad()

    def binary(minp):
        lhs = primary()
        while True:
            t = peek()
            if t and t[0] == "op" and t[1] in PREC and PREC[t[1]] >= minp:
                adv()
                rhs = binary(PREC[t[1]] + 1)
                lhs = ("bin", t[1], lhs, rhs)
            else:
                return lhs

    def tern():
        c = binary(1)
        if peek() == ("op", "?"):
            adv()
            a = tern()
            if peek() != ("op", ":"):
                raise Bad()
            adv()
            b = tern()
            return ("tern", c, a, b)
        return c
    try:
        e = tern()
        if idx[0] != len(toks):
            return None
        return e
    except Bad:
        return None


def size(t):
    return 1 + sum(size(x) for x in t[1:] if isinstance(x, tuple))


# ---------------------------------------------------------------------------------- generator
SUF = ["", "", "", "", "u", "U", "l", "L", "ul", "UL", "lu", "ll", "LL", "ull", "ULL", "llu", "uLL"]
DEC = ["0", "1", "2", "3", "5", "7", "8", "10", "31", "32", "33", "63", "64", "100", "255", "256", "65535", "65536",
       "2147483647", "2147483648", "2147483649", "4294967295", "4294967296", "4294967297",
       "9223372036854775807"]
DEC_U_ONLY = ["9223372036854775808", "18446744073709551615"]
HEX = ["0x0", "0x1", "0x7f", "0x80", "0xff", "0xFF", "0x7fff", "0x8000", "0xffff", "0x7fffffff", "0x80000000",
       "0xffffffff", "0XFFFFFFFF", "0x100000000", "0xFFFFFFFFF", "0x7fffffffffffffff", "0x8000000000000000",
       "0xffffffffffffffff", "0x00000001", "0xAbCd"]
OCT = ["0", "00", "07", "010", "0777", "017777777777", "020000000000", "037777777777", "040000000000",
       "0777777777777777777777", "01000000000000000000000", "01777777777777777777777"]
BIN = ["0b0", "0b1", "0B101", "0b11111111", "0b" + "1" * 31, "0b1" + "0" * 31, "0b" + "1" * 32, "0b1" + "0" * 32,
       "0b" + "1" * 63, "0b" + "1" * 64]
FLT = ["0.0", "0.5", "1.0", "1.5", "2.0", "2.5", "3.0", "4.0", "0.25", "8.0", "1e3", "1.5e2", "2.5E1", ".5", "1.",
       "100.0", "16777216.0", "4294967296.0", "9007199254740992.0", "1e0", "2E+1", "5e-1"]
FLT_BIG = ["170141183460469231731687303715884105728.0f"]   # 2^127: the next doubling overflows float
# Where integer -> float / double conversion rounds.  The floating literals below are all exactly representable in
# their type (so literal parsing cannot differ between atof and the compiler); the *integers* next to them are not
# representable in the floating type the usual arithmetic conversions turn them into, including round-to-even ties
# (2^24+1 -> 2^24, 2^24+3 -> 2^24+4, 2^53+1 -> 2^53, 2^53+3 -> 2^53+4).
CONV_INT = ["16777215", "16777216", "16777217", "16777218", "16777219", "33554433", "2147483647", "2147483649",
            "4294967295u", "4294967295", "9007199254740991", "9007199254740992", "9007199254740993", "9007199254740995",
            "9223372036854775807", "9223372036854775807L", "18446744073709551615u", "16777217L", "16777217u",
            "9007199254740993UL", "- 16777217", "- 9007199254740993"]
CONV_F32 = ["16777216.0f", "16777218.0f", "16777220.0f", "33554432.0f", "2147483648.0f", "4294967296.0f",
            "9007199254740992.0f", "9223372036854775808.0f", "18446744073709551616.0f", "- 16777216.0f"]
CONV_F64 = ["16777217.0", "9007199254740992.0", "9007199254740994.0", "9007199254740996.0", "9223372036854775808.0",
            "18446744073709551616.0", "- 9007199254740992.0"]
CONV_OPS = ["==", "!=", "<", "<=", ">", ">=", "+", "-", "*", "/"]


def conversion_cases(tier="thorough"):
    """mixed integer / float32 / double comparisons and arithmetic around 2^24, 2^31, 2^32, 2^53, 2^63, 2^64: the
    conversion of the integer operand into the floating type of the other operand happens before the operation"""
    quick = (tier == "quick")
    ints = CONV_INT[::2] + ["16777217", "9007199254740993"] if quick else CONV_INT
    flts = (CONV_F32[::2] + CONV_F64[::2] + ["16777216.0f", "9007199254740992.0"]) if quick else (CONV_F32 + CONV_F64)
    ops = ["==", "!=", "<", "+"] if quick else CONV_OPS
    cases = []
    for i in ints:
        for f in flts:
            for op in ops:
                cases.append("( ( %s ) %s ( %s ) )" % (i, op, f))
                if not quick or op == "==":
                    cases.append("( ( %s ) %s ( %s ) )" % (f, op, i))
    # float32 against double neighbours, and the conversion inside ?: conditions, ! and && ||
    for a in CONV_F32:
        for b in CONV_F64:
            for op in (("==", "<") if quick else ("==", "!=", "<", "+", "-")):
                cases.append("( ( %s ) %s ( %s ) )" % (a, op, b))
    cases += ["( ( 16777217 == 16777216.0f ) ? 10 : 20 )", "( ( 2147483647 == 2147483648.0f ) ? 10 : 20 )",
              "( ( 4294967295u != 4294967296.0f ) || ( 9007199254740993 != 9007199254740992.0 ) )",
              "( ! ( 16777217 != 16777216.0f ) )", "( ( 16777217L == 16777216.0f ) && ( 16777217 != 16777217.0 ) )",
              "( ( 9007199254740993 == 9007199254740992.0 ) + ( 9007199254740993 == 9007199254740992.0f ) )"]
    seen = set()
    return [c for c in cases if not (c in seen or seen.add(c))]


def gen_lit(rng, kind=None):
    k = kind or rng.choice(["dec"] * 6 + ["hex"] * 3 + ["oct", "bin", "bool", "flt", "flt", "small", "small", "small"])
    if k == "small":
        return ("lit", str(rng.randint(0, 9)) + rng.choice(["", "", "", "u", "L", "UL"]))
    if k == "dec":
        if rng.random() < 0.08:
            return ("lit", rng.choice(DEC_U_ONLY) + rng.choice(["u", "UL", "ull", "U"]))
        if rng.random() < 0.2:
            return ("lit", str(rng.randint(0, 1 << rng.choice([8, 16, 31, 32, 33, 62]))) + rng.choice(SUF))
        if rng.random() < 0.08:
            return ("lit", rng.choice(["16777215", "16777217", "16777219", "33554433", "9007199254740993",
                                       "9007199254740995"]) + rng.choice(["", "", "u", "L", "UL"]))
        return ("lit", rng.choice(DEC) + rng.choice(SUF))
    if k == "hex":
        if rng.random() < 0.2:
            return ("lit", "0x%x" % rng.randint(0, 1 << rng.choice([8, 16, 31, 32, 33, 63, 64]) ) + rng.choice(SUF))
        return ("lit", rng.choice(HEX) + rng.choice(SUF))
    if k == "oct":
        return ("lit", rng.choice(OCT) + rng.choice(SUF))
    if k == "bin":
        return ("lit", rng.choice(BIN) + rng.choice(SUF))
    if k == "bool":
        return ("lit", rng.choice(["true", "false"]))
    if k == "flt":
        if rng.random() < 0.03:
            return ("lit", rng.choice(FLT_BIG))
        if rng.random() < 0.12:
            return ("lit", rng.choice([f for f in CONV_F32 + CONV_F64 if not f.startswith("-")]))
        return ("lit", rng.choice(FLT) + rng.choice(["", "", "f", "F"]))
    raise ValueError(k)


ARITH = ["+", "-", "*"]
CMP = ["<", "<=", ">", ">=", "==", "!="]


def gen(rng, depth, kf=False):
    """kf: allow the constructs of the known findings (~bool, bool&bool, mixed-type ?:)"""
    if depth == 0 or rng.random() < 0.12:
        return gen_lit(rng)
    x = rng.random()
    if x < 0.14:
        op = rng.choice("!+-~")
        a = gen(rng, depth - 1, kf)
        return ("un", op, a)
    if x < 0.26:
        c = gen(rng, depth - 1, kf) if rng.random() < 0.6 else gen_lit(rng, rng.choice(["small", "bool", "flt"]))
        a = gen(rng, depth - 1, kf)
        b = gen(rng, depth - 1, kf)
        if rng.random() < 0.15:
            # an operand C++ does not evaluate
            bad = ("bin", rng.choice("/%"), gen_lit(rng, "small"), ("lit", "0"))
            if rng.random() < 0.5:
                return ("tern", ("lit", rng.choice(["1", "true", "2.5"])), a, bad)
            return ("tern", ("lit", rng.choice(["0", "false", "0.0"])), bad, b)
        return ("tern", c, a, b)
    y = rng.random()
    if y < 0.30:
        op = rng.choice(ARITH)
    elif y < 0.42:
        op = rng.choice("/%")
    elif y < 0.60:
        op = rng.choice(CMP)
    elif y < 0.72:
        op = rng.choice(["&&", "||"])
    elif y < 0.84:
        op = rng.choice("&|^")
    else:
        op = rng.choice(["<<", ">>"])
    a = gen(rng, depth - 1, kf)
    b = gen(rng, depth - 1, kf)
    if op in "/%" and rng.random() < 0.75:
        b = ("lit", rng.choice(["1", "2", "3", "7", "2u", "3L", "5UL", "0x10", "2.0", "0.5f"]))
        if rng.random() < 0.1:
            b = ("un", "-", ("lit", "1"))      # INT_MIN / -1, INT_MIN % -1
    if op in ("<<", ">>") and rng.random() < 0.8:
        b = ("lit", str(rng.choice([0, 1, 2, 7, 15, 30, 31, 32, 33, 62, 63, 64])) + rng.choice(["", "", "u", "L", "ULL"]))
    if op in ("&&", "||") and rng.random() < 0.3:
        # a right operand that C++ does not evaluate (and that would be undefined if it were)
        bad = ("bin", rng.choice("/%"), gen_lit(rng, "small"), ("lit", rng.choice(["0", "0u", "0L"])))
        a = ("lit", rng.choice(["0", "false", "0.0", "0u"])) if op == "&&" else ("lit", rng.choice(["1", "true", "0.5", "7L"]))
        b = bad if rng.random() < 0.7 else ("bin", "+", bad, gen(rng, max(depth - 2, 0), kf))
    return ("bin", op, a, b)


def boundary_cases(tier="thorough"):
    """deterministic batch: every boundary literal alone and under each unary operator, and all pairs of a small set
    of typed operands under every binary operator (the per-operator case split of the proofs).  The quick tier takes
    every other operand of the pair table (12 x 12 x 18) and every third literal."""
    cases = []
    quick = (tier == "quick")
    lits = [d + s for d in DEC for s in ("", "u", "L", "UL", "ll")] + [d + s for d in DEC_U_ONLY for s in ("u", "ULL")]
    lits += [h + s for h in HEX for s in ("", "u", "l", "ull")] + [o + s for o in OCT for s in ("", "U", "LL")]
    lits += [b + s for b in BIN for s in ("", "u", "L")] + FLT + [f + "f" for f in FLT] + ["true", "false"]
    if quick:
        lits = lits[::3]
    for l in lits:
        cases.append(l)
    for l in lits[::3]:
        for op in "!+-~":
            cases.append("%s %s" % (op, l))
    opnds = ["true", "false", "0", "1", "7", "- 1", "- 7", "2147483647", "- 2147483647 - 1", "3u", "4294967295u", "0x80000000",
             "5L", "- 5L", "9223372036854775807L", "6UL", "18446744073709551615UL", "3ll", "2ull",
             "1.5", "2.0f", "- 0.0", "0.0", "1.0"]
    if quick:
        opnds = opnds[::2]
    for op in BINOPS:
        for a in opnds:
            for b in opnds:
                cases.append("( %s ) %s ( %s )" % (a, op, b))
    for c in ["1", "0", "true", "0.0", "2.5f"]:
        for a in ["1", "2u", "3L", "4UL", "true", "1.5f", "2.5", "- 1"]:
            for b in ["1", "2u", "3L", "4UL", "false", "1.5f", "2.5"]:
                cases.append("( %s ? %s : %s )" % (c, a, b))
    return cases


def gen_cases(rng, n, tier):
    out = []
    for i in range(n):
        depth = rng.choice([1, 2, 2, 3, 3, 4])
        kf = rng.random() < 0.06
        t = gen(rng, depth, kf)
        x = rng.random()
        if x < 0.68:
            out.append(render(t, full=True))
        elif x < 0.98:
            out.append(render_min(t, 0, safe=True))
        else:
            out.append(render_min(t, 0, safe=False))
    return out


# ---------------------------------------------------------------------------------- g++ leg
GXX_PRELUDE = r"""
#include <cstdio>
#include <cstring>
#include <type_traits>
static const char* tg(bool) { return "b"; }
static const char* tg(int) { return "i32"; }
static const char* tg(unsigned) { return "u32"; }
static const char* tg(long) { return "i64"; }
static const char* tg(unsigned long) { return "u64"; }
static const char* tg(long long) { return "i64"; }
static const char* tg(unsigned long long) { return "u64"; }
static const char* tg(float) { return "f32"; }
static const char* tg(double) { return "f64"; }
static void pv(bool v) { printf("%d", v ? 1 : 0); }
static void pv(float v) { unsigned b; memcpy(&b, &v, 4); printf("%08x", b); }
static void pv(double v) { unsigned long long b; memcpy(&b, &v, 8); printf("%016llx", b); }
template <class T> static void pv(T v) {
  if (std::is_signed<T>::value) printf("%lld", (long long) v); else printf("%llu", (unsigned long long) v);
}
template <class T> static void out(int i, T v) { printf("%d %s ", i, tg(v)); pv(v); printf("\n"); }
"""


def gxx_chunk(args):
    """returns (rejected: set of case indices g++ does not accept as constant expressions, values: {idx: 'kind value'})"""
    idxs, exprs, workdir = args
    src = os.path.join(workdir, "c%d.cpp" % idxs[0])
    lines = GXX_PRELUDE.splitlines()
    base = len(lines) + 1
    for j, e in enumerate(exprs):
        lines.append("constexpr auto v%d = (%s);" % (j, e))
    open(src, "w").write("\n".join(lines) + "\n")
    rc, out, err = C.sh(["g++", "-std=c++17", "-w", "-pedantic-errors", "-fsyntax-only", "-fmax-errors=0", src], timeout=300)
    rejected = set()
    for m in re.finditer(r"^%s:(\d+):\d+: error" % re.escape(src), err, re.M):
        ln = int(m.group(1))
        if base <= ln < base + len(exprs):
            rejected.add(ln - base)
    if rc != 0 and not rejected:
        raise C.CheckError("g++ failed without a usable diagnostic:\n" + err[-2000:])
    ok = [j for j in range(len(exprs)) if j not in rejected]
    values = {}
    if ok:
        lines = GXX_PRELUDE.splitlines()
        for j in ok:
            lines.append("constexpr auto v%d = (%s);" % (j, exprs[j]))
        lines.append("int main() {")
        for j in ok:
            lines.append("  out(%d, v%d);" % (j, j))
        lines.append("  return 0; }")
        src2 = os.path.join(workdir, "r%d.cpp" % idxs[0])
        exe = os.path.join(workdir, "r%d" % idxs[0])
        open(src2, "w").write("\n".join(lines) + "\n")
        rc, out, err = C.sh(["g++", "-std=c++17", "-w", "-pedantic-errors", "-O0", src2, "-o", exe], timeout=600)
        if rc != 0:
            raise C.CheckError("g++ rejected a unit it accepted with -fsyntax-only:\n" + err[-2000:])
        rc, out, err = C.sh([exe], timeout=60)
        for l in out.splitlines():
            p = l.split(" ", 1)
            values[int(p[0])] = p[1]
    return idxs, rejected, values


def gxx_eval(exprs, per_unit=200):
    """for every expression: None if g++ rejects `constexpr auto v = (E);`, else 'kind value'"""
    res = [None] * len(exprs)
    with tempfile.TemporaryDirectory(prefix="c14gxx") as wd:
        jobs = []
        for s in range(0, len(exprs), per_unit):
            idxs = list(range(s, min(s + per_unit, len(exprs))))
            jobs.append((idxs, [exprs[i] for i in idxs], wd))
        with ThreadPoolExecutor(max_workers=min(8, C.NPROC)) as ex:
            for idxs, rejected, values in ex.map(gxx_chunk, jobs):
                for j, i in enumerate(idxs):
                    res[i] = None if j in rejected else values.get(j)
    return res


RUNTIME_PRELUDE = r"""
#include <cstdio>
#include <setjmp.h>
static sigjmp_buf J;
extern "C" {
  void __ubsan_handle_add_overflow_abort(void *, void *, void *) { siglongjmp(J, 1); }
  void __ubsan_handle_sub_overflow_abort(void *, void *, void *) { siglongjmp(J, 1); }
  void __ubsan_handle_mul_overflow_abort(void *, void *, void *) { siglongjmp(J, 1); }
  void __ubsan_handle_negate_overflow_abort(void *, void *) { siglongjmp(J, 1); }
  void __ubsan_handle_divrem_overflow_abort(void *, void *, void *) { siglongjmp(J, 1); }
  void __ubsan_handle_shift_out_of_bounds_abort(void *, void *, void *) { siglongjmp(J, 1); }
}
template <class T> static T rd(volatile T &x) { return x; }
"""


def gxx_runtime_ub(exprs):
    """Second opinion for expressions that the specification calls undefined but g++ accepts as constants (g++ folds an
    overflowing subexpression with a warning when its value only feeds a comparison or a condition).  Every literal is
    replaced by a read of a volatile object of the literal's own type, the expression is evaluated at run time under
    -fsanitize=undefined,float-divide-by-zero and the arithmetic checks longjmp out: True = undefined behaviour was
    executed (only operands that C++ evaluates are executed)."""
    if not exprs:
        return []
    with tempfile.TemporaryDirectory(prefix="c14rt") as wd:
        lines = RUNTIME_PRELUDE.splitlines()
        for i, e in enumerate(exprs):
            out = []
            k = 0
            pos = 0
            text = e.strip()
            while pos < len(text):
                m = TOKEN.match(text, pos)
                if not m:
                    raise C.CheckError("cannot tokenize for the run-time check: " + e)
                if m.group(1):
                    lines.append("static volatile auto L%d_%d = %s;" % (i, k, m.group(1)))
                    out.append("rd(L%d_%d)" % (i, k))
                    k += 1
                else:
                    out.append(m.group(2))
                pos = m.end()
            lines.append("static void f%d() { auto v = (%s); (void) v; }" % (i, " ".join(out)))
        lines.append("int main() {")
        for i in range(len(exprs)):
            lines.append('  if (sigsetjmp(J, 0) == 0) { f%d(); printf("%d OK\\n"); } else { printf("%d UB\\n"); }' % (i, i, i))
        lines.append("  return 0; }")
        src = os.path.join(wd, "rt.cpp")
        exe = os.path.join(wd, "rt")
        open(src, "w").write("\n".join(lines) + "\n")
        rc, out, err = C.sh(["g++", "-std=c++17", "-w", "-O0", "-fsanitize=undefined", "-fsanitize=float-divide-by-zero",
                             "-fno-sanitize-recover=all", src, "-o", exe], timeout=600)
        if rc != 0:
            raise C.CheckError("run-time definedness check does not compile:\n" + err[-2000:])
        rc, out, err = C.sh([exe], timeout=120)
        res = [None] * len(exprs)
        for l in out.splitlines():
            p = l.split()
            res[int(p[0])] = (p[1] == "UB")
        return res


# ---------------------------------------------------------------------------------- tie
def canon_impl(line):
    """undefined behaviour inside the library as the sanitizers / the kernel report it -> R UB"""
    if line.startswith("R CRASH UBSan") or line.startswith("R CRASH UndefinedBehaviorSanitizer") \
            or line in ("R CRASH signal 8", "R CRASH exit 98"):
        return "R UB"
    return line


def guard_tags(model, cases):
    rc, out, err = C.sh([model, "--guards"], input="\n".join(cases) + "\n", timeout=600)
    if rc != 0:
        raise C.CheckError("model --guards failed: " + err[-500:])
    tags = [l[2:].strip() for l in out.splitlines() if l.startswith("R ")]
    return [set() if t == "-" else set(t.split(",")) for t in tags]


def impl_env():
    """sanitizer reports without symbolization (a report then costs milliseconds instead of seconds); the driver maps
    UBSan's exit code / SIGFPE to `R UB` itself"""
    env = C.lib_env("asan")
    env["UBSAN_OPTIONS"] = "print_stacktrace=0:halt_on_error=1:exitcode=98"
    env["ASAN_OPTIONS"] = env["ASAN_OPTIONS"] + ":symbolize=0"
    return env


class Tie(C.Differential):
    def eval(self, lines, parallel=True):
        I, R, S = super().eval(lines, parallel=parallel)
        return [canon_impl(x) for x in I], R, S

    def fails_spec(self, i_obs, s_obs):
        return s_obs not in ("", "S UNDEF") and i_obs[2:] != s_obs[2:]


def candidates(t):
    """one-step simplifications of a tree"""
    res = []
    if t[0] != "lit":
        for x in t[1:]:
            if isinstance(x, tuple):
                res.append(x)
    if t[0] == "lit":
        for s in ("1", "0", "true", "1.0", "2"):
            if s != t[1] and len(s) <= len(t[1]):
                res.append(("lit", s))
    else:
        for s in ("1", "true", "1.0"):
            res.append(("lit", s))
    # same simplifications inside children
    for i, x in enumerate(t):
        if i >= 1 and isinstance(x, tuple):
            for c in candidates(x):
                res.append(t[:i] + (c,) + t[i + 1:])
    return res


def render_bare(t):
    return render_min(t, 0, safe=False)


def shrink_many(D, model, items):
    """items: [(text, keep_clean)] -> shrunk texts.  Greedy tree shrinking of all failing cases in lock step (one run of
    the library driver per round for all of them): among the one-step simplifications that still fail the specification
    (and, if keep_clean, still satisfy the known-finding guards) take the smallest; repeat.  Candidates are rendered fully
    parenthesised unless the failure only shows without parentheses (a defect of the expression parser rather than of
    the folder)."""
    trees = [parse(t) for t, _ in items]
    rend = [None] * len(items)
    probe, where = [], []
    for k, t in enumerate(trees):
        if t is not None:
            for r in (render, render_bare):
                probe.append(r(t))
                where.append((k, r))
    if probe:
        I, R, S = D.eval(probe, parallel=len(probe) > 40)
        for (k, r), i, s in zip(where, I, S):
            if rend[k] is None and D.fails_spec(i, s):
                rend[k] = r
    active = [k for k in range(len(items)) if rend[k] is not None]
    for _ in range(40):
        if not active:
            break
        texts, owner = [], []
        for k in active:
            cs = sorted(set(candidates(trees[k])), key=lambda c: (size(c), len(rend[k](c))))[:300]
            for c in cs:
                if c != trees[k] and size(c) < size(trees[k]) + (1 if c[0] == "lit" and trees[k][0] == "lit" else 0):
                    texts.append(rend[k](c))
                    owner.append((k, c))
        if not texts:
            break
        I, R, S = D.eval(texts, parallel=len(texts) > 40)
        tags = guard_tags(model, texts)
        nxt = {}
        for (k, c), i, s, g in zip(owner, I, S, tags):
            if k not in nxt and D.fails_spec(i, s) and not (items[k][1] and g):
                nxt[k] = c
        for k in nxt:
            trees[k] = nxt[k]
        active = [k for k in active if k in nxt]
    return [rend[k](trees[k]) if rend[k] is not None else items[k][0] for k in range(len(items))]


# known-finding signatures: predicates over the shrunk failing case (structural) confirmed by the Coq guard
def _tags_of(case):
    model = os.path.join(C.EXTRACT_ROOT, PROP, "model_driver")
    return guard_tags(model, [case])[0]


def _is_lit(t, kinds=None):
    return t is not None and t[0] == "lit"


def sig_tilde_bool(case):
    t = parse(case)
    return bool(t and t[0] == "un" and t[1] == "~" and _is_lit(t[2]) and t[2][1] in ("true", "false")
                and "tilde_bool" in _tags_of(case))


def sig_bitop_bool(case):
    t = parse(case)
    return bool(t and t[0] == "bin" and t[1] in "&|^" and all(_is_lit(x) and x[1] in ("true", "false") for x in t[2:4])
                and "bitop_bool" in _tags_of(case))


def sig_ternary_type(case):
    t = parse(case)
    return bool(t and t[0] == "tern" and all(_is_lit(x) for x in t[1:4]) and "ternary_type" in _tags_of(case))


def sig_parse_nested_ternary(case):
    """a conditional directly inside another one, no parentheses, literal operands otherwise"""
    t = parse(case)
    if not (t and t[0] == "tern" and case.strip() == render_bare(t)):
        return False
    inner = [x for x in t[1:4] if x[0] == "tern"]
    return bool(inner) and all(_is_lit(x) or (x[0] == "tern" and all(_is_lit(y) for y in x[1:4])) for x in t[1:4])


SIGNATURES = {"tilde_bool": sig_tilde_bool, "bitop_bool": sig_bitop_bool, "ternary_type": sig_ternary_type,
              "parse_nested_ternary": sig_parse_nested_ternary}


def load_known(prop):
    """known_findings.txt plus the entries proposed in docs/notes/C14.known (same format), until they are merged"""
    res = C.load_known_findings(prop)
    p = os.path.join(C.VERIF, "docs", "notes", prop + ".known")
    if os.path.exists(p):
        for line in open(p):
            line = line.strip()
            if not line or line.startswith("#"):
                continue
            parts = [x.strip() for x in line.split("|")]
            if len(parts) >= 4 and parts[0] == prop and not any(k["signature"] == parts[1] for k in res):
                res.append(dict(prop=parts[0], signature=parts[1], input=parts[2], what=" | ".join(parts[3:])))
    return res


def rank_table_check(model):
    """T tie: the (1 << n) constants of primitiveType in the header are the ranks the model orders kinds by"""
    hdr = open(os.path.join(C.REPO, "include/occa/types/primitive.hpp")).read()
    src = dict((m.group(1), int(m.group(2))) for m in re.finditer(r"static const int (\w+)\s*=\s*\(1 << (\d+)\);", hdr))
    rc, out, err = C.sh([model, "--ranks"], timeout=60)
    mod = dict((l.split()[0], int(l.split()[1])) for l in out.splitlines() if l.strip())
    bad = [k for k in mod if src.get(k) != mod[k]]
    return bad, src, mod


def bare_nested_ternary(case):
    t = parse(case)
    if t is None:
        return False

    def has(t, inside):
        if t[0] == "tern":
            return inside or any(has(x, True) for x in t[1:4])
        if t[0] == "un":
            return has(t[2], False)
        if t[0] == "bin":
            return has(t[2], False) or has(t[3], False)
        return False
    # only texts in which that nesting is written without parentheses
    return has(t, False) and render_min(t, 0, safe=True) != " ".join(case.split()) and render(t) != " ".join(case.split())


def nontrivial(case):
    return any(op in case for op in (" + ", " - ", " * ", " / ", " % ", " < ", " == ", " && ", " || ", " << ", " >> ",
                                      " & ", " | ", " ^ ", " ? ", " <= ", " >= ", " != ", " > "))


def setup():
    C.build_lib("asan")
    C.build_driver(PROP, flavour="asan")
    C.coq_make(["C14/Properties_C14.vo", "C14/Extract.vo"])
    C.build_model(PROP)


def run(run, tier, seed, replay_case=None):
    C.build_lib("asan")
    impl = C.build_driver(PROP, flavour="asan")
    pr = C.coq_properties(PROP, extra_targets=["C14/Extract.vo"])
    run.add_proof(pr, CHECKER)
    run.coverage["trusted_base"] = TRUSTED
    model = C.build_model(PROP)

    rng = random.Random(seed * 7919 + 14)
    corpus = C.load_corpus(PROP)
    n = 1500 if tier == "quick" else 30000
    cases = list(corpus) + boundary_cases(tier) + conversion_cases(tier) + gen_cases(rng, n, tier)
    if replay_case is not None:
        cases = [replay_case]
    # drop duplicates, keep order
    seen = set()
    cases = [c for c in cases if not (c in seen or seen.add(c))]
    env = impl_env()
    D = Tie(run, PROP, [impl], model, env, signatures=SIGNATURES,
            model_desc="coq/C14/Model.v (fixed) vs src/types/primitive.cpp + expr/*Node.cpp")
    import time
    t0 = time.time()
    I, R, S = D.eval(cases)
    C.log("[C14] %d cases through library, model and specification (%.1fs)" % (len(cases), time.time() - t0))
    tags = guard_tags(model, cases)
    known = load_known(PROP)

    # ---- T tie: rank constants
    bad, src, mod = rank_table_check(model)
    if bad:
        run.violation("primitiveType constants differ from the model's rank table",
                      "primitiveType constants in include/occa/types/primitive.hpp: %s\nmodel ranks: %s\n" % (src, mod),
                      no_input=True)

    # ---- property failures: implementation vs specification
    prop_fails = [i for i in range(len(cases)) if D.fails_spec(I[i], S[i])]
    # a bare nested conditional is mis-parsed by the library (known finding parse_nested_ternary): where the
    # specification leaves such a case undefined, the model (which starts from the C parse tree) cannot be compared
    bare = set(i for i in range(len(cases)) if bare_nested_ternary(cases[i]))
    pf = set(prop_fails)
    corr = [i for i in range(len(cases)) if i not in pf and i not in bare and I[i] != R[i]]
    reported = set()
    budget = 14 if tier == "quick" else 40
    # clean failures first: they are violations outright
    order = sorted(prop_fails, key=lambda i: (len(tags[i]) > 0, size(parse(cases[i]) or ("lit", ""))))
    per_tagset = {}
    chosen = []
    for i in order:
        # spread the shrinking budget over different-looking failures
        feature = next((f for f in ("<<", ">>", "&&", "||", "==", "!=", "!", "?", ".", "* -", "- -", "+ -")
                        if f in cases[i]), "plain")
        key = (frozenset(tags[i]), i in bare, feature)
        per_tagset[key] = per_tagset.get(key, 0) + 1
        if per_tagset[key] > (2 if not key[0] else 1) or len(chosen) >= budget:
            continue
        chosen.append(i)
    smalls = shrink_many(D, model, [(cases[i], not tags[i]) for i in chosen]) if chosen else []
    for i, small in zip(chosen, smalls):
        if small in reported:
            continue
        reported.add(small)
        matched = [k for k in known if SIGNATURES.get(k["signature"], lambda c: False)(small)]
        if matched:
            run.known_finding("%s [signature %s, e.g. %s]" % (matched[0]["what"], matched[0]["signature"], matched[0]["input"]))
            continue
        if len(run.violations) >= 12:
            continue
        i1, r1, s1 = D.eval([small], parallel=False)
        content = ("property %s fails on the implementation built from %s\ncase: %s\nimplementation: %s\n"
                   "required (specification): %s\nmodel: %s\nfound from: %s\nreplay: ./check %s --replay <this file>\n"
                   % (PROP, C.REPO, small, i1[0], s1[0], r1[0], cases[i], PROP))
        run.violation("implementation differs from the specification on: " + small, content)
    if corr and not run.violations:
        i = corr[0]
        content = ("correspondence for %s (%s) no longer holds; no input was found on which the implementation violates "
                   "the specification (%d cases searched, %d disagree with the model)\nfirst disagreeing case: %s\n"
                   "implementation: %s\nmodel: %s\nspecification: %s\n"
                   % (PROP, D.model_desc, len(cases), len(corr), cases[i], I[i], R[i], S[i]))
        run.violation("correspondence break: model and implementation differ", content, no_input=True)
    if pr["failures"] and not run.violations:
        content = ("proof obligations for %s no longer check: %s\nsearched %d cases on the implementation, none violates "
                   "the specification\n" % (PROP, "; ".join(pr["failures"]), len(cases)))
        run.violation("proof obligations no longer check", content, no_input=True)

    C.log("[C14] verdicts and shrinking done (%.1fs)" % (time.time() - t0))
    # ---- specification vs the host compiler
    gx = gxx_eval(cases)
    C.log("[C14] g++ leg done (%.1fs)" % (time.time() - t0))
    spec_bad = []
    disputed = []
    for c, s, g in zip(cases, S, gx):
        want = None if s == "S UNDEF" else s[2:]
        if want != g:
            if want is None:
                disputed.append((c, s, g))      # undefined for the specification, a constant for g++
            else:
                spec_bad.append((c, s, g))
    lenient = 0
    if disputed:
        ub = gxx_runtime_ub([d[0] for d in disputed])
        for d, u in zip(disputed, ub):
            if u:
                lenient += 1                    # executing it is undefined: g++ folded through an overflow
            else:
                spec_bad.append(d)
    if spec_bad and not run.violations:
        c, s, g = spec_bad[0]
        content = ("the C++ specification coq/C14/Spec.v disagrees with g++ -std=c++17 on %d of %d expressions\n"
                   "first disagreeing case: %s\nspecification: %s\ng++: %s\n" % (len(spec_bad), len(cases), c, s, g))
        run.violation("specification differs from the host compiler", content, no_input=True)

    cov = run.coverage
    cov["evaluations"] = cov.get("evaluations", 0) + len(cases)
    cov["traces_validated_against_impl"] = len(cases) - len(corr) - len(prop_fails)
    cov["correspondence_disagreements"] = len(corr)
    cov["spec_disagreements"] = len(prop_fails)
    cov["spec_vs_gxx_disagreements"] = len(spec_bad)
    cov["gxx_accepts_but_runtime_ubsan_reports"] = lenient
    cov["spec_defined"] = sum(1 for s in S if s != "S UNDEF")
    cov["gxx_constant_expressions"] = sum(1 for g in gx if g is not None)
    cov["cases_with_known_finding_constructs"] = sum(1 for t in tags if t)
    cov["library_ub_or_crash"] = sum(1 for x in I if x == "R UB")
    cov["bare_nested_conditionals_not_compared_with_model"] = len(bare)
    distinct = set(c for c in cases if nontrivial(c))
    cov["distinct_nontrivial"] = len(distinct)
    cov["rule"] = ("expression texts: a deterministic batch (every boundary literal x suffix alone and under each unary operator; "
                   "24 typed operands pairwise under each of the 18 binary operators; ?: over 5 conditions x 8 x 7 typed branches) "
                   "plus mixed integer/float32/double comparisons and arithmetic whose integer operand is not representable in "
                   "the floating type it is converted to (2^24+-1, 2^24+3, 2^31-1, 2^32-1, 2^53+-1, 2^53+3, 2^63-1, 2^64-1 against "
                   "exactly representable float/double neighbours, both operand orders) "
                   "plus seeded random trees of depth <= 4 over all literal kinds (decimal/octal/hex/binary with every suffix, "
                   "bool, float/double), guarded divisions and shifts, operands that C++ leaves unevaluated; 70% fully "
                   "parenthesised, 30% minimal parentheses; non-trivial = contains at least one binary or conditional "
                   "operator; distinct = distinct text")
    pick = [0, len(cases) // 2, len(cases) - 1]
    cov["samples"] = [dict(case=cases[i], impl=I[i], model=R[i], spec=S[i], gxx=gx[i]) for i in pick]
    run.assumptions = ["LP64 target, g++ 12 as the reference compiler (implementation-defined: signed conversion modulo 2^N, "
                       "arithmetic right shift)",
                       "floating LITERALS in generated cases are exactly representable in their type (payloads; atof vs compiler "
                       "rounding is not compared); conversions and arithmetic results may round: library, OCaml float instance "
                       "(correctly rounded + - * /, int->float32/double) and g++ must agree bit for bit",
                       "integer literals without sign (the tokenizer never passes one to primitive::load)"]


def replay(run, path):
    case = C.replay_case_from_file(path)
    if case is None:
        print("no case in replay file")
        return 2
    globals()["run"](run, "quick", run.seed, replay_case=case)
    for s in run.coverage.get("samples", [])[:1]:
        print("replayed: %s\nimplementation: %s\nmodel:          %s\nspecification:  %s\ng++:            %s"
              % (s["case"], s["impl"], s["model"], s["spec"], s["gxx"]))
    return run.finish()
