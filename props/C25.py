"""C25 — JSON path access and merging follow nested-dictionary semantics (DESIGN.md 5/C25)."""
import os, random, re
from vlib import common as C

PROP = "C25"
CHECKER = "make -C /verif/coq -k C25/Properties_C25.vo C25/Extract.vo  (coqc 8.16.1, full .vo)"
TRUSTED = [
    "Coq 8.16.1 kernel incl. vm_compute; no native_compute",
    "hand transcription of json::has / operator[] const / getPathValue+get / operator[] / remove / size / set / operator+= / "
    "mergeWithObject (src/types/json.cpp, include/occa/types/json.{hpp,tpp}) and lex::skipTo into coq/C25/Model.v (on the JSON tree "
    "of coq/C24/Model.v), tied by the differential run of this check",
    "extraction (ExtrOcamlBasic only) + extract/C25/driver.ml + extract/zutil.ml",
    "drivers/C25.cpp (public API: operator[], typed operator=, get<json>, has, size, set, remove, +=; reads the public "
    "members type/value_ to dump hidden storage)",
    "g++ 12 / ASan+UBSan as the observer of memory errors in the implementation",
]

META = dict(
    level="Coq theorem: for every finite history of {const read, get-with-default, has, size, size-at, set (j[p] = v), set-key, remove, "
          "+=, j[p] +=, touch (non-const j[p])} over arbitrary byte-string paths and arbitrary JSON values, the modelled cursor-walking "
          "C++ functions produce exactly the observations and (through `abs`) the final state of a nested-dictionary specification "
          "written on key lists (refinement, unbounded histories, explicit fuel = path length + 1 shown sufficient); reads never "
          "change the value. A second model carries the hidden storage of every value (type tag + number/string/array/object "
          "members that survive the typed assignments j = 5 / \"s\" / jsonArray / jsonObject) and is proved to simulate the "
          "first one through `vis`, using each walker's `type == object_` guard. The model is tied to json.cpp by running the "
          "extracted hidden-storage model and the real class on the same histories and comparing every observation, the final "
          "value and every hidden member of every node.",
    note="Trusted: Coq kernel; the hand model (tie is differential, seeded); extraction; drivers. The non-const operator[] is "
         "specified as a write (it creates the path it names); += is specified for object or undefined right-hand sides. "
         "Known finding until fixes/C25-3 is applied: json::set resurrects stale entries (theorem partial under run_safe).",
    technique="Coq refinement proof (simulation of path walkers by structural recursion on key lists) + extracted-model/"
              "implementation differential correspondence",
    design_ref="DESIGN.md section 5, C25")


def hx(b):
    return "".join("%02x" % x for x in b)


KEYS = [b"a", b"b", b"c"]
ODD_KEYS = [b"", b"a/b", b"a\\/b", b"a\\", b"\\", b"ab", b"\xe9", b"a b"]


def gen_value(rng, depth, slashkeys=0.0):
    x = rng.random()
    if depth <= 0:
        x *= 0.6
    if x < 0.25:
        return "I%d" % rng.choice([0, 1, 2, 3, -1, 7, 2147483647, -2147483648])
    if x < 0.35:
        return "S" + hx(rng.choice([b"", b"x", b"hi", b"a/b"]))
    if x < 0.42:
        return rng.choice(["Z", "B0", "B1"])
    if x < 0.5:
        return "N"
    if x < 0.6:
        return "[" + ",".join(gen_value(rng, depth - 1, slashkeys) for _ in range(rng.randint(0, 3))) + "]"
    n = rng.choice([0, 1, 1, 2, 2, 3])
    ents = []
    for _ in range(n):
        k = rng.choice(ODD_KEYS) if rng.random() < slashkeys else rng.choice(KEYS)
        ents.append(hx(k) + "=" + gen_value(rng, depth - 1, slashkeys))
    return "{" + ",".join(ents) + "}"


def gen_obj(rng, depth, slashkeys=0.0):
    n = rng.choice([0, 1, 1, 2, 2, 3])
    ents = []
    for _ in range(n):
        k = rng.choice(ODD_KEYS) if rng.random() < slashkeys else rng.choice(KEYS)
        ents.append(hx(k) + "=" + gen_value(rng, depth - 1, slashkeys))
    return "{" + ",".join(ents) + "}"


def gen_typed(rng, depth=2, slashkeys=0.0):
    """the right-hand side of a typed assignment: number, string, jsonArray or jsonObject"""
    x = rng.random()
    if x < 0.35:
        return rng.choice(["I0", "I5", "I-1", "B0", "B1"])
    if x < 0.6:
        return "S" + hx(rng.choice([b"", b"s", b"now a string"]))
    if x < 0.78:
        return "[" + ",".join(gen_value(rng, depth - 1, slashkeys) for _ in range(rng.randint(0, 2))) + "]"
    return gen_obj(rng, depth, slashkeys)


def gen_stale(rng):
    """a path holds a container, is overwritten through a typed assignment (which keeps the old members), and is then
    queried, touched, merged, removed at and below that path; objects, arrays and strings overwrite each other"""
    base = b"/".join(rng.choice(KEYS) for _ in range(rng.choice([0, 1, 1, 2])))
    sub = rng.choice(KEYS)
    below = (base + b"/" + sub) if base else sub
    deeper = below + b"/" + rng.choice(KEYS)
    first = rng.choice(["{%s=I1}" % hx(sub), "{%s={%s=I2}}" % (hx(sub), hx(rng.choice(KEYS))), "{%s=[I1]}" % hx(sub),
                        "[{%s=I1}]" % hx(sub), "S6f6c64"])
    toks = []
    if rng.random() < 0.3 and base:
        toks.append("S:%s:I1" % hx(deeper))
    else:
        toks.append(rng.choice(["S", "t"]) + ":%s:%s" % (hx(base), first)) if first[0] in "{[S" else None
    for _ in range(rng.randint(1, 3)):
        kind = rng.random()
        if kind < 0.6 or not base:
            toks.append("t:%s:%s" % (hx(base), gen_typed(rng)))
        elif b"/" in base:
            toks.append("t:%s:%s" % (hx(base), gen_typed(rng)))
        else:
            toks.append("k:%s:%s" % (hx(base), gen_typed(rng)))
        probes = ["H:" + hx(below), "H:" + hx(deeper), "G:" + hx(below), "D:%s:I9" % hx(below), "z:" + hx(base), "G:" + hx(base),
                  "T:" + hx(below), "m:%s:{%s=I7}" % (hx(base), hx(sub)), "m:%s:{%s=I7}" % (hx(below), hx(sub)),
                  "R:" + hx(below), "S:%s:I3" % hx(below), "M:{%s={%s=I8}}" % (hx(base.split(b"/")[0] or sub), hx(sub)),
                  "K:%s:I4" % hx(sub), "k:%s:S78" % hx(sub), "Z"]
        for q in rng.sample(probes, rng.randint(2, 5)):
            toks.append(q)
    toks += ["H:" + hx(below), "H:" + hx(deeper), "G:" + hx(base), "Z"]
    return " ".join(t for t in toks if t)


def gen_path(rng, known, odd):
    if known and rng.random() < 0.6:
        p = rng.choice(known)
        y = rng.random()
        if y < 0.25 and b"/" in p:
            p = p.rsplit(b"/", 1)[0]
        elif y < 0.45:
            p = p + b"/" + rng.choice(KEYS)
        elif y < 0.55 and p:
            p = p[:-1] + rng.choice(KEYS)
    else:
        p = b"/".join(rng.choice(KEYS) for _ in range(rng.choice([1, 1, 2, 2, 3])))
    if rng.random() < odd:
        y = rng.random()
        if y < 0.15:
            p = b""
        elif y < 0.3:
            p = p + b"/"
        elif y < 0.45:
            p = p.replace(b"/", b"//", 1) if b"/" in p else b"/" + p
        elif y < 0.65:
            p = p.replace(b"/", b"\\/", 1) if b"/" in p else p + b"\\/" + rng.choice(KEYS)
        elif y < 0.75:
            p = p + b"\\"
        elif y < 0.85:
            p = rng.choice(ODD_KEYS)
        elif y < 0.92:
            p = p + b"\x00" + rng.choice(KEYS)
        else:
            p = b"/" + p
    return p


def gen_aimed(rng):
    """short histories aimed at the places where keys and paths can be confused"""
    y = rng.random()
    k = rng.choice(ODD_KEYS + KEYS)
    if y < 0.5:
        # an entry whose key is not a plain identifier, merged into
        toks = ["K:%s:%s" % (hx(k), gen_obj(rng, 2))]
        if rng.random() < 0.5:
            toks.insert(0, "S:%s:%s" % (hx(gen_path(rng, [], 0.0)), gen_value(rng, 2)))
        toks.append("M:{%s=%s}" % (hx(k), gen_obj(rng, 2)))
        toks += ["G:" + hx(k), "H:" + hx(k), "Z"]
    else:
        # written through one path function, read through the others
        p = gen_path(rng, [], 1.0)
        toks = ["S:%s:%s" % (hx(p), gen_value(rng, 1)), "G:" + hx(p), "D:%s:I9" % hx(p), "H:" + hx(p), "z:" + hx(p),
                "R:" + hx(p), "H:" + hx(p), "Z"]
    return " ".join(toks)


def gen_case(rng, tier):
    x0 = rng.random()
    if x0 < 0.08:
        return gen_aimed(rng)
    if x0 < 0.24:
        return gen_stale(rng)
    odd = rng.choice([0.0, 0.0, 0.1, 0.3])
    slashkeys = rng.choice([0.0, 0.0, 0.0, 0.15, 0.4])
    known = []
    toks = []
    nops = rng.randint(2, 12 if tier == "quick" else 24)
    for _ in range(nops):
        x = rng.random()
        p = gen_path(rng, known, odd)
        if x < 0.17:
            toks.append("S:%s:%s" % (hx(p), gen_value(rng, 2, slashkeys)))
            known.append(p)
        elif x < 0.24:
            toks.append("t:%s:%s" % (hx(p), gen_typed(rng, 2, slashkeys)))
            known.append(p)
        elif x < 0.38:
            toks.append("G:" + hx(p))
        elif x < 0.48:
            toks.append("H:" + hx(p))
        elif x < 0.52:
            toks.append("Z")
        elif x < 0.57:
            toks.append("z:" + hx(p))
        elif x < 0.67:
            toks.append("R:" + hx(p))
        elif x < 0.76:
            toks.append("M:" + (gen_obj(rng, 3, slashkeys) if rng.random() < 0.92 else "N"))
        elif x < 0.83:
            toks.append("m:%s:%s" % (hx(p), gen_obj(rng, 2, slashkeys) if rng.random() < 0.92 else "N"))
            known.append(p)
        elif x < 0.91:
            toks.append("T:" + hx(p))
            known.append(p)
        elif x < 0.96:
            toks.append("D:%s:%s" % (hx(p), gen_value(rng, 1)))
        else:
            k = rng.choice(ODD_KEYS + KEYS)
            if rng.random() < 0.5:
                toks.append("K:%s:%s" % (hx(k), gen_value(rng, 2, slashkeys)))
            else:
                toks.append("k:%s:%s" % (hx(k), gen_typed(rng, 2, slashkeys)))
    # close with reads of what was written
    for p in rng.sample(known, min(len(known), 3)):
        toks.append(rng.choice(["G:", "H:", "z:"]) + hx(p))
    toks.append("Z")
    return " ".join(toks)


def exhaustive_small():
    """every history of two writes and one probe over paths {a, a/b, a/b/c, b} (all orders), all write kinds"""
    paths = [b"a", b"a/b", b"a/b/c", b"b"]
    writes = []
    for p in paths:
        writes += ["S:%s:I1" % hx(p), "T:" + hx(p), "R:" + hx(p), "m:%s:{%s=I2}" % (hx(p), hx(b"c")), "S:%s:{}" % hx(p)]
    writes += ["M:{%s={%s=I3}}" % (hx(b"a"), hx(b"b")), "M:{%s=I4}" % hx(b"a")]
    writes += ["t:%s:I5" % hx(b"a"), "t:%s:S73" % hx(b"a/b"), "t:%s:[I1]" % hx(b"a"), "t:%s:{%s=I6}" % (hx(b"a"), hx(b"c")),
               "k:%s:I7" % hx(b"a"), "t::S72"]
    probes = " ".join(["G:" + hx(p) for p in paths] + ["H:" + hx(p) for p in paths] + ["Z", "z:" + hx(b"a")])
    cases = []
    for w1 in writes:
        for w2 in writes:
            cases.append("%s %s %s" % (w1, w2, probes))
    return cases


def shrink_history(case, fails_batch, rounds=30, width=64):
    """ddmin-like token deletion; every round evaluates its candidates in one run of the drivers"""
    toks = case.split()
    chunk = max(1, len(toks) // 2)
    for _ in range(rounds):
        cands = []
        for i in range(0, len(toks), chunk):
            c = toks[:i] + toks[i + chunk:]
            if c and c not in cands:
                cands.append(c)
        cands = cands[:width]
        hit = None
        if cands:
            res = fails_batch([" ".join(c) for c in cands])
            for c, r in zip(cands, res):
                if r:
                    hit = c
                    break
        if hit is not None:
            toks = hit
            chunk = min(chunk, max(1, len(toks) // 2))
        elif chunk == 1:
            break
        else:
            chunk = max(1, chunk // 2)
    return " ".join(toks)


def nontrivial(case):
    t = case.split()
    writes = [x for x in t if x[0] in "SKRMmTtk"]
    reads = [x for x in t if x[0] in "GHDz" and "2f" in x]
    return len(t) >= 3 and len(writes) >= 1 and len(reads) >= 1


VARIANT = dict(set_no_clear=False)      # filled by detect_variant()


def sig_set_on_stale(case):
    """json::set after the value itself (the empty path) was overwritten through a typed assignment"""
    t = case.split()
    for i, a in enumerate(t):
        if a.startswith("t::") and VARIANT["set_no_clear"]:
            if any(b[0] in "Kk" for b in t[i + 1:]):
                return True
    return False


SIGNATURES = {"set_on_stale_value": sig_set_on_stale}


def detect_variant(impl, env):
    """Does json::set clear a non-object before making it an object (fixes/C25-3.patch) or not (pinned)?  The model has
    both; one probe selects."""
    out = C.run_impl_isolating([impl], ["S:61:I1 t::S73 K:6b:I2"], env=env)
    VARIANT["set_no_clear"] = ";D={61=I1,6b=I2}" in out[0]
    os.environ["C25_SET_NO_CLEAR"] = "1" if VARIANT["set_no_clear"] else "0"
    return dict(VARIANT, probe_output=out[0])


def view(obs):
    """what the specification speaks about: everything but the dump of the hidden members"""
    return obs.split(";X=")[0]

_orig_load_known = C.load_known_findings


def _load_known(prop):
    """known_findings.txt plus the entries proposed in docs/notes/<prop>.known (same line format)"""
    res = _orig_load_known(prop)
    p = os.path.join(C.VERIF, "docs", "notes", prop + ".known")
    if os.path.exists(p):
        have = set(k["signature"] for k in res)
        for line in open(p):
            line = line.strip()
            if not line or line.startswith("#"):
                continue
            parts = [x.strip() for x in line.split("|")]
            if len(parts) >= 4 and parts[0] == prop and parts[1] not in have:
                res.append(dict(prop=parts[0], signature=parts[1], input=parts[2], what=" | ".join(parts[3:])))
    return res


def setup():
    C.build_lib("asan")
    C.build_driver("C25", flavour="asan")


def run(run, tier, seed, replay_case=None):
    C.load_known_findings = _load_known
    C.build_lib("asan")
    impl = C.build_driver("C25", flavour="asan")
    pr = C.coq_properties(PROP, extra_targets=["C25/Extract.vo"])
    run.add_proof(pr, CHECKER)
    run.coverage["trusted_base"] = TRUSTED
    model = C.build_model(PROP)

    rng = random.Random(seed * 7919 + 25)
    corpus = C.load_corpus(PROP)
    n = 2500 if tier == "quick" else 80000
    cases = list(corpus) + exhaustive_small() + [gen_case(rng, tier) for _ in range(n)]
    if replay_case is not None:
        cases = [replay_case]
    env = dict(C.lib_env("asan"))
    env["ASAN_OPTIONS"] += ":symbolize=0"
    run.coverage["json_set_variant"] = detect_variant(impl, env)
    D = C.Differential(run, PROP, [impl], model, env, view=view, signatures=SIGNATURES, keep_first=0,
                       model_desc="coq/C25/Model.v vs src/types/json.cpp (path functions)")
    I, R, S = D.eval(cases)

    # shrink the failing histories here, a whole round of candidates per run of the drivers (the framework's shrinker
    # starts the sanitised driver once per candidate), then let the framework judge the shrunk cases
    fails = [i for i in range(len(cases)) if D.fails_spec(I[i], S[i])]

    def first_diff(i):
        """the operation whose observation differs first (D = only the final value differs)"""
        a, b, toks = view(I[i])[2:].split(";"), S[i][2:].split(";"), cases[i].split()
        for n, (x, y) in enumerate(zip(a, b)):
            if x != y:
                return toks[n][0] if n < len(toks) else "D"
        return "?"
    groups = {}
    for i in fails:
        groups.setdefault(first_diff(i), []).append(i)
    picked = []
    for key in sorted(groups):
        picked += sorted(groups[key], key=lambda i: len(cases[i]))[:2]

    def still(cs):
        i1, r1, s1 = D.eval(cs, parallel=False)
        return [D.fails_spec(a, b) for a, b in zip(i1, s1)]
    shrunk = {}
    for i in picked[:10]:
        small = shrink_history(cases[i], still)
        if small != cases[i]:
            i1, r1, s1 = D.eval([small], parallel=False)
            cases[i], I[i], R[i], S[i] = small, i1[0], r1[0], s1[0]
        shrunk[small] = shrunk.get(small, 0) + 1
    # the failing cases that were not shrunk are reported by one representative per group through the shrunk ones
    keep = set(picked)
    sel = [i for i in range(len(cases)) if i not in set(fails) or i in keep]
    D.judge([cases[i] for i in sel], [I[i] for i in sel], [R[i] for i in sel], [S[i] for i in sel],
            proof_failures=pr["failures"], shrink=False)
    run.coverage["evaluations"] = len(cases)
    run.coverage["failing_cases"] = dict(total=len(fails), groups=len(groups), shrunk=shrunk)

    distinct = set(c for c in cases if nontrivial(c))
    cov = run.coverage
    cov["distinct_nontrivial"] = len(distinct)
    cov["rule"] = ("seeded histories (2-12 ops, thorough 2-24) over paths built from keys {a,b,c} (depth <= 4, aimed at prefixes/"
                   "extensions/siblings of paths already written) with sub-streams of odd paths (empty, trailing or doubled '/', "
                   "backslash escapes, NUL, leading '/') and of object keys containing '/' or '\\\\' or empty; values: ints, strings, "
                   "null, booleans, none, arrays, nested objects; plus an enumerated batch of every ordered pair of writes from 22 "
                   "write operations followed by 10 probes; non-trivial = >= 3 ops with a write and a read of a path of depth >= 2; "
                   "distinct = distinct case text")
    pick = [0, len(cases) // 2, len(cases) - 1]
    cov["samples"] = [dict(case=cases[i], impl=I[i][:300], model=R[i][:300], spec=S[i][:300]) for i in pick if i < len(cases)]
    cov["op_mix"] = {k: sum(sum(1 for t in c.split() if t[0] == k) for c in cases) for k in "GDHZzSKRMmTtk"}
    run.assumptions = ["histories start from a default-constructed (none) json and only use the public API",
                       "+= is exercised with object or none right-hand sides (what the property speaks about)",
                       "values are built clean (no stale members of value_ hidden behind the type tag)"]


def replay(run, path):
    case = C.replay_case_from_file(path)
    if case is None:
        print("no case in replay file")
        return 2
    globals()["run"](run, "quick", run.seed, replay_case=case)
    for s in run.coverage.get("samples", [])[:1]:
        print("replayed: %s\nimplementation: %s\nmodel:          %s\nspecification:  %s" % (s["case"], s["impl"], s["model"], s["spec"]))
    return run.finish()
