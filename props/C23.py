"""C23 — functional arrays, ranges and forLoop match sequential semantics (DESIGN.md 5/C23)."""
import os, random, re, shutil, time
from vlib import common as C

PROP = "C23"
FLAVOURS = ["plain"]
CHECKER = "make -C /verif/coq -k C23/Properties_C23.vo C23/Extract.vo  (coqc 8.16.1, full .vo)"
TRUSTED = [
    "Coq 8.16.1 kernel incl. vm_compute; no native_compute",
    "hand transcription of typelessArray.hpp (getMapArrayScope clamping, buildCpuMapTiledForLoops, the every/findIndex/"
    "forEach/mapTo kernels, typelessCpuReduce, setupReturnMemoryArray), utils.hpp hostReduction, range.cpp (constructors, "
    "length, index -> value), iteration.cpp / typelessForLoop.cpp (emitted loop headers and nest order) and of the @tile "
    "expansion of tile.cpp into coq/C23/Model.v; tied by the differential run of this check",
    "coq/C23/Menu.v: the menu of user lambdas and the helper methods of array.hpp (indexOf, reverse, shiftLeft, clamp, ...) "
    "written twice, over the model and over lists; the same lambdas written in C++ in drivers/C23.cpp",
    "extraction (ExtrOcamlBasic) + extract/C23/driver.ml + extract/zutil.ml",
    "drivers/C23.cpp (public API only: occa::array, occa::range, occa::forLoop, occa::scope, OCCA_FUNCTION)",
    "g++ as the JIT compiler of the Serial and OpenMP backends (OCCA_CXXFLAGS=-O1); the `plain` (-O2, uninstrumented) library "
    "flavour; libgomp with OMP_NUM_THREADS=4; the lambda -> OKL source conversion (OCCA_FUNCTION stringification, "
    "functionDefinition, kernelBuilder) is exercised, not modelled",
]

META = dict(
    level="Coq theorems over all lengths, tile sizes and tile iteration counts: the CPU map loop template after the @tile "
          "expansion visits exactly 0..len-1 in order (so every/some/forEach/map/mapTo equal all_of/any_of/for_each/transform); "
          "the 128-block reduction followed by the host reduction equals the sequential fold for every function compatible with "
          "the reduction operator when the initial value is an identity or the operator is commutative and idempotent, for any "
          "earlier use of the return buffer; range::length and index -> value equal the sequential loop for steps of both signs; "
          "forLoop's emitted nest (ranges, index arrays, @tile) runs the body once per tuple of the product.  The model is tied to "
          "the library by running the public API on Serial and OpenMP devices (every operation of the property statement, each "
          "built-in reduction, lengths 0..67 and large, a tile size x tile iteration grid, forLoop range/array/dim combinations).",
    note="Needs fixes/C18-1.patch (@tile inner bound) and fixes/C23-1..5.patch applied to /repo.  Known findings: findIndex "
         "returns the last match on Serial (any match on OpenMP) instead of the first; reduce with a localInit that is not an "
         "identity of a non-idempotent reduction (sum, multiply, bitXor) applies it 128 times.  Reductions that start from element "
         "0 (bitAnd, boolAnd, min, max without localInit) have no sequential counterpart on an empty array (OCCA raises).  "
         "Integers are mathematical in the model: contents and lengths are chosen so that no int/long overflows.  The GPU loop "
         "templates are outside the property (Serial and OpenMP).  Trusted: Coq kernel, hand model (differential tie), menu of "
         "lambdas written in Coq and in C++, extraction, driver, g++/libgomp.",
    technique="Coq coverage/fold proofs over the emitted loop nests + extracted-model/implementation differential correspondence "
              "on JIT-compiled kernels (Serial and OpenMP)",
    design_ref="DESIGN.md section 5, C23")

KINDS = ["sum", "mul", "bor", "band", "bxor", "lor", "land", "min", "max"]
IDENT = {"sum": 0, "mul": 1, "bor": 0, "bxor": 0, "lor": 0, "band": -1, "land": 1}
NONIDEM = ("sum", "mul", "bxor")


# ----------------------------------------------------------------------------- helpers over case text
def crem(a, b):
    q = abs(a) // abs(b)
    if (a < 0) != (b < 0):
        q = -q
    return a - q * b


def parse_xs(tok):
    return [] if tok in ("-", "~", "") else [int(x) for x in tok.split(",")]


def pred_matches(p, xs):
    tag, c = p[:2], int(p[2:])
    if tag in ("ve", "pe"):
        return sum(1 for v in xs if v == c)
    if tag == "vl":
        return sum(1 for v in xs if v < c)
    if tag == "ie":
        return 1 if 0 <= c < len(xs) else 0
    if tag == "m3":
        return sum(1 for i, v in enumerate(xs) if crem(v + i, 3) == c)
    return 0


def rpred_matches(p, xs):
    tag, c = p[:2], int(p[2:])
    if tag == "ve":
        return sum(1 for v in xs if v == c)
    if tag == "vl":
        return sum(1 for v in xs if v < c)
    if tag == "m3":
        return sum(1 for v in xs if crem(v, 3) == c)
    return 0


def range_values(ctor):
    f = ctor.split(":")
    if f[0] == "1":
        s, e = 0, int(f[1])
        st = 1 if e >= 0 else -1
    elif f[0] == "2":
        s, e = int(f[1]), int(f[2])
        st = 1 if e >= s else -1
    else:
        s, e, st = int(f[1]), int(f[2]), int(f[3])
        st = st or 1
    out = []
    x = s
    while (x < e if st > 0 else x > e):
        out.append(x)
        x += st
    return out


def case_values(t):
    """the element values a case's predicates see (array contents or range values); slices are not followed"""
    if t[0] == "A":
        return parse_xs(t[5])
    if t[0] == "R":
        return range_values(t[2])
    return []


# known-finding signatures: predicates over the shrunk failing case
def sig_findindex(case):
    t = case.split()
    if len(t) < 7 or t[0] not in "AR":
        return False
    ops = t[6:]
    if not all(o.startswith("fi:") or o.startswith("sc:") for o in ops):
        return False
    fis = [o for o in ops if o.startswith("fi:")]
    if not fis:
        return False
    if any(o.startswith("sc:") for o in ops):
        return True          # contents of the slice: re-derived by the model, at least one findIndex remains
    xs = case_values(t)
    if t[0] == "R":
        # a range predicate sees the value only (m3: v % 3)
        return all(rpred_matches(o[3:], xs) > 1 for o in fis)
    return all(pred_matches(o[3:], xs) > 1 for o in fis)


def sig_nonidentity(case):
    t = case.split()
    if len(t) < 7 or t[0] not in "AR":
        return False
    ops = t[6:]
    ris = [o for o in ops if o.startswith("ri:")]
    if not ris or len(ris) != len(ops):
        return False
    for o in ris:
        f = o.split(":")
        if f[1] not in NONIDEM or int(f[3]) == IDENT[f[1]]:
            return False
    return True


SIGNATURES = {"findindex_several_matches": sig_findindex, "reduce_nonidentity_init": sig_nonidentity}

_orig_load = C.load_known_findings


def _load_known(prop):
    res = _orig_load(prop)
    p = os.path.join(C.VERIF, "docs", "notes", "%s.known" % PROP)
    if prop == PROP and os.path.exists(p):
        have = set(k["signature"] for k in res)
        for line in open(p):
            line = line.strip()
            if not line or line.startswith("#"):
                continue
            parts = [x.strip() for x in line.split("|")]
            if len(parts) >= 4 and parts[0] == PROP and parts[1] not in have:
                res.append(dict(prop=parts[0], signature=parts[1], input=parts[2], what=" | ".join(parts[3:])))
                have.add(parts[1])
    return res


C.load_known_findings = _load_known


# ----------------------------------------------------------------------------- generators
# Every distinct (operation lambda, element type, mode, clamped tile size, clamped tile iterations) is one JIT-compiled
# kernel (~3 s of CPU on this machine), so the generators draw the kernel-determining choices from small menus and
# spend their randomness on what is a run-time argument: lengths, contents, captured constants, range bounds.
def csv(xs):
    return ",".join(str(x) for x in xs) if xs else "-"


def rcontents(rng, n, lo=-9, hi=9):
    return [rng.randint(lo, hi) for _ in range(n)]


def interleave(groups):
    """round-robin over lists: neighbouring cases use different kernels, so parallel workers compile different ones"""
    out = []
    k = 0
    while any(groups):
        g = groups[k % len(groups)]
        if g:
            out.append(g.pop(0))
        k += 1
    return out


def grid_cases(rng, tier):
    """coverage of the map template: forEach visit counts for every length 0..67 (and the lengths around ts, ts*ti,
    ts*ti*ti beyond) under every (tile size, tile iterations) pair; the clamped settings of short arrays coincide, so
    the grid costs few kernels"""
    if tier == "quick":
        TS, TI = [1, 2, 3, 4, 7, 16], [1, 2, 3, 5]
        lens67 = list(range(0, 68))
    else:
        TS, TI = [1, 2, 3, 4, 5, 7, 8, 16, 33, 64, 100], [1, 2, 3, 4, 5, 8, 17]
        lens67 = list(range(0, 68))
    groups = []
    for ts in TS:
        for ti in TI:
            T, B = ts * ti, ts * ti * ti
            extra = set(x for x in (T - 1, T, T + 1, B - 1, B, B + 1, 2 * B - 1, 2 * B + 1, 3 * B + ts) if 67 < x <= 2500)
            if tier != "quick":
                extra |= set(rng.sample(range(68, 1500), 3))
            g = []
            for n in lens67 + sorted(extra):
                xs = rcontents(rng, n)
                arr = csv(xs) if n else rng.choice(["-", "~"])
                g.append("A S i %d %d %s fc" % (ts, ti, arr))
            groups.append(g)
    out = interleave(groups)
    # the other map-style kernels, long elements and OpenMP on a few settings (each line: new kernels)
    rich = [(2, 2), (4, 3)] if tier == "quick" else [(ts, ti) for ts in (1, 2, 4, 7, 16, 64) for ti in (1, 2, 3, 5)]
    for (ts, ti) in rich:
        for n in ([ts * ti * ti + 1, 67] if tier == "quick" else [1, ts, ts * ti + 1, ts * ti * ti + 1, 67, 200]):
            xs = rcontents(rng, n)
            k = rng.randrange(n)
            out.append("A S i %d %d %s fc mp:x1_3 ev:vl%d fi:ie%d so:ve%d mt:l2_1:%d" % (
                ts, ti, csv(xs), rng.choice([10, 10, 5]), k, rng.randint(-9, 9), max(1, n + rng.choice([-1, 0, 2]))))
    alt = [("O", "i", 3, 2), ("S", "l", 4, 3)] if tier == "quick" else \
          [(m, t, ts, ti) for m in "SO" for t in "il" for (ts, ti) in ((1, 1), (3, 2), (4, 3), (16, 5))]
    for (mode, ty, ts, ti) in alt:
        B = ts * ti * ti
        for n in sorted(set([0, 1, ts, ts * ti, B, B + 1, 2 * B + 1, 67] + rng.sample(range(0, 68), 4 if tier == "quick" else 12))):
            if n < ts * ti and tier == "quick" and n != 0:
                continue                   # a clamped setting: another kernel
            xs = rcontents(rng, n)
            out.append("A %s %s %d %d %s fc mp:x1_3" % (mode, ty, ts, ti, csv(xs) if n else "~"))
    return out


def safe_fi(rng, xs):
    """a findIndex token with at most one match"""
    n = len(xs)
    for _ in range(8):
        tag = rng.choice(["ve", "vl", "pe", "m3", "ie"])
        c = rng.randint(-10, 10) if tag != "m3" else rng.randint(-2, 2)
        if tag == "ie":
            c = rng.randint(-1, n)
        p = "%s%d" % (tag, c)
        if pred_matches(p, xs) <= 1:
            return "fi:" + p
    return "fi:ie%d" % rng.randint(0, max(0, n - 1))


def rpred(rng):
    tag = rng.choice(["ve", "vl", "ie", "pe", "m3"])
    return "%s%d" % (tag, rng.randint(-2, 2) if tag == "m3" else rng.randint(-10, 12))


def rmapf(rng):
    x = rng.random()
    if x < 0.4:
        return "l%d_%d" % (rng.randint(-3, 3), rng.randint(-5, 5))
    if x < 0.8:
        return "x%d_%d" % (rng.randint(-3, 3), rng.randint(-2, 2))
    return "nx"


def array_ops(rng, xs, count, empty_kind, core):
    """core: only the operations whose kernels the quick tier builds for the non-default element type / mode / tile"""
    ops = []
    cur = list(xs)
    for _ in range(count):
        n = len(cur)
        x = rng.random()
        if core:
            y = rng.random()
            if y < 0.2:
                ops.append("ev:vl%d" % rng.randint(-10, 12))
            elif y < 0.35:
                ops.append("fi:ie%d" % rng.randint(-1, n))
            elif y < 0.5:
                ops.append("fc")
            elif y < 0.65:
                ops.append("mp:x%d_%d" % (rng.randint(-3, 3), rng.randint(-2, 2)))
            elif y < 0.8:
                ops.append("rd:sum:2:0")
            elif y < 0.9:
                ops.append("rd:min:2:0" if n else "len")
            else:
                ops.append("mx" if n else "len")
            continue
        if x < 0.08:
            ops.append("ev:" + rpred(rng))
        elif x < 0.14:
            ops.append("so:" + rpred(rng))
        elif x < 0.20:
            ops.append(safe_fi(rng, cur))
        elif x < 0.24:
            ops.append("fc")
        elif x < 0.30:
            g = rmapf(rng)
            if g == "nx" and n == 0:
                g = "l1_0"
            ops.append("mp:" + g)
        elif x < 0.35:
            g = rmapf(rng)
            if g == "nx":
                m = max(1, n + rng.choice([0, 0, 3]))        # the three-argument overload (fixes/C23-4): never below n
                if n == 0:
                    g = "l1_0"
            else:
                m = max(1, n + rng.choice([-2, -1, 0, 0, 1, 5]))
            ops.append("mt:%s:%d" % (g, m))
        elif x < 0.55:
            k = rng.choice(KINDS)
            if n == 0 and k in ("band", "land", "min", "max") and rng.random() < 0.7:
                k = "sum"
            ar = 2 if k not in ("sum", "min") else rng.choice([2, 3, 4])     # arities 3 and 4: once per builder is enough
            ops.append("rd:%s:%d:%d" % (k, ar, rng.randint(-9, 9)))
        elif x < 0.62:
            # localInit becomes a compile-time define: identities, or a second fixed value for the idempotent kinds
            k = rng.choice(KINDS)
            init = IDENT[k] if k in IDENT and (k in NONIDEM or rng.random() < 0.6) else {"min": 7, "max": -7, "bor": 4, "band": 6, "lor": 1, "land": 0}[k]
            ops.append("ri:%s:%d:%d" % (k, rng.randint(-9, 9), init))
        elif x < 0.66:
            ops.append(rng.choice(["mx", "mn"]) if n else "len")
        elif x < 0.72:
            # indexOf compiles its localInit (= the length) into the kernel: only on the lengths of LENS_IO
            ops.append("%s:%d" % (rng.choice(["io", "li", "in"]) if n in LENS_IO else rng.choice(["li", "in"]), rng.randint(-10, 10)))
        elif x < 0.75:
            ops.append("dp:" + csv(rcontents(rng, n)) if n else "len")
        elif x < 0.80:
            lo = rng.randint(-8, 4)
            ops.append(rng.choice(["cl:%d_%d" % (lo, lo + rng.randint(0, 8)), "cn:%d" % lo, "cx:%d" % lo]))
        elif x < 0.83:
            ops.append("rv")
        elif x < 0.88:
            ops.append("%s:%d_%d" % (rng.choice(["sl", "sr"]), rng.choice([0, 1, 2, 3, n, n + 2]), rng.randint(-50, 50)))
        elif x < 0.90:
            ops.append("ca")
        elif x < 0.93:
            c = rng.randint(-9, 9)
            ops.append("fl:%d" % c)
            cur = [c] * n
        elif x < 0.97 and empty_kind != "-":
            o = rng.randint(0, n)
            c = rng.choice([-1, -1, 0, rng.randint(0, n - o)])
            if rng.random() < 0.05:
                o, c = rng.choice([(n + 1, -1), (-1, 1), (0, n + 1), (1, -2)])     # rejected by memory::slice
            valid = 0 <= o and c >= -1 and (o <= n if c == -1 else o + c <= n)
            if rng.random() < 0.5:
                ops.append("sc:%d_%d" % (o, c))
                if valid:
                    cur = cur[o:] if c == -1 else cur[o:o + c]
                    if not cur:
                        empty_kind = "~"
            else:
                ops.append("cc:%d_%d" % (o, c))
        else:
            ops.append("len")
    return ops


LENS_IO = (0, 1, 3, 17, 67, 128, 300)


def array_cases(rng, tier):
    out = []
    lens = [0, 0, 1, 1, 2, 3, 3, 5, 17, 17, 64, 67, 67, 127, 128, 128, 129, 255, 256, 257, 300, 300, 1000]
    big = [1025, 4097, 5000]
    nc = 20 if tier == "quick" else 320
    for k in range(nc):
        n = rng.choice(lens) if rng.random() < (0.97 if tier == "quick" else 0.9) else rng.choice(big)
        if tier != "quick" and rng.random() < 0.3:
            n = rng.randint(0, 700)
        x = rng.random()
        if tier == "quick":
            # the full operation menu on (int, Serial, default tile); core operations elsewhere
            if x < 0.76:
                mode, ty, ts, ti, core = "S", "i", 0, 0, False
            elif x < 0.84:
                mode, ty, ts, ti, core = "S", "i", 4, 2, True
                n = max(n, 8)
            elif x < 0.92:
                mode, ty, ts, ti, core = "S", "l", 0, 0, True
            else:
                mode, ty, ts, ti, core = "O", "i", 0, 0, True
        else:
            mode = "S" if x < 0.7 else "O"
            ty = rng.choice("iiil")
            ts, ti = rng.choice([(0, 0), (0, 0), (0, 0), (1, 1), (4, 2), (16, 3), (-1, 3), (1000, 1)])
            core = not (ty == "i" and mode == "S" and (ts, ti) in ((0, 0), (1, 1))) and rng.random() < 0.85
        xs = rcontents(rng, n, -9, 9) if rng.random() < 0.8 else rcontents(rng, n, -2, 2)
        ek = rng.choice(["-", "~"])
        arr = csv(xs) if n else ek
        ops = array_ops(rng, xs, rng.randint(5, 10) if tier == "quick" else rng.randint(4, 14), ek if n == 0 else "x", core)
        out.append("A %s %s %d %d %s %s" % (mode, ty, ts, ti, arr, " ".join(ops)))
    return out


def range_cases(rng, tier):
    out = []
    nc = 18 if tier == "quick" else 240
    for k in range(nc):
        x = rng.random()
        if tier == "quick":
            # two of the kernel shapes (start 0 / step 1 as defines; everything a run-time argument); FIXED has the others
            x = 0.1 if x < 0.3 else 0.9
        if x < 0.2:
            ctor = "1:%d" % rng.choice([0, 1, 2, 10, 67, rng.randint(0, 200)])
        elif x < 0.45:
            ctor = "2:%d:%d" % (rng.randint(-30, 30), rng.randint(-30, 30))
        else:
            s = rng.randint(-40, 40) or 3
            e = s + rng.choice([0, 1, -1, rng.randint(-60, 60), rng.randint(-300, 300)])
            st = rng.choice([1, -1, 2, -2, 3, -3, 7, -7, 0, rng.randint(-12, 12), 100, -100])
            if tier == "quick" and st in (0, 1, -1):
                st = rng.choice([2, -2, 5, -3])
            ctor = "3:%d:%d:%d" % (s, e, st)
        vals = range_values(ctor)
        y = rng.random()
        if tier == "quick":
            mode, (ts, ti) = ("S", (0, 0)) if y < 0.75 else (("S", (4, 3)) if y < 0.9 else ("O", (0, 0)))
            if (ts, ti) == (4, 3) and len(vals) < 12:
                ts, ti = 0, 0
        else:
            mode = "S" if y < 0.75 else "O"
            ts, ti = rng.choice([(0, 0), (0, 0), (0, 0), (2, 2), (4, 3), (16, 1)])
        core = (mode, ts, ti) != ("S", 0, 0) and (tier == "quick" or rng.random() < 0.7)
        # start 0 and steps +-1 become compile-time defines: other kernels than the general range
        ops = ["len"]
        for _ in range(rng.randint(3, 6) if tier == "quick" else rng.randint(3, 9)):
            y = rng.random()
            if core:
                ops.append(rng.choice(["fc", "ta", "ev:vl%d" % rng.randint(-40, 40), "rd:sum:0"]))
            elif y < 0.12:
                ops.append("ev:%s%d" % (rng.choice(["ve", "vl"]), rng.randint(-40, 40)))
            elif y < 0.22:
                ops.append("so:%s%d" % (rng.choice(["ve", "vl", "m3"]), rng.randint(-2, 2)))
            elif y < 0.34:
                # at most one match: equality with a value
                ops.append("fi:ve%d" % (rng.choice(vals) if vals and rng.random() < 0.8 else rng.randint(-50, 50)))
            elif y < 0.46:
                ops.append("fc")
            elif y < 0.56:
                ops.append("mp:%d_%d" % (rng.randint(-3, 3), rng.randint(-5, 5)))
            elif y < 0.66:
                ops.append("ta")
            elif y < 0.90:
                k2 = rng.choice(KINDS if tier != "quick" else ["sum", "mul", "bxor", "min", "lor", "band"])
                if not vals and k2 in ("band", "land", "min", "max") and rng.random() < 0.7:
                    k2 = "sum"
                ops.append("rd:%s:%d" % (k2, rng.randint(-9, 9)))
            else:
                k2 = rng.choice(["sum", "bxor", "min", "max", "lor"] if tier != "quick" else ["sum", "min"])
                init = IDENT[k2] if k2 in IDENT else {"min": 99, "max": -99}[k2]
                ops.append("ri:%s:%d:%d" % (k2, rng.randint(-9, 9), init))
        out.append("R %s %s %d %d - %s" % (mode, ctor, ts, ti, " ".join(ops)))
    return out


def riter(rng, kind, tile, small):
    """kind: n (int), r (general range: start, end, step are run-time arguments), a (index array)"""
    hi = 5 if small else 12
    if kind == "n":
        return "n:%d:%d" % (rng.randint(0, hi), tile)
    if kind == "r":
        s = rng.choice([-6, -3, 2, 5, 9])                 # start 0 and |step| 1 are compile-time defines
        st = rng.choice([2, 3, 5, -2, -3, -4])
        cnt = rng.randint(0, hi // 2 + 1)
        sgn = 1 if st > 0 else -1
        e = s + st * cnt - (sgn * rng.randint(0, abs(st) - 1) if cnt else 0)      # cnt values; the end need not be hit
        return "r:%d:%d:%d:%d" % (s, e, st, tile)
    vals = [rng.randint(-4, 9) for _ in range(rng.randint(1, hi // 2 + 1))]
    return "a:%s:%d" % (";".join(str(v) for v in vals), tile)


# forLoop shapes: (outer kinds with tile size, inner kinds); one kernel per shape and direction of the ranges' steps
SHAPES_QUICK = [
    ([("n", 0), ("r", 0), ("a", 0)], []), ([("n", 0)], ["r", "a"]), ([("r", 2)], ["n"]),
    ([("n", 2), ("r", 2)], []), ([("n", 0), ("n", 0)], ["n", "n", "n"]), ([("a", 2), ("r", 3), ("n", 2)], []),
]


def forloop_cases(rng, tier):
    out = []
    fixed = [
        # negative steps (fixes/C23-3), stepped ranges under @tile (fixes/C18-1), repeated indices, empty iterations
        "r:10:0:-2:0/", "r:0:20:2:4/", "a:2;6;2:2,n:4:2/", "r:9:-8:-3:2/", "a:3;1;4;1;5:0/", "n:0:0/", "r:5:5:1:0/n:3:0", "n:3:0/r:6:0:-3:0",
    ]
    for f in fixed:
        out.append("F %s - - - - %s" % (rng.choice("SSO"), f))
    if tier == "quick":
        shapes = [(s, 2) for s in SHAPES_QUICK]
    else:
        shapes = []
        for _ in range(45):
            no = rng.choice([1, 1, 2, 2, 3])
            outer = [(rng.choice("nra"), rng.choice([0, 0, 2, 3, 4])) for _ in range(no)]
            # an untiled @outer loop cannot follow a tiled one (it would sit inside the tile's @inner loop; OKL
            # rejects the kernel): forLoop::tile tiles every iteration, outer() none
            first = min([k for k, (_, t) in enumerate(outer) if t] + [no])
            outer = [(kd, t if k < first or t else rng.choice([2, 3])) for k, (kd, t) in enumerate(outer)]
            tiled = sum(1 for (_, t) in outer if t)
            ni = min(rng.choice([0, 0, 1, 2, 3]), 3 - tiled)
            shapes.append(((outer, [rng.choice("nra") for _ in range(ni)]), 3))
    for (outer, inner), reps in shapes:
        small = len(outer) + len(inner) >= 4
        mode = rng.choice("SSSO")
        for _ in range(reps):
            o = [riter(rng, k, t, small) for (k, t) in outer]
            i = [riter(rng, k, 0, small) for k in inner]
            out.append("F %s - - - - %s/%s" % (mode, ",".join(o), ",".join(i)))
    return out


KNOWN_CASES = [
    # tiny cases for the two recorded findings (shrink in one step)
    "A S i 0 0 1,1,1 fi:ve1",
    "R S 1:5 0 0 - fi:vl3",
    "A S i 0 0 1,2,3 ri:sum:0:5",
    "R S 1:4 0 0 - ri:bxor:0:5",
]

FIXED = [
    # empty arrays and ranges (fixes/C23-1)
    "R S 1:0 0 0 - len ev:vl3 so:vl3 fi:ve0 fc ta mp:2_1 rd:sum:0 rd:mul:0 rd:lor:0 ri:min:0:99 rd:min:0",
    "R O 3:5:5:2 4 2 - len ev:vl3 fi:ve0 ta rd:bxor:0",
    "A S i 0 0 - ev:vl3 so:vl3 fi:ve0 fc mp:l1_0 mt:l1_0:3 rd:sum:2:0 rd:max:2:0 ri:max:0:-7 mx io:1 li:1 in:1 rv ca cl:0_1 len",
    "A S l 4 2 ~ ev:vl3 fi:ie0 fc mp:x1_1 mt:x1_0:2 rd:sum:3:0 mn li:1 rv sl:1_0 fl:3 cc:0_-1 sc:0_0 len",
    "A O i 0 0 1,2,3 sc:3_-1 ev:vl0 fi:ie1 mp:x1_0 len",
    # the return buffer across element sizes (fixes/C23-2)
    "A S i 0 0 100,101,102,103,104,105,106,107,108,109 rd:lor:2:5 mx rd:lor:2:5 rd:land:2:200 rd:sum:2:0 rd:lor:2:5 ev:vl200 rd:bor:2:0 rd:land:2:200",
    "A S l 0 0 5,6,7 mx rd:lor:2:0 rd:min:2:0 fi:ie1 rd:lor:2:0",
    # tile iterations > 1 (fixes/C18-1)
    "A S i 2 2 0,1,2,0,1,2,0,1,2,0 fc mp:x1_10 ev:vl2 mt:l2_1:4",
    "R S 1:10 2 2 - fc ta ev:vl8",
    # mapTo with the three-argument function resizes its output (fixes/C23-4)
    "A S i 0 0 1,2,3 mt:nx:5 mt:nx:3 mt:l1_0:1 mt:x1_1:7",
    # range constructors and lengths
    "R S 3:10:0:-3 0 0 - len ta fc ev:vl11 fi:ve4 rd:sum:0 rd:min:0 mp:2_1 ri:max:0:-99",
    "R S 3:0:10:0 0 0 - len ta", "R S 3:0:10:-1 0 0 - len ta", "R S 3:10:0:1 0 0 - len ta", "R S 1:-4 0 0 - len ta fc",
    "R S 2:3:-3 0 0 - len ta rd:max:0", "R S 3:-7:8:4 4 3 - len ta fc rd:sum:0",
    # helpers
    "A S i 0 0 3,1,4,1,5,9,2,6,5,3,1,4,1,5,9,2,6 mx mn io:5 li:5 io:7 li:7 in:9 in:8 rv sl:3_0 sr:3_0 sl:20_1 cl:2_5 cn:4 cx:4 ca "
    "dp:1,1,1,1,1,1,1,1,1,1,1,1,1,1,1,1,1 cc:2_3 len",
]


def view(obs):
    return obs


def nontrivial_key(case):
    t = case.split()
    if t[0] == "A":
        n = len(parse_xs(t[5]))
        return [("A", t[1], t[3], t[4], n, o.split(":")[0] + (":" + o.split(":")[1] if o[:2] in ("rd", "ri") else "")) for o in t[6:]] if n >= 2 else []
    if t[0] == "R":
        n = len(range_values(t[2]))
        return [("R", t[1], t[2], t[3], t[4], o.split(":")[0]) for o in t[6:]] if n >= 2 else []
    return [("F", t[1], t[6])]


def setup():
    C.build_lib("plain")
    C.build_driver(PROP, flavour="plain")
    C.build_model(PROP)


def run(run, tier, seed, replay_case=None):
    C.build_lib("plain")
    impl = C.build_driver(PROP, flavour="plain")
    pr = C.coq_properties(PROP, extra_targets=["C23/Extract.vo"])
    run.add_proof(pr, CHECKER)
    run.coverage["trusted_base"] = TRUSTED
    model = C.build_model(PROP)

    rng = random.Random(seed * 7919 + 23)
    cases = list(C.load_corpus(PROP)) + list(FIXED) + list(KNOWN_CASES)
    # slow kernels (forLoop includes occa.hpp) first, the cheap and numerous grid last
    cases += forloop_cases(rng, tier) + array_cases(rng, tier) + range_cases(rng, tier) + grid_cases(rng, tier)
    if replay_case is not None:
        cases = [replay_case]

    root = os.path.join(C.WORK, "C23-cache", "%d-%d" % (os.getpid(), int(time.time())))
    os.makedirs(root, exist_ok=True)
    env = C.lib_env("plain", cache_dir=root)
    env["OCCA_CXXFLAGS"] = "-O1"
    env["OMP_NUM_THREADS"] = "4"
    env["OCCA_VERBOSE"] = "0"

    class Diff(C.Differential):
        def eval(self, lines, parallel=True):
            R, S = C.run_model(self.model_exe, lines)
            if len(lines) > 1:
                I = C.run_impl_parallel(self.impl_cmd, lines, env=self.env, jobs=min(C.NPROC, 16, max(1, len(lines) // 6)),
                                        timeout=self.impl_timeout)
            else:
                I = C.run_impl_isolating(self.impl_cmd, lines, env=self.env, timeout=self.impl_timeout)
            return I, R, S

    try:
        D = Diff(run, PROP, [impl], model, env, view=view, signatures=SIGNATURES, keep_first=6,
                 model_desc="coq/C23/Model.v + Menu.v vs typelessArray.hpp / array.hpp / range.cpp / iteration.cpp / "
                            "typelessForLoop.cpp / tile.cpp", impl_timeout=3000)
        I, R, S = D.eval(cases)
        D.judge(cases, I, R, S, proof_failures=pr["failures"], max_report=6)
    finally:
        shutil.rmtree(root, ignore_errors=True)

    cov = run.coverage
    keys = set()
    nops = 0
    for c in cases:
        keys.update(nontrivial_key(c))
        t = c.split()
        nops += max(1, len(t) - 6)
    cov["evaluations"] = nops
    cov["distinct_nontrivial"] = len(keys)
    cov["rule"] = ("cases = one occa::array (int or long contents in [-9, 9], lengths 0..67, the 128-block boundaries 127..257 and up "
                   "to 5000; empty arrays both as array(dev, 0) and as zero-length slices), one occa::range (the three "
                   "constructors, start/end/step of both signs, step 0) or one occa::forLoop (1-3 outer x 0-3 inner iterations "
                   "over ints, ranges, index arrays with repeated entries, @tile sizes 2-4), on a Serial or OpenMP device, with a "
                   "list of operations applied to the same object; the map template is covered by forEach visit counts over a "
                   "tile size x tile iterations grid (24 pairs quick, 77 thorough) at the lengths around ts, ts*ti, ts*ti*ti and "
                   "0..67; evaluations = operations run; non-trivial = operation on >= 2 elements; distinct = distinct "
                   "(kind, mode, tile setting, length or range, operation) resp. distinct forLoop shapes")
    cov["cases"] = len(cases)
    cov["by_kind"] = {k: sum(1 for c in cases if c.startswith(k + " ")) for k in "ARF"}
    cov["openmp_cases"] = sum(1 for c in cases if c.split()[1] == "O")
    cov["samples"] = [dict(case=cases[i][:500], impl=I[i][:500], model=R[i][:500], spec=S[i][:500])
                      for i in sorted(set([0, len(cases) // 3, len(cases) // 2, len(cases) - 1]))]
    run.assumptions = [
        "Serial and OpenMP devices (the property's modes); OpenMP with 4 threads",
        "no 32/64-bit overflow: contents in [-9, 9], lengths <= 5000, tile sizes <= 1000 (the model computes over Z)",
        "findIndex cases outside the known finding have at most one matching element (the OpenMP result is not deterministic otherwise)",
        "reductions that start from element 0 (bitAnd, boolAnd, min, max without localInit) on an empty array: OCCA raises; no sequential counterpart",
        "forLoop counts body executions per tuple (@atomic increments); the order of execution is not observed",
        "user functions come from a fixed menu (coq/C23/Menu.v = drivers/C23.cpp); the lambda -> OKL conversion is exercised, not modelled",
    ]


def replay(run, path):
    case = C.replay_case_from_file(path)
    if case is None:
        print("no case in replay file")
        return 2
    globals()["run"](run, "quick", run.seed, replay_case=case)
    for s in run.coverage.get("samples", [])[:1]:
        print("replayed: %s\nimplementation: %s\nmodel:          %s\nspecification:  %s" % (s["case"], s["impl"], s["model"], s["spec"]))
    return run.finish()
