"""C17 — every backend visits exactly the iterations of each OKL loop (DESIGN.md 5/C17)."""
import os, random, re
from vlib import common as C

PROP = "C17"
CHECKER = "make -C /verif/coq -k C17/Properties_C17.vo C17/Extract.vo  (coqc 8.16.1, full .vo)"
TRUSTED = [
    "Coq 8.16.1 kernel incl. vm_compute; no native_compute",
    "hand transcription of oklForStatement::getIterationCount/makeDeclarationValue/getOklLoopIndex, "
    "withLauncher::setKernelLaunch/setDim/replaceOccaFor and kernel::run/isNoop into coq/C17/Model.v, tied by "
    "token-for-token comparison of the emitted launcher/device text with Expr.print of the model's trees",
    "coq/C17/Expr.v parse = how a C++ compiler reads the emitted text (C operator precedence); cross-checked on every "
    "case by compiling the emitted expressions with g++ and comparing values",
    "tools/C17_emit.py: extraction of `outer[k] = ...;` / `int it = ...;` lines, tokeniser, table mapping "
    "blockIdx.x / get_group_id(0) / _occa_group_position.x / item_.get_group(2) ... to axes",
    "drivers/C17.cpp (parser front ends as bin/occa translate uses them; probe kernel for kernel::run)",
    "extraction (ExtrOcamlBasic only) + extract/C17/driver.ml + extract/zutil.ml",
    "g++ 12 -fsanitize=undefined as the evaluator of emitted C++ and the runner of the Serial/OpenMP translations "
    "(OpenMP with one thread); values are compared in `int`, thread indices are `unsigned int`",
    "the dimension order of the DPC++ runtime (sycl range built from outer*inner, reversed) is not compiled here",
]

META = dict(
    level="Coq theorems: for every loop header of the OKL grammar (any initializer/bound/step expression a C parser can "
          "produce, < <= > >=, iterator on either side, ++ -- += -=) accepted by the translator and every run-time "
          "environment with a positive step, the launch-size text and the index-declaration text that the launcher back "
          "ends emit, READ BACK with C precedence, make a launch visit exactly the sequential loop's iterator values, each "
          "once, in order, including run-time-empty loops (also for nests of up to three loops per kind and in 32-bit "
          "arithmetic when nothing overflows); the parser/printer round trip is proved for all trees. Tied to the code by "
          "comparing the emitted text of all seven translators token for token with the model's, compiling it with g++ "
          "and running the Serial/OpenMP translations.",
    note="Needs fixes/C17-1..3 (bound parentheses, direction mismatch rejected, negative dimension = empty launch); the "
         "pinned variants are refuted in Coq. Trusted: Coq kernel, hand model + syntactic tie, C-precedence reader (cross-"
         "checked with g++), identifier table, drivers.",
    technique="Coq proof over expression trees with a verified precedence-climbing re-reader + syntactic "
              "translation validation of emitted source + compiled execution",
    design_ref="DESIGN.md section 5, C17")

VARS = ["N", "M", "P", "Q"]


# --------------------------------------------------------------------------- expression generator
# trees are built so that they are what a C parser produces (children bind tightly enough, otherwise
# they are put in parentheses); returned as (tokens, precedence)

BINOPS = [("*", 11), ("/", 11), ("%", 11), ("+", 10), ("-", 10), ("<<", 9), (">>", 9), ("<", 8), ("<=", 8),
          (">", 8), (">=", 8), ("==", 7), ("!=", 7), ("&", 6), ("^", 5), ("|", 4), ("&&", 3), ("||", 2)]


def atom(rng):
    if rng.random() < 0.55:
        return [rng.choice(VARS)], 13
    return [str(rng.choice([0, 1, 1, 2, 2, 3, 4, 5, 7]))], 13


def paren(t):
    return ["("] + t + [")"], 13


def fit(e, minp):
    t, p = e
    return (t, p) if p >= minp else paren(t)


def no_prefix(e):
    """the OKL expression parser does not read a prefix operator directly after a binary operator or `?` / `:`
    (`Q * -2` is refused): such operands are put in parentheses"""
    t, p = e
    return paren(t) if t and t[0] in ("-", "!", "~") else (t, p)


def gen_expr(rng, depth):
    if depth <= 0 or rng.random() < 0.3:
        return atom(rng)
    x = rng.random()
    if x < 0.12:
        a = fit(gen_expr(rng, depth - 1), 13)       # operand of a prefix operator: primary (no `- -x`)
        return [rng.choice(["-", "!", "~"])] + a[0], 12
    if x < 0.22:
        c = fit(gen_expr(rng, depth - 1), 2)
        # the OKL expression parser does not read `a ? b ? c : d : e` (a conditional directly in the middle
        # operand): a conditional in the middle is put in parentheses
        a = no_prefix(fit(gen_expr(rng, depth - 1), 2))
        b = no_prefix(gen_expr(rng, depth - 1))
        return c[0] + ["?"] + a[0] + [":"] + b[0], 1
    op, p = rng.choice(BINOPS)
    if op in ("/", "%"):
        l = fit(gen_expr(rng, depth - 1), p)
        r = ([str(rng.choice([1, 2, 3, 4]))], 13) if rng.random() < 0.6 else paren(atom(rng)[0] + ["|", "1"])
    elif op in ("<<", ">>"):
        l = atom(rng) if rng.random() < 0.7 else paren(atom(rng)[0] + ["&", "7"])
        r = ([str(rng.choice([0, 1, 1, 2]))], 13) if rng.random() < 0.7 else paren(atom(rng)[0] + ["&", "3"])
    else:
        l = fit(gen_expr(rng, depth - 1), p)
        r = no_prefix(fit(gen_expr(rng, depth - 1), p + 1))
    return l[0] + [op] + r[0], p


def gen_step(rng):
    x = rng.random()
    if x < 0.35:
        return [str(rng.choice([1, 2, 2, 3, 4]))]
    if x < 0.5:
        return ["Q"]
    if x < 0.6:
        return ["Q", "+", str(rng.choice([1, 2]))]
    if x < 0.7:
        return [str(rng.choice([2, 3])), "*", "Q"]
    if x < 0.8:
        return [rng.choice(VARS), "?", "1", ":", "2"]
    if x < 0.88:
        return ["(", rng.choice(VARS), "&", "1", ")", "+", "1"]
    if x < 0.94:
        return ["1", "<<", "(", "Q", "&", "1", ")"]
    return ["Q", "|", "1"]


def gen_loop(rng, tier, small):
    cmp_ = rng.choice(["lt", "le", "gt", "ge"])
    side = rng.choice(["L", "L", "R"])
    asc = (cmp_ in ("lt", "le")) == (side == "L")
    if rng.random() < 0.96:
        upd = rng.choice(["inc", "pinc", "add", "add"] if asc else ["dec", "pdec", "sub", "sub"])
    else:
        upd = rng.choice(["inc", "pinc", "add", "dec", "pdec", "sub"])       # possibly moving away from the bound
    const = rng.random() < 0.05
    depth = rng.choice([0, 1, 1, 2] if not small else [0, 0, 1])

    def operand(minp):
        if const:
            return [str(rng.choice([0, 1, 2, 3, 5, 8]))], 13
        return fit(gen_expr(rng, depth), minp)
    init = operand(1)[0]
    bound = operand(9 if side == "L" else 8)[0]
    t = ["loop", cmp_, side, upd, "i"] + init + ["b"] + bound
    if upd in ("add", "sub"):
        t += ["s"] + ([str(rng.choice([1, 2, 3]))] if const else gen_step(rng))
    return t


def gen_case(rng, tier):
    x = rng.random()
    if x < 0.6:
        no, ni = 1, 1
    elif x < 0.85:
        no, ni = rng.choice([(2, 1), (1, 2), (2, 2)])
    else:
        no, ni = rng.choice([(3, 1), (1, 3), (3, 2), (2, 3), (3, 3)])
    t = ["K", str(no), str(ni)]
    if no + ni > 2 and rng.random() < 0.4:
        # a loop with two sibling chains of loops below it (the loops fork.. appear twice)
        t += ["fork", str(rng.randint(1, no + ni - 1))]
    for _ in range(3):
        t += ["env", str(rng.randint(0, 9)), str(rng.randint(0, 9)), str(rng.randint(0, 6)), str(rng.randint(1, 3))]
    for k in range(no + ni):
        t += gen_loop(rng, tier, small=(no + ni > 2))
    return " ".join(t)


def tree_shapes():
    """every nest shape (1-3 @outer x 1-3 @inner) x every fork position: a loop of either kind with two sibling
    chains below it, at every depth; the loops have pairwise different iteration counts so that a loop reading
    another loop's launch dimension changes the visited tuples"""
    cases = []
    bounds = [["2"], ["M"], ["3"], ["N", "-", "1"], ["Q", "+", "1"], ["2"]]
    for no in (1, 2, 3):
        for ni in (1, 2, 3):
            for fork in range(1, no + ni):
                t = ["K", str(no), str(ni), "fork", str(fork), "env", "5", "3", "0", "1", "env", "2", "4", "1", "2"]
                for k in range(no + ni):
                    t += ["loop", "lt", "L", "inc", "i", "0", "b"] + bounds[(k + no) % len(bounds)]
                cases.append(" ".join(t))
    return cases


def exhaustive_shapes():
    """every comparison x side x update that moves towards the bound (24 shapes) x 5 bound forms, plus every comparison
    x side with the three updates that move away from it (rejected); run-time values that make the loop non-empty,
    exactly empty and over-empty; one loop per kind"""
    cases = []
    for cmp_ in ("lt", "le", "gt", "ge"):
        for side in ("L", "R"):
            asc = (cmp_ in ("lt", "le")) == (side == "L")
            good = ("inc", "pinc", "add") if asc else ("dec", "pdec", "sub")
            bad = ("dec", "pdec", "sub") if asc else ("inc", "pinc", "add")
            for upd in good + bad:
                bounds = (["M", "+", "1"], ["M", "<<", "1"], ["M"], ["-", "M"], ["(", "N", "?", "M", ":", "2", ")"])
                for bound in (bounds if upd in good else bounds[:1]):
                    init = ["1", "+", "(", "N", "-", "1", ")"] if not asc else ["N", "-", "2"]
                    t = ["K", "1", "1", "env", "5", "2", "0", "1", "env", "2", "2", "1", "2", "env", "1", "7", "3", "3"]
                    t += ["loop", cmp_, side, upd, "i"] + init + ["b"] + bound
                    if upd in ("add", "sub"):
                        t += ["s", "Q"]
                    t += ["loop", "lt", "L", "inc", "i", "0", "b", "2"]
                    cases.append(" ".join(t))
    return cases


def strip_texts(obs):
    """what the specification speaks about: the visited tuples (or ERR)"""
    m = re.search(r"\| (V .*)$", obs)
    if m:
        return obs[:2] + m.group(1)
    return obs


def nontrivial(case, s_obs):
    if not s_obs.startswith("S V "):
        return False
    has_op = any(tok in case.split() for tok in ("+", "-", "*", "/", "<<", ">>", "?", "&", "|", "%", "~", "!"))
    vals = [v.strip() for v in s_obs[4:].split(";")]
    return has_op and any(v not in ("-", "OOS", "HUGE", "UB", "NOFUEL") for v in vals)


SIGNATURES = {}


def impl_cmd():
    return ["python3", os.path.join(C.VERIF, "tools", "C17_emit.py"), C.build_driver("C17", flavour="asan")]


def build_model():
    return C.build_model(PROP, extra_ml=[os.path.join(C.VERIF, "extract", "C17", "common.ml")])


def setup():
    C.build_lib("asan")
    C.build_driver("C17", flavour="asan")
    pr = C.coq_properties(PROP, extra_targets=["C17/Extract.vo"])
    build_model()


# --------------------------------------------------------------------------- batch minimisation

def simplifications(case):
    """structurally smaller variants of a case (one compile evaluates them all)"""
    t = case.split()
    if len(t) < 3 or t[0] != "K":
        return []
    try:
        no, ni = int(t[1]), int(t[2])
    except ValueError:
        return []
    rest = t[3:]
    fork = rest[:2] if rest[:1] == ["fork"] else []
    if "loop" not in rest:
        return []
    k = rest.index("loop")
    head, body = rest[:k], rest[k:]
    envs, loops, cur = [], [], None
    for x in head:
        if x == "env":
            cur = []
            envs.append(cur)
        elif cur is not None:
            cur.append(x)
    cur = None
    for x in body:
        if x == "loop":
            cur = []
            loops.append(cur)
        else:
            cur.append(x)
    if len(loops) != no + ni:
        return []
    trivial = ["lt", "L", "inc", "i", "0", "b", "1"]
    out = []

    def build(no_, ni_, envs_, loops_):
        s = ["K", str(no_), str(ni_)] + (fork if (no_, ni_) == (no, ni) else [])
        for e in envs_:
            s += ["env"] + e
        for l in loops_:
            s += ["loop"] + l
        return " ".join(s)
    # no fork
    if fork:
        out.append(" ".join(["K", str(no), str(ni)] + rest[2:]))
    # one env
    if len(envs) > 1:
        for e in envs:
            out.append(build(no, ni, [e], loops))
    # one interesting loop, as the outer or the inner loop, the other one trivial
    if no + ni > 2 or True:
        for j, l in enumerate(loops):
            if l == trivial:
                continue
            if j < no:
                out.append(build(1, 1, envs, [l, trivial]))
            else:
                out.append(build(1, 1, envs, [trivial, l]))
    # operands replaced by atoms
    for j, l in enumerate(loops):
        for sec, repl in (("i", ["0"]), ("i", ["N"]), ("b", ["M"]), ("b", ["3"]), ("s", ["2"]), ("s", ["Q"])):
            if sec not in l:
                continue
            a = l.index(sec)
            b = a + 1
            while b < len(l) and l[b] not in ("i", "b", "s"):
                b += 1
            if l[a + 1:b] == repl:
                continue
            l2 = l[:a + 1] + repl + l[b:]
            out.append(build(no, ni, envs, loops[:j] + [l2] + loops[j + 1:]))
    seen, res = set(), []
    for c in out:
        if c != case and c not in seen:
            seen.add(c)
            res.append(c)
    return res


def minimise(D, case, simplify, rounds=3):
    cur = case
    for _ in range(rounds):
        cands = simplify(cur)
        if not cands:
            break
        I, R, S = D.eval(cands, parallel=False)
        failing = [c for c, i, s in zip(cands, I, S) if D.fails_spec(i, s)]
        if not failing:
            break
        cur = min(failing, key=len)
    return cur


def run_generic(run, prop, cases, cmd, model, pr, simplify, model_desc, replay_case, max_min=2):
    """shared by C17/C18/C19: evaluate, minimise the first failing cases in batches (one compile per
    round instead of one per deleted token), judge.  Returns (cases, I, R, S)."""
    env = C.lib_env("asan")
    D = C.Differential(run, prop, cmd, model, env, view=strip_texts, signatures=SIGNATURES, keep_first=3,
                       model_desc=model_desc, jobs=min(C.NPROC, 8 if len(cases) < 1000 else 16),
                       impl_timeout=1500 if len(cases) < 1000 else 12000)
    I, R, S = D.eval(cases)
    failing = [i for i in range(len(cases)) if D.fails_spec(I[i], S[i])]
    seen_small = set()
    reported = []
    for i in failing:
        if len(reported) >= max_min:
            break
        small = minimise(D, cases[i], simplify) if replay_case is None else cases[i]
        if small in seen_small:
            continue
        seen_small.add(small)
        i1, r1, s1 = D.eval([small], parallel=False)
        cases[i], I[i], R[i], S[i] = small, i1[0], r1[0], s1[0]
        reported.append(i)
    drop = set(failing) - set(reported)
    if drop:
        run.coverage["further_failing_cases_not_minimised"] = len(drop)
    idx = [i for i in range(len(cases)) if i not in drop]
    D.judge([cases[i] for i in idx], [I[i] for i in idx], [R[i] for i in idx], [S[i] for i in idx],
            proof_failures=pr["failures"], shrink=False)
    if drop:
        run.coverage["spec_disagreements"] = run.coverage.get("spec_disagreements", 0) + len(drop)
        run.coverage["evaluations"] = run.coverage.get("evaluations", 0) + len(drop)
    return cases, I, R, S


def run(run, tier, seed, replay_case=None):
    C.build_lib("asan")
    cmd = impl_cmd()
    pr = C.coq_properties(PROP, extra_targets=["C17/Extract.vo"])
    run.add_proof(pr, CHECKER)
    run.coverage["trusted_base"] = TRUSTED
    model = build_model()

    rng = random.Random(seed * 7919 + 17)
    corpus = C.load_corpus(PROP)
    ex = exhaustive_shapes()
    if tier == "quick":
        cases = (list(corpus) + random.Random(seed).sample(ex, 70) + tree_shapes()
                 + [gen_case(rng, tier) for _ in range(230)])
    else:
        cases = list(corpus) + ex + tree_shapes() + [gen_case(rng, tier) for _ in range(2000)]
    if replay_case is not None:
        cases = [replay_case]
    cases, I, R, S = run_generic(run, PROP, cases, cmd, model, pr, simplifications,
                                 "coq/C17/Model.v vs oklForStatement.cpp / withLauncher.cpp (emitted text)",
                                 replay_case)

    distinct = set(c for c, s in zip(cases, S) if nontrivial(c, s))
    cov = run.coverage
    cov["distinct_nontrivial"] = len(distinct)
    cov["rule"] = ("kernels with 1-3 @outer and 1-3 @inner loops; headers drawn from {<,<=,>,>=} x iterator left/right x "
                   "{++it,it++,--it,it--,+=,-=} with initializer/bound/step expressions over N,M,P,Q and literals built from "
                   "every operator class (* / % + - << >> relational equality & ^ | && || ?: unary - ! ~), 3 run-time "
                   "environments each (non-empty, exactly empty, over-empty loops arise), ~4% headers whose update moves "
                   "away from the bound, ~5% all-literal headers, plus an enumerated batch of the 24 accepted header shapes x 5 "
                   "bound forms and the 24 rejected shapes; ~40% of the nests with more than two loops and an enumerated batch of all "
                   "27 (nest shape x fork position) combinations have a loop of either kind with two sibling chains of "
                   "loops below it (getOklLoopIndex on loop trees; each loop's thread-index component must be the launch "
                   "dimension of its depth); non-trivial = an operand is an operator expression and at least one environment visits at least "
                   "one iteration; distinct = distinct case text")
    k = len(cases)
    cov["samples"] = [dict(case=cases[i], impl=I[i], model=R[i], spec=S[i]) for i in sorted(set([0, k // 2, k - 1]))]
    shapes = set()
    for c in cases:
        for m in re.finditer(r"loop (\w+) (\w) (\w+)", c):
            shapes.add(m.groups())
    cov["header_shapes_seen"] = len(shapes)
    cov["forked_loop_trees"] = sum(1 for c in cases if " fork " in c)
    cov["parses_per_case"] = 7
    cov["emitted_sources_per_case"] = 12
    cov["rejected_by_translator"] = sum(1 for x in I if x == "R ERR")
    run.assumptions = [
        "operands do not mention the iterator or other loops' iterators (loop-invariant headers)",
        "iterator type int; run-time values small enough that nothing overflows (the 32-bit theorem needs the emitted "
        "expressions to be free of undefined behaviour)",
        "steps are positive at run time (environments where a step is <= 0 are marked OOS on all sides)",
        "the generator never nests two prefix minus signs (`- -x` prints as `--x`: C15) and never puts a conditional "
        "directly into the middle operand of a conditional (`a ? b ? c : d : e` is refused by the OKL parser) nor a prefix "
        "operator directly after a binary operator (`Q * -2` is refused by the OKL parser)",
    ]


def replay(run, path):
    case = C.replay_case_from_file(path)
    if case is None:
        print("no case in replay file")
        return 2
    globals()["run"](run, "quick", run.seed, replay_case=case)
    for s in run.coverage.get("samples", [])[:1]:
        print("replayed: %s\nimplementation: %s\nmodel:          %s\nspecification:  %s" % (s["case"], s["impl"], s["model"], s["spec"]))
    return run.finish()
