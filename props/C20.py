"""C20 — translated kernels compute what the OKL kernel means, on every back end (DESIGN.md 5/C20)."""
import os, random, re, shutil, sys, time
from vlib import common as C

sys.path.insert(0, os.path.join(C.VERIF, "tools"))
import C20_okl as O

PROP = "C20"
CHECKER = "make -C /verif/coq -k C20/Properties_C20.vo C20/Extract.vo  (coqc 8.16.1, full .vo)"
TRUSTED = [
    "Coq 8.16.1 kernel incl. vm_compute; no native_compute",
    "the mini-OKL of coq/C20/Lang.v as the meaning of the generated OKL text: tools/C20_okl.py prints the text from the "
    "abstract kernel, extract/C20/driver.ml parses the same case into the Coq syntax (two hand-written front ends, compared "
    "on every case through the results)",
    "hand transcription of serial.cpp setupExclusiveIndices/defineExclusiveVariableAsArray (excl_nest, excl_array_size) "
    "and of the launch structure produced by withLauncher.cpp (one kernel per outer-most @outer loop, inner loops replaced "
    "by their bodies, barrier between inner loops) into coq/C20/Model.v; tied per generated kernel by execution",
    "drivers/C20_emul.hpp: host emulation of the CUDA/HIP/OpenCL/Metal/SYCL launch model (blocks one after the other, the "
    "threads of a block as gated host threads that hand over at barriers, shared memory as per-block statics, atomics as "
    "plain operations), the stub headers and the generated main of tools/C20_run.py",
    "drivers/C20.cpp (public API: buildKernel, malloc, run, copyTo), drivers/C20_tr.cpp (the parser classes exactly as "
    "bin/occa translate uses them), g++ 12 with -fwrapv -fsanitize=address as the compiler of every translation",
    "extraction (ExtrOcamlBasic) + extract/C20/driver.ml + extract/zutil.ml",
]

META = dict(
    level="Coq theorems over all kernels of a mini-OKL (nested/sibling @outer and @inner loops with run-time extents, "
          "locals, if, plain for, @exclusive scalars, @shared arrays, barriers between inner loops, @atomic +=): for every kernel "
          "that passes the syntactic independence check of the generator and EVERY complete schedule of the launch model "
          "(any thread of any block takes its next statement-level step; a block passes a barrier when all its threads "
          "arrived) the final global memory equals the sequential reading (launch_eq_seq, by a proved diamond property "
          "independent_commutes + confluence), complete schedules exist, and serial.cpp's _occa_exclusive_index scheme "
          "visits cells 0..prod(inner extents)-1 once each, in bounds iff the array is that long.  That each back end's "
          "emitted text is the model's kernel is established per generated kernel by execution (Serial/OpenMP through "
          "the real library under ASan; CUDA/HIP/OpenCL/Metal/DPC++ translations compiled unchanged against an emulation "
          "header and run under ASan), not proved for all kernels.",
    note="partial.  Known findings: @exclusive storage is int x[1024] when inner extents are run-time values (stack overflow "
         "beyond 1024 inner iterations; excl_runtime_inner_gt_1024); the OpenCL and Metal translations emit a plain `+=` "
         "for @atomic (atomic_dropped_opencl_metal, detected on the emitted text; the emulation runs threads one at a time "
         "and cannot lose an update).  Not modelled: @tile (C18), @dim (C19), loop-header arithmetic (C17), floating point, "
         "sibling inner loops with different extents, while/switch/break in bodies.",
    technique="Coq small-step interleaving semantics + diamond/confluence proof; extracted sequential interpreter as oracle; "
              "differential execution of all seven translations (two through the library's JIT, five under a launch-model "
              "emulation) with AddressSanitizer",
    design_ref="DESIGN.md section 5, C20")

MODES = ["serial", "openmp", "cuda", "hip", "opencl", "metal", "dpcpp"]


# ------------------------------------------------------------------------------------------------ generator
class Gen:
    def __init__(self, rng, name):
        self.r = rng
        self.name = name

    def pick_dims(self, args, maxprod):
        """-> list of bounds, actual extents"""
        r = self.r
        x = r.random()
        n = 3 if x < 0.12 else (2 if x < 0.4 else 1)
        dims, ext = [], []
        for k in range(n):
            if r.random() < 0.5 and args:
                a = r.randrange(len(args))
                dims.append(("BArg", a)); ext.append(args[a])
            else:
                v = r.choice([1, 2, 2, 3, 4, 4, 5, 8]) if n < 3 else r.choice([1, 2, 2, 3, 3, 4])
                dims.append(("BConst", v)); ext.append(v)
        p = 1
        for e in ext:
            p *= e
        if p > maxprod:
            return self.pick_dims(args, maxprod)
        return dims, ext

    def expr(self, cx, depth):
        r = self.r
        leaves = ["const", "const", "inn", "out", "arg"]
        if cx["locals_set"]:
            leaves += ["loc", "loc"]
        if cx["exc_set"]:
            leaves += ["exc", "exc"]
        if cx["kin"]:
            leaves += ["rdg", "rdg"]
        if cx["kthr"]:
            leaves += ["rdown"]
        if cx["sh_read"]:
            leaves += ["rdsh", "rdsh"]
        if cx["sh_own"]:
            leaves += ["rdshown"]
        if depth <= 0 or r.random() < 0.3:
            k = r.choice(leaves)
            if k == "const":
                return ("EConst", r.randint(-3, 6))
            if k == "inn":
                return ("EInn", r.randrange(cx["nid"]))
            if k == "out":
                return ("EOut", r.randrange(cx["nod"]))
            if k == "arg":
                return ("EArg", r.randrange(cx["nargs"])) if cx["nargs"] else ("EConst", 2)
            if k == "loc":
                return ("ELoc", r.choice(sorted(cx["locals_set"])))
            if k == "exc":
                return ("EExc", r.choice(sorted(cx["exc_set"])))
            if k == "rdg":
                a, size = r.choice(cx["kin"])
                return ("ERdG", a, ("EModP", self.expr(cx, depth - 1), size))
            if k == "rdown":
                a, st = r.choice(cx["kthr"])
                return ("ERdOwn", a, r.randrange(st))
            if k == "rdsh":
                s, lim = r.choice(cx["sh_read"])
                return ("ERdSh", s, ("EModP", self.expr(cx, depth - 1), lim))
            if k == "rdshown":
                s, st = r.choice(cx["sh_own"])
                return ("ERdShOwn", s, r.randrange(st))
        op = r.choice(["OAdd", "OAdd", "OSub", "OMul", "OLt", "OLe", "OEq", "ONe", "OHlp"])
        return ("EBin", op, self.expr(cx, depth - 1), self.expr(cx, depth - 1))

    def stmts(self, cx, n, depth, in_first=False, loopvars=()):
        r = self.r
        out = []
        for _ in range(n):
            kinds = ["loc", "loc"]
            if cx["nexc"]:
                kinds += ["exc"]
            if cx["kthr"]:
                kinds += ["own", "own", "own"]
            if cx["katom"]:
                kinds += ["atom"]
            if depth > 0:
                kinds += ["if", "for"]
                if not in_first and (cx["kblk"] or r.random() < 0.3):
                    kinds += ["first", "first"]
            if in_first and cx["kblk"]:
                kinds += ["blk", "blk", "blk"]
            k = r.choice(kinds)
            free_locals = [x for x in range(cx["nloc"]) if x not in loopvars]
            if k == "loc" and free_locals:
                x = r.choice(free_locals)
                out.append(("SLoc", x, self.expr(cx, 2)))
                cx["locals_set"].add(x)
            elif k == "exc":
                x = r.randrange(cx["nexc"])
                out.append(("SExc", x, self.expr(cx, 2)))
            elif k == "own":
                a, st = r.choice(cx["kthr"])
                out.append(("SWrOwn", a, r.randrange(st), self.expr(cx, 2)))
            elif k == "blk":
                a, st = r.choice(cx["kblk"])
                out.append(("SWrBlk", a, r.randrange(st), self.expr(cx, 2)))
            elif k == "atom":
                a, size = r.choice(cx["katom"])
                form = r.random()
                if form < 0.75:
                    out.append(("SAtom", a, ("EModP", self.expr(cx, 1), size), self.expr(cx, 2)))
                else:
                    out.append(("SAtomInc" if form < 0.9 else "SAtomDec", a, ("EModP", self.expr(cx, 1), size)))
            elif k == "if":
                c = self.expr(cx, 2)
                saved = set(cx["locals_set"])
                a = self.stmts(cx, r.randint(1, 2), depth - 1, in_first, loopvars)
                b = self.stmts(cx, r.randint(0, 2), depth - 1, in_first, loopvars)
                cx["locals_set"] = saved | set()      # locals first set inside a branch still read 0 otherwise: fine
                out.append(("SIf", c, a, b))
            elif k == "first":
                out.append(("SFirst", self.stmts(cx, r.randint(1, 3), depth - 1, True, loopvars)))
            elif k == "for" and free_locals:
                j = r.choice(free_locals)
                if r.random() < 0.5 and cx["nargs"]:
                    b = ("BArg", r.randrange(cx["nargs"]))
                else:
                    b = ("BConst", r.randint(0, 4))
                cx["locals_set"].add(j)
                out.append(("SFor", j, b, self.stmts(cx, r.randint(1, 2), depth - 1, in_first, loopvars + (j,))))
        return out

    def kernel(self):
        r = self.r
        nargs = r.randint(1, 3)
        args = [r.choice([1, 2, 2, 3, 3, 4, 5, 6]) for _ in range(nargs)]
        narr = r.randint(2, 5)
        need = [1] * narr                # minimal size per array
        nob = r.choice([1, 1, 1, 1, 2, 2, 3])
        obs = []
        written_before = set()
        for q in range(nob):
            odims, oext = self.pick_dims(args, 24)
            idims, iext = self.pick_dims(args, 32)
            NO = 1
            for e in oext:
                NO *= e
            MI = 1
            for e in iext:
                MI *= e
            # kinds
            kinds = []
            for a in range(narr):
                x = r.random()
                if x < 0.35:
                    kinds.append(("i", 0))
                elif x < 0.65:
                    kinds.append(("t", r.choice([1, 1, 2])))
                elif x < 0.78:
                    kinds.append(("b", r.choice([1, 2])))
                elif x < 0.9:
                    kinds.append(("a", 0))
                else:
                    kinds.append(("n", 0))
            if not any(k in "tba" for k, _ in kinds):
                kinds[r.randrange(narr)] = ("t", 1)
            for a, (k, st) in enumerate(kinds):
                if k == "t":
                    need[a] = max(need[a], NO * MI * st)
                elif k == "b":
                    need[a] = max(need[a], NO * st)
                elif k == "a":
                    need[a] = max(need[a], r.randint(1, 3))
            nsh = r.choice([0, 1, 1, 2])
            shared = []
            for s in range(nsh):
                st = r.choice([1, 1, 2])
                pad = r.choice([0, 0, 1, 3])
                size = MI * st + pad
                if st == 2 and pad == 3:
                    size = 4096 if MI % 2 == 0 else 5000       # a large @shared array now and then (C21: storage class)
                shared.append((st, size))
            nexc = r.choice([0, 1, 1, 2])
            nloc = r.randint(1, 4)
            nsec = r.choice([1, 2, 2, 3, 3]) if (nsh or nexc) else r.choice([1, 1, 2])
            attrs = []
            if r.random() < 0.3:
                # @max_inner_dims lists the inner-most @inner loop first
                rev = list(reversed(iext))
                rev[0] += r.choice([0, 0, 1, 2])
                attrs.append("m" + "x".join(map(str, rev)))
            if r.random() < 0.15:
                attrs.append("s%d" % r.choice([8, 16, 32]))
            if q == 0 and r.random() < 0.3:
                attrs.append("r")
            secs = []
            sh_written = set()           # shared arrays fully written in earlier sections
            exc_set = set()
            for sidx in range(nsec):
                # which shared arrays this section writes (fully, at the top)
                wr = [s for s in range(nsh) if s not in sh_written and r.random() < 0.7] if sidx < nsec - 1 or r.random() < 0.3 else []
                if sidx > 0 and r.random() < 0.25:
                    wr += [s for s in sh_written if r.random() < 0.4 and s not in wr]
                cx = dict(nargs=nargs, nod=len(odims), nid=len(idims), nloc=nloc, nexc=nexc,
                          locals_set=set(), exc_set=set(exc_set),
                          kin=[(a, None) for a, (k, _) in enumerate(kinds) if k == "i"],
                          kthr=[(a, st) for a, (k, st) in enumerate(kinds) if k == "t"],
                          kblk=[(a, st) for a, (k, st) in enumerate(kinds) if k == "b"],
                          katom=[(a, None) for a, (k, _) in enumerate(kinds) if k == "a"],
                          sh_read=[(s, MI * shared[s][0]) for s in sorted(sh_written) if s not in wr],
                          sh_own=[(s, shared[s][0]) for s in sorted(sh_written) if s not in wr])
                # sizes for modular indices are fixed later (need[] may still grow): use placeholders resolved below
                body = []
                if sidx == 0:
                    for x in range(nexc):
                        body.append(("SExc", x, self.expr(cx, 2)))
                        cx["exc_set"].add(x)
                    exc_set = set(range(nexc))
                for s in wr:
                    for d in range(shared[s][0]):
                        body.append(("SWrSh", s, d, self.expr(cx, 2)))
                    cx["sh_own"] = cx["sh_own"] + [(s, shared[s][0])]
                body += self.stmts(cx, r.randint(1, 4), 2)
                flags = r.choice(["N", "N", "B"])
                secs.append(dict(wr=sorted(wr), flags=flags, body=body))
                sh_written |= set(wr)
            obs.append(dict(odims=odims, idims=idims, kinds=kinds, shared=shared, nexc=nexc, nloc=nloc, attrs=attrs, secs=secs))
        garr = [n + r.choice([0, 0, 1, 2]) for n in need]
        K = dict(name=self.name, args=args, garr=garr, obs=obs)
        fix_sizes(K)
        return K


def fix_sizes(K):
    """EModP placeholders (size None) of global reads / atomics get the array's final size"""
    def fe(e):
        t = e[0]
        if t == "EBin":
            return ("EBin", e[1], fe(e[2]), fe(e[3]))
        if t == "EModP":
            return ("EModP", fe(e[1]), e[2])
        if t == "ERdG":
            i = e[2]
            if i[0] == "EModP" and i[2] is None:
                i = ("EModP", fe(i[1]), K["garr"][e[1]])
            else:
                i = fe(i)
            return ("ERdG", e[1], i)
        if t == "ERdSh":
            return ("ERdSh", e[1], fe(e[2]))
        return e

    def fs(s):
        t = s[0]
        if t in ("SLoc", "SExc"):
            return (t, s[1], fe(s[2]))
        if t in ("SWrOwn", "SWrBlk", "SWrSh"):
            return (t, s[1], s[2], fe(s[3]))
        if t in ("SAtom", "SAtomInc", "SAtomDec"):
            i = s[2]
            if i[0] == "EModP" and i[2] is None:
                i = ("EModP", fe(i[1]), K["garr"][s[1]])
            else:
                i = fe(i)
            return ("SAtom", s[1], i, fe(s[3])) if t == "SAtom" else (t, s[1], i)
        if t == "SIf":
            return ("SIf", fe(s[1]), [fs(x) for x in s[2]], [fs(x) for x in s[3]])
        if t == "SFirst":
            return ("SFirst", [fs(x) for x in s[1]])
        if t == "SFor":
            return ("SFor", s[1], s[2], [fs(x) for x in s[3]])
        return s
    for ob in K["obs"]:
        for sec in ob["secs"]:
            sec["body"] = [fs(x) for x in sec["body"]]


FIXED = [
    # block reduction through @shared + barrier, @exclusive carried across inner loops, @atomic accumulation
    "kf1 args:3,4 garr:12,12,1,3 ob:a0:a1:i,t1,a,b1:1x8:1:2:- sec:0:N X0=(g0[((o0*p1)+i0)]+1) S0.0=(x0*2) "
    "sec:-:B L0=0 R1,a1{L0=(l0+s0[l1])} I((3<l0)){O1.0=(l0+x0)}{O1.0=x0} A2[0]+=x0 F{B3.0=l0}",
    # two nested @outer and two nested @inner loops, compile-time inner extents, exclusives in a 2-D inner nest
    "kf2 args:2 garr:48,48 ob:c3,a0:c2,c4:i,t1:-:2:1:- sec:-:N X0=((o0*10)+o1) X1=((i0*4)+i1) "
    "sec:-:N O1.0=(((x0*100)+(x1*7))+g0[m((x0+x1),48)])",
    # two outer blocks: the second consumes what the first wrote
    "kf3 args:4,2 garr:8,8,2 ob:a0:a1:i,t1,n:-:0:1:- sec:-:N O1.0=(g0[((o0*p1)+i0)]*3) "
    "ob:c2:c4:n,i,b1:1x4:0:2:- sec:0:N S0.0=g1[((o0*4)+i0)] sec:-:N F{L0=0;R1,c4{L0=(l0+s0[l1])};B2.0=l0}",
    # helper function, @restrict, @max_inner_dims with run-time inner extent, @simd_length
    "kf4 args:5,3 garr:15,15 ob:a1:a0:i,t1:1x5:1:1:m8+s16+r sec:0:N X0=(g0[i0]#o0) S0.0=(x0-i0) "
    "sec:-:N O1.0=(s0[m((i0+1),5)]#x0)",
    # three nested @outer and three nested @inner loops with literal inner extents (exclusive arrays exactly 24 long),
    # @exclusive values carried over a barrier, @shared written by every inner tuple and read rotated by one
    "kf6 args:2 garr:192,192 ob:c2,a0,c2:c2,c3,c4:i,t1:1x24:2:1:- sec:0:N X0=(((o0*100)+(o1*10))+o2) "
    "X1=(((i0*100)+(i1*10))+i2) S0.0=(x1+1) sec:-:N O1.0=(((x0*1000)+x1)+s0[m((((i0*12)+((i1*4)+i2))+1),24)])",
    # three nested @inner loops with a run-time extent and @max_inner_dims, three inner nests, block result by inner tuple 0
    "kf7 args:3,2 garr:36,36,2 ob:a1:a1,a0,c2:i,t1,b1:1x12:1:2:m2x3x2 sec:0:N X0=((i0*9)+((i1*3)+i2)) S0.0=(x0+g0[i1]) "
    "sec:-:B O1.0=(x0*2) sec:-:N O1.0=(w1.0+x0) F{L0=0;R1,c12{L0=(l0+s0[l1])};B2.0=l0}",
    # an inner loop that only READS @shared, followed by one that rewrites it (the implied barrier between them matters)
    "kf8 args:4 garr:16,16 ob:a0:c4:i,t1:1x4:0:1:- sec:0:N S0.0=(g0[((o0*4)+i0)]+i0) sec:-:N O1.0=s0[m((i0+1),4)] "
    "sec:0:N S0.0=(w1.0*2) sec:-:N O1.0=(w1.0+s0[m((i0+3),4)])",
    # @atomic ++x / --x
    "kf5 args:3 garr:4,2 ob:a0:c4:i,a:-:0:1:- sec:-:N A1[0]++ I((i0<2)){A1[1]--}{A1[1]+=g0[i0]}",
]

# the known finding: 1100 inner iterations with run-time bounds and an @exclusive variable
KF_EXCL = "kx1 args:1,1030 garr:1030,1030 ob:a0:a1:i,t1:-:1:0:- sec:-:N X0=(g0[i0]+1) sec:-:N O1.0=x0"


def view(obs):
    return obs


def case_of(line):
    try:
        return O.parse_case(line)
    except Exception:
        return None


def sig_excl_runtime_inner_gt_1024(case):
    """an outer block with an @exclusive variable whose inner extents are not all literals, without @max_inner_dims,
    run with more than 1024 inner iterations"""
    K = case_of(case)
    if K is None:
        return False
    for ob in K["obs"]:
        if ob["nexc"] < 1 or all(b[0] == "BConst" for b in ob["idims"]):
            continue
        if any(a.startswith("m") for a in ob["attrs"]):
            continue
        mi = 1
        for b in ob["idims"]:
            mi *= O.extent(K, b)
        if mi > 1024:
            return True
    return False


SIGNATURES = {"excl_runtime_inner_gt_1024": sig_excl_runtime_inner_gt_1024}

_orig_load = C.load_known_findings


def _load_known(prop):
    res = _orig_load(prop)
    for pr in ("C20", "C21"):
        p = os.path.join(C.VERIF, "docs", "notes", "%s.known" % pr)
        if prop == pr and os.path.exists(p):
            have = set(k["signature"] for k in res)
            for line in open(p):
                line = line.strip()
                if not line or line.startswith("#"):
                    continue
                parts = [x.strip() for x in line.split("|")]
                if len(parts) >= 4 and parts[0] == pr and parts[1] not in have:
                    res.append(dict(prop=parts[0], signature=parts[1], input=parts[2], what=" | ".join(parts[3:])))
                    have.add(parts[1])
    return res


C.load_known_findings = _load_known

_orig_shrink = C.shrink_tokens


def _bounded_shrink(tokens, still_fails, keep_first=0, max_rounds=200):
    line = " ".join(tokens)
    if any(f(line) for f in SIGNATURES.values()):
        return list(tokens)        # a known finding as it stands: every shrinking step would re-run seven back ends
    return _orig_shrink(tokens, still_fails, keep_first=keep_first, max_rounds=int(os.environ.get("VERIF_SHRINK", "10")))


C.shrink_tokens = _bounded_shrink


def gen_cases(seed, n, tag):
    rng = random.Random(seed * 7919 + 20)
    out = []
    for k in range(n):
        K = Gen(rng, "k%s%d_%d" % (tag, seed, k)).kernel()
        out.append(O.show_case(K))
    return out


def atomic_text_check(cases, trexe, env, root):
    """(T) every @atomic statement of the OKL source must be an atomic operation in each translation.  Returns
    {mode: [kernel names whose translation contains a plain `+=` on an @atomic target]}"""
    import subprocess
    bad = {}
    work = []
    for n, line in enumerate(cases):
        K = case_of(line)
        if K is None:
            continue
        targets = set()

        def walk(ss):
            for s in ss:
                if s[0] in ("SAtom", "SAtomInc", "SAtomDec"):
                    targets.add(s[1])
                elif s[0] == "SIf":
                    walk(s[2]); walk(s[3])
                elif s[0] == "SFirst":
                    walk(s[1])
                elif s[0] == "SFor":
                    walk(s[3])
        for ob in K["obs"]:
            for sec in ob["secs"]:
                walk(sec["body"])
        if not targets:
            continue
        d = os.path.join(root, "t%d" % n)
        os.makedirs(d, exist_ok=True)
        okl = os.path.join(d, K["name"] + ".okl")
        open(okl, "w").write(O.okl_text(K))
        for m in MODES:
            work.append((K["name"], m, sorted(targets), okl, os.path.join(d, m + ".k")))
    if not work:
        return bad, 0
    p = subprocess.run([trexe], input="\n".join("%s %s %s -" % (m, okl, outk) for _, m, _, okl, outk in work) + "\n",
                       env=env, text=True, stdout=subprocess.PIPE, stderr=subprocess.PIPE)
    for name, m, targets, okl, outk in work:
        if not os.path.exists(outk):
            continue
        lines = open(outk).read().splitlines()
        for i, l in enumerate(lines):
            for a in targets:
                if re.search(r"^\s*(g%d\[.*\]\s*\+=|(\+\+|--)g%d\[)" % (a, a), l):
                    prev = lines[i - 1] if i else ""
                    if not re.search(r"#pragma omp (atomic|critical)", prev):
                        bad.setdefault(m, []).append(name)
    return bad, len(work)


def setup():
    C.build_lib("plain")
    C.build_driver(PROP, flavour="plain", extra=["-fsanitize=address"])
    C.build_driver("C20_tr", flavour="plain")
    C.build_model(PROP)


class Diff(C.Differential):
    def fails_spec(self, i_obs, s_obs):
        if s_obs.startswith("S SKIP") or s_obs.startswith("S BADCASE") or s_obs == "":
            return False
        return i_obs[2:] != s_obs[2:]


def run(run, tier, seed, replay_case=None):
    C.build_lib("plain")
    drv = C.build_driver(PROP, flavour="plain", extra=["-fsanitize=address"])
    trexe = C.build_driver("C20_tr", flavour="plain")
    pr = C.coq_properties(PROP, dirs=[PROP], extra_targets=["C20/Extract.vo"])
    run.add_proof(pr, CHECKER)
    run.coverage["trusted_base"] = TRUSTED
    model = C.build_model(PROP)

    n = int(os.environ.get("VERIF_N", "0")) or (12 if tier == "quick" else 120)
    cases = list(C.load_corpus(PROP)) + list(FIXED) + [KF_EXCL] + gen_cases(seed, n, "q" if tier == "quick" else "t")
    if replay_case is not None:
        cases = [replay_case]

    root = os.path.join(C.WORK, "C20-tmp", "%d-%d" % (os.getpid(), int(time.time())))
    os.makedirs(root, exist_ok=True)
    env = C.lib_env("plain")
    env["C20_TMP"] = root
    env["C20_MODES"] = os.environ.get("C20_MODES", ",".join(MODES))
    wrapper = ["python3", os.path.join(C.VERIF, "tools", "C20_run.py"), drv, trexe]

    class D2(Diff):
        def eval(self, lines, parallel=True):
            R, S = C.run_model(self.model_exe, lines, timeout=1800)
            # the runner batches and parallelises internally: give it chunks of 30 kernels
            I = []
            for k in range(0, len(lines), 30):
                I += C.run_impl_isolating(self.impl_cmd, lines[k:k + 30], env=self.env, timeout=self.impl_timeout)
            # cases the model declines (SKIP/BADCASE) are not part of the correspondence either
            R = [i if (s.startswith("S SKIP") or s.startswith("S BADCASE")) else r for i, r, s in zip(I, R, S)]
            return I, R, S

    try:
        D = D2(run, PROP, wrapper, model, env, view=view, signatures=SIGNATURES, keep_first=3,
               model_desc="extracted run_launch under a pseudo-random schedule vs the seven translations", impl_timeout=3000)
        I, R, S = D.eval(cases)
        D.judge(cases, I, R, S, proof_failures=pr["failures"], max_report=3)
        # (T) @atomic must stay atomic in every translation
        tenv = dict(os.environ)
        tenv.update(env)
        bad, nchecked = atomic_text_check(cases, trexe, tenv, root)
        known = C.load_known_findings(PROP)
        kf = [k for k in known if k["signature"] == "atomic_dropped_opencl_metal"]
        kfmodes = sorted(m for m in bad if m in ("opencl", "metal"))
        if kfmodes and kf:
            run.known_finding("%s [signature atomic_dropped_opencl_metal, modes %s, e.g. kernel %s]" % (
                kf[0]["what"], "+".join(kfmodes), bad[kfmodes[0]][0]))
        for m, names in sorted(bad.items()):
            if m == "serial" or (m in ("opencl", "metal") and kf):
                continue            # Serial runs one thread: a plain += is the atomic update there
            run.violation("the %s translation emits a plain += for an @atomic statement (kernel %s)" % (m, names[0]),
                          "property C20 (@atomic updates must be atomic in every translation) fails on the text emitted by /repo\n"
                          "mode: %s\ncase: %s\n" % (m, [c for c in cases if c.startswith(names[0] + " ")][0]))
        run.coverage["atomic_translations_checked"] = nchecked
    finally:
        shutil.rmtree(root, ignore_errors=True)

    cov = run.coverage
    vals = [s for s in S if s.startswith("S V")]
    cov["evaluations"] = len(cases) * len(MODES)
    cov["kernels"] = len(cases)
    cov["kernels_with_value"] = len(vals)
    cov["kernels_skipped_by_model"] = len([s for s in S if s.startswith("S SKIP")])
    feats = dict(shared=0, exclusive=0, atomic=0, two_d=0, multi_outer=0, first=0, runtime_inner=0)
    for c, s in zip(cases, S):
        if not s.startswith("S V"):
            continue
        feats["shared"] += (" S" in c and "sec:-" not in c.split(" sec:")[1][:6]) or bool(re.search(r" sec:[0-9]", c))
        feats["exclusive"] += bool(re.search(r" X[0-9]", c))
        feats["atomic"] += " A" in c
        feats["two_d"] += bool(re.search(r"ob:[ca][0-9]+,[ca]|ob:[^:]*:[ca][0-9]+,[ca]", c))
        feats["multi_outer"] += c.count(" ob:") > 1
        feats["first"] += " F{" in c or ";F{" in c
        feats["runtime_inner"] += bool(re.search(r"ob:[^:]*:[^:]*a[0-9]", c))
    cov["features"] = feats
    cov["distinct_nontrivial"] = len(set(c.split(" ", 1)[1] for c, s in zip(cases, S) if s.startswith("S V")
                                         and (re.search(r" sec:[0-9]| X[0-9]| A[0-9]", c) or c.count(" sec:") > 1)))
    cov["rule"] = ("generated mini-OKL kernels (1-3 outer blocks, 1-2 nested @outer and @inner loops with literal or run-time "
                   "extents, 1-3 inner loops per block, locals, if, plain for, @exclusive, @shared with explicit or implied "
                   "barriers, block reductions under `if (inner index == 0)`, @atomic +=, helper function, @restrict, "
                   "@max_inner_dims, @simd_length), each translated for 7 modes and executed; evaluations = kernels x modes; "
                   "non-trivial = uses @shared, @exclusive, @atomic or more than one inner loop; distinct = distinct case text")
    cov["samples"] = [dict(case=cases[i][:500], impl=I[i][:300], model=R[i][:300], spec=S[i][:300])
                      for i in sorted(set([0, len(cases) // 2, len(cases) - 1]))]
    run.assumptions = ["int data only; + - * wrap (kernels compiled with -fwrapv)",
                       "all inner loops of one outer block have the same extents; extents >= 1",
                       "GPU back ends are emulated on the host (drivers/C20_emul.hpp), no GPU tool chain is installed",
                       "cases whose sequential reading reads uninitialised @shared/@exclusive cells or leaves an array are "
                       "skipped (the extracted in_bounds / two-fill-value test decides)"]


def replay(run, path):
    case = C.replay_case_from_file(path)
    if case is None:
        print("no case in replay file")
        return 2
    globals()["run"](run, "quick", run.seed, replay_case=case)
    for s in run.coverage.get("samples", [])[:1]:
        print("replayed: %s\nimplementation: %s\nmodel:          %s\nspecification:  %s" % (s["case"], s["impl"], s["model"], s["spec"]))
    return run.finish()
