"""C21 — OpenMP kernels are deterministic for every thread count and schedule (DESIGN.md 5/C21)."""
import os, random, re, shutil, sys, time
from vlib import common as C
from props import C20 as P20

sys.path.insert(0, os.path.join(C.VERIF, "tools"))
import C20_okl as O

PROP = "C21"
CHECKER = "make -C /verif/coq -k C21/Properties_C21.vo C21/Extract.vo  (coqc 8.16.1, full .vo)"
TRUSTED = [
    "Coq 8.16.1 kernel incl. vm_compute; no native_compute",
    "coq/C21/Model.v as the OpenMP reading of the emitted source: one task per iteration of the loop under `#pragma omp "
    "parallel for`, tasks interleaved at statement granularity, declarations inside the loop body private to the iteration, "
    "`#pragma omp atomic` = one indivisible step; its structural premises (pragma placement, declarations inside the loop, "
    "atomic pragmas) are checked on every emitted source by tools/C21_emit.py (line-shape based, refuses unknown lines)",
    "the mini-OKL of coq/C20/Lang.v as the meaning of the generated OKL text (tools/C20_okl.py printer, "
    "extract/C20/driver.ml parser shared with extract/C21/driver.ml)",
    "g++ 12 / libgomp as the OpenMP implementation; real schedules are sampled (OMP_NUM_THREADS through the library; "
    "OMP_SCHEDULE on a copy of the emitted source whose pragmas get `schedule(runtime)`)",
    "drivers/C20.cpp, drivers/C20_tr.cpp, extraction (ExtrOcamlBasic) + extract/C21/driver.ml + extract/zutil.ml",
]

META = dict(
    level="Coq theorems over all kernels of C20's mini-OKL that pass the syntactic independence check and ALL schedules "
          "of the OpenMP reading (a task per outer iteration, any interleaving of the tasks' statement-level steps, hence "
          "any thread count / chunking / schedule kind): final memory = Serial reading (omp_eq_serial, as a corollary of "
          "C20's confluence theorem because every OpenMP schedule is a schedule of the launch model), complete schedules "
          "exist, concurrently enabled steps never race on global memory (race_free), a task's @shared/@exclusive/local "
          "state is untouched by other tasks, @atomic updates are never lost when they are single steps "
          "(atomic_not_lost) and ARE lost under some schedule when the pragma is missing (Example).  The structural "
          "premises are checked on every emitted OpenMP source; real runs sample 1-16 threads and static/dynamic/guided "
          "schedules against the Serial translation.",
    note="partial: real schedules are sampled; the theorem covers all schedules of the model.  The emitted pragma has no "
         "schedule clause, so OMP_SCHEDULE is exercised on a copy of the emitted source with `schedule(runtime)` appended. "
         "ThreadSanitizer is not used (libgomp is not instrumented).",
    technique="Coq interleaving semantics + confluence (shared with C20); translator check of the emitted pragmas; "
              "differential execution Serial vs OpenMP under sampled thread counts and schedules, with AddressSanitizer",
    design_ref="DESIGN.md section 5, C21")

FIXED = P20.FIXED + [
    # many outer iterations, every one adds into two shared counters and writes its own cells
    "kg1 args:16,3 garr:48,2,48 ob:a0:a1:i,a,t1:-:1:1:- sec:-:N X0=(g0[((o0*p1)+i0)]*3) A1[m(i0,2)]+=x0 "
    "sec:-:N O2.0=(x0+o0) A1[0]+=1",
    # @shared + @exclusive per outer iteration, 12 iterations
    "kg2 args:12,4 garr:48,48,12 ob:a0:a1:i,t1,b1:1x4:1:2:- sec:0:N X0=g0[((o0*4)+i0)] S0.0=(x0+o0) "
    "sec:-:N L0=0 R1,c4{L0=(l0+s0[l1])} O1.0=(l0-x0) F{B2.0=l0}",
    # large @shared arrays (4096 and 5000 ints): every outer iteration fills its own copy, then reads its neighbours' cells
    # after the barrier; 16 outer iterations, so any storage shared between iterations shows with more than one thread
    "kg3 args:16 garr:128,128 ob:a0:c8:i,t1:512x4096,625x5000:0:1:- sec:0,1:N S0.0=((o0*100)+i0) S0.511=((o0*7)-i0) "
    "S1.0=(g0[((o0*8)+i0)]+o0) S1.624=(o0*o0) sec:-:N O1.0=((s0[m((((i0+1)*512)+511),4096)]*3)+s1[m((((i0+5)*625)+624),5000)]) "
    "sec:-:B O1.0=((w1.0+s0[m(((i0+3)*512),4096)])-s1[m(((i0+2)*625),5000)])",
]


def setup():
    P20.setup()


def build_c21_model():
    ed = C.extract_dir(PROP)
    shared = open(os.path.join(C.VERIF, "extract", "C20", "driver.ml")).read().split("(*SPLIT")[0]
    own = open(os.path.join(C.VERIF, "extract", PROP, "driver.ml")).read()
    path = os.path.join(ed, "driver_c21.ml")
    txt = shared + "\n" + own
    if not os.path.exists(path) or open(path).read() != txt:
        open(path, "w").write(txt)
    return C.build_model(PROP, driver_ml=path)


class Diff(P20.Diff):
    pass


def run(run, tier, seed, replay_case=None):
    C.build_lib("plain")
    drv = C.build_driver("C20", flavour="plain", extra=["-fsanitize=address"])
    trexe = C.build_driver("C20_tr", flavour="plain")
    pr = C.coq_properties(PROP, dirs=[PROP, "C20"], extra_targets=["C21/Extract.vo"])
    run.add_proof(pr, CHECKER)
    run.coverage["trusted_base"] = TRUSTED
    model = build_c21_model()

    n = int(os.environ.get("VERIF_N", "0")) or (12 if tier == "quick" else 120)
    rng = random.Random(seed * 7919 + 21)
    gen = []
    for k in range(n):
        K = P20.Gen(rng, "k%s%d_%d" % ("u" if tier == "quick" else "w", seed, k)).kernel()
        gen.append(O.show_case(K))
    cases = list(C.load_corpus(PROP)) + list(FIXED) + gen
    if replay_case is not None:
        cases = [replay_case]

    root = os.path.join(C.WORK, "C21-tmp", "%d-%d" % (os.getpid(), int(time.time())))
    os.makedirs(root, exist_ok=True)
    env = C.lib_env("plain")
    env["C20_TMP"] = root
    if tier == "quick":
        env.setdefault("C21_THREADS", os.environ.get("C21_THREADS", "1,2,4,16"))
        env.setdefault("C21_REPS", os.environ.get("C21_REPS", "1"))
        env.setdefault("C21_SCHEDULES", os.environ.get("C21_SCHEDULES", "static,1@3;dynamic,1@4;dynamic,2@16;guided@7;static@5"))
    else:
        env.setdefault("C21_THREADS", os.environ.get("C21_THREADS", "1,2,3,4,5,7,8,11,16"))
        env.setdefault("C21_REPS", os.environ.get("C21_REPS", "2"))
        env.setdefault("C21_SCHEDULES", os.environ.get(
            "C21_SCHEDULES", "static,1@2;static,1@3;static,2@5;static,3@16;static@7;dynamic,1@2;dynamic,1@4;dynamic,2@16;"
                             "dynamic,3@8;guided@7;guided,2@16;auto@6"))
    wrapper = ["python3", os.path.join(C.VERIF, "tools", "C21_emit.py"), drv, trexe]

    class D2(Diff):
        def eval(self, lines, parallel=True):
            R, S = C.run_model(self.model_exe, lines, timeout=1800)
            I = []
            for k in range(0, len(lines), 40):
                I += C.run_impl_isolating(self.impl_cmd, lines[k:k + 40], env=self.env, timeout=self.impl_timeout)
            R = [i if (s.startswith("S SKIP") or s.startswith("S BADCASE")) else r for i, r, s in zip(I, R, S)]
            return I, R, S

    try:
        D = D2(run, PROP, wrapper, model, env, view=lambda o: o, signatures=P20.SIGNATURES, keep_first=3,
               model_desc="extracted run_omp under a pseudo-random thread schedule vs the OpenMP translation under sampled "
                          "thread counts and schedules", impl_timeout=3000)
        I, R, S = D.eval(cases)
        D.judge(cases, I, R, S, proof_failures=pr["failures"], max_report=3)
    finally:
        shutil.rmtree(root, ignore_errors=True)

    cov = run.coverage
    nthreads = len(env["C21_THREADS"].split(",")) * int(env["C21_REPS"])
    nsched = len([x for x in env["C21_SCHEDULES"].split(";") if x])
    vals = [s for s in S if s.startswith("S V")]
    cov["evaluations"] = len(cases) * (1 + nthreads + nsched)
    cov["kernels"] = len(cases)
    cov["kernels_with_value"] = len(vals)
    cov["runs_per_kernel"] = dict(serial=1, openmp_library_thread_counts=nthreads, standalone_schedules=nsched)
    cov["thread_counts"] = env["C21_THREADS"]
    cov["schedules"] = env["C21_SCHEDULES"]
    cov["distinct_nontrivial"] = len(set(c.split(" ", 1)[1] for c, s in zip(cases, S) if s.startswith("S V")
                                         and (re.search(r" A[0-9]| sec:[0-9]| X[0-9]", c))))
    cov["rule"] = ("C20's generated mini-OKL kernels; per kernel the structural check T1-T3 of the emitted OpenMP source, one "
                   "Serial run, OpenMP runs through the library for each thread count (x repetitions) and runs of the emitted "
                   "source with schedule(runtime) for each (OMP_SCHEDULE, threads) pair; evaluations = kernels x runs; "
                   "non-trivial = kernel uses @atomic, @shared or @exclusive; distinct = distinct case text")
    cov["samples"] = [dict(case=cases[i][:500], impl=I[i][:300], model=R[i][:300], spec=S[i][:300])
                      for i in sorted(set([0, len(cases) // 2, len(cases) - 1]))]
    run.assumptions = ["int data only; + - * wrap (-fwrapv)", "g++/libgomp as the OpenMP implementation",
                       "a schedule(runtime) clause does not change which iterations exist, only who runs them (OpenMP 5.0, 2.9.2)",
                       "cases the model skips (uninitialised reads, out-of-bounds) are not compared"]


def replay(run, path):
    case = C.replay_case_from_file(path)
    if case is None:
        print("no case in replay file")
        return 2
    globals()["run"](run, "quick", run.seed, replay_case=case)
    for s in run.coverage.get("samples", [])[:1]:
        print("replayed: %s\nimplementation: %s\nmodel:          %s\nspecification:  %s" % (s["case"], s["impl"], s["model"], s["spec"]))
    return run.finish()
