"""C10 — kernel argument validation accepts exactly the compatible argument lists (DESIGN.md 5/C10)."""
import os, random, re, shutil, time
from vlib import common as C

PROP = "C10"
FLAVOURS = ["asan", "plain"]
CHECKER = "make -C /verif/coq -k C10/Properties_C10.vo C10/Extract.vo  (coqc 8.16.1, full .vo)"
TRUSTED = [
    "Coq 8.16.1 kernel incl. vm_compute; no native_compute",
    "hand transcription of modeKernel_t::setupRun (src/occa/internal/core/kernel.cpp), dtype_t::canBeCastedTo / isCyclic "
    "(src/dtype/dtype.cpp, shared with coq/C11/Model.v), vartype_t::dtype / isPointerType and primitive/typedef/struct "
    "::dtype() (src/occa/internal/lang/type/*.cpp), parser_t::setSourceMetadata, and of the metadata's way through "
    "build.json (C11's k_toJson / k_fromJson) into coq/C10/Model.v; tied by the differential run of this check",
    "extraction (ExtrOcamlBasic + ExtrOcamlString) + extract/C10/driver.ml + extract/zutil.ml",
    "drivers/C10.cpp (OKL source text generated from the case; public API only), drivers/C10_vec.hpp (host definitions of "
    "the OKL vector types, handed to g++ with -include), tools/C10_run.py (fresh process, then a new process on the same "
    "cache directory with OCCA_CXX=/bin/false)",
    "g++ as the JIT compiler of the Serial backend; the `plain` (-O2, uninstrumented) library flavour",
]

META = dict(
    level="Coq theorems: for every signature (list of (const, pointer, dtype)) and every argument list of memories with any "
          "dtype, null pointers and scalars, the transcribed setupRun accepts iff the list is compatible by the declarative "
          "rule (same length; memory/null <-> pointer parameter; flattened element lists equal or one a whole number of "
          "repetitions of the other; byte casts to anything) and rejects otherwise without crashing; the decision computed "
          "from metadata that went through build.json equals the fresh one for all signatures whose dtypes flatten to "
          "builtins (uses C11's round trip).  The model (incl. vartype_t::dtype for primitives, long/long long, typedefs, "
          "arrays, structs) is tied to the library by building generated OKL kernels on a Serial device and running "
          "generated argument lists in the building process and in a fresh process that loads them from the cache.",
    note="Needs fixes/C10-1..3.patch applied to /repo (zero-argument kernels validated when freshly built; `float x[]` "
         "parameters no longer crash the parser; isCyclic no longer divides by zero for dtypes that flatten to nothing). "
         "fresh=cached is partial: parameters whose type is unknown to getBuiltin (size_t, enums) get dtype::none / an enum "
         "object, which lose their identity in build.json (C11 finding registered_identity); no decision differs on the "
         "memory dtypes the check uses.  Trusted: Coq kernel, hand model (differential tie), extraction, drivers, g++.",
    technique="Coq decision-procedure-vs-declarative-rule proof + extracted-model/implementation differential correspondence "
              "on JIT-compiled kernels (fresh and cached)",
    design_ref="DESIGN.md section 5, C10")

PRIMS = ["bool", "char", "short", "int", "float", "double"]
VECS = [b + n for b in ("uchar", "char", "ushort", "short", "uint", "int", "ulong", "long", "float", "double") for n in "234"]
MEM_BUILTINS = ["float", "double", "int", "long", "char", "short", "bool", "byte", "int8", "uint16", "int32", "uint64",
                "float2", "float3", "float4", "double2", "double4", "int2", "int3", "int4", "uint4", "long2", "char4",
                "uchar2", "short3", "ushort4", "ulong3"]
SCALARS = ["i", "l", "f", "d", "b", "c", "r"]
BASE_OF = {"uchar": "char", "char": "char", "ushort": "short", "short": "short", "uint": "int", "int": "int",
           "ulong": "long", "long": "long", "float": "float", "double": "double",
           "int8": "char", "uint16": "short", "int32": "int", "uint64": "long", "bool": "bool", "byte": "byte"}


def flat_of_builtin(b):
    m = re.match(r"^([a-z]+)([234])$", b)
    if m:
        return [BASE_OF[m.group(1)]] * int(m.group(2))
    return [BASE_OF.get(b, b)]


def rprim(rng, allow_unknown=False):
    """-> (type token, flattened element names)"""
    x = rng.random()
    if x < 0.5:
        p = rng.choice(PRIMS)
        u = 1 if (p in ("char", "short", "int") and rng.random() < 0.25) else 0
        return "p:%s:0:%d" % (p, u), [p]
    if x < 0.65:
        lq = rng.choice([1, 2])
        return "p:int:%d:%d" % (lq, rng.choice([0, 0, 1])), ["long"]
    if x < 0.97 or not allow_unknown:
        v = rng.choice(VECS)
        return "p:%s:0:0" % v, flat_of_builtin(v)
    return "p:size_t:0:0", ["none"]


def rarrays(rng, allow_odd):
    x = rng.random()
    if x < 0.6:
        return "", 1
    if x < 0.85:
        n = rng.randint(1, 4)
        return str(n), n
    if x < 0.93 or not allow_odd:
        a, b = rng.randint(1, 3), rng.randint(1, 3)
        return "%dx%d" % (a, b), a * b
    if x < 0.97:
        return "_", 1          # float x[]  (fixes/C10-2)
    return "0", 0              # float x[0] (fixes/C10-3)


def gen_kernel(rng, kid):
    """-> (spec token, [(is_pointer, flattened element names)] per parameter)"""
    defs = []      # (text, flat, is_pointer)
    ndefs = rng.choice([0, 0, 1, 1, 2, 3])
    for i in range(ndefs):
        # (a typedef of a typedef name is not generated: the OKL printer emits `typedef typedef double T1 * T2;`
        #  for it, which no host compiler accepts; struct fields and parameters do use typedef names)
        base, flat = rprim(rng)
        isp = False
        if rng.random() < 0.35:
            # typedef struct { ... } Tk;   fields of non-pointer types
            fs = []
            sflat = []
            for j in range(rng.randint(1, 3)):
                if defs and rng.random() < 0.3:
                    cand = [q for q in range(len(defs)) if not defs[q][2]]
                    if cand:
                        q = rng.choice(cand)
                        ft, ff = "t:%d" % (q + 1), defs[q][1]
                    else:
                        ft, ff = rprim(rng)
                else:
                    ft, ff = rprim(rng)
                arr, n = rarrays(rng, False)
                fs.append("%s~%s~%s" % ("xyzw"[j], ft, arr))
                sflat += ff * n
            defs.append(("S=" + ",".join(fs), sflat, False))
        else:
            ptrs = 1 if rng.random() < 0.25 else 0
            arr, n = rarrays(rng, False)
            defs.append(("T=%s.%d.%s" % (base, ptrs, arr), flat * n, isp or ptrs > 0 or arr != ""))
    if rng.random() < 0.6:
        # aimed at isCyclic: a struct whose flattened fields are a block of 2-3 distinct element types repeated 1-3 times,
        # with (half of the time) one entry of a later repetition changed at position 0 or later
        blk = rng.sample(["float", "int", "double", "char", "short", "bool"], rng.choice([2, 2, 3]))
        reps = rng.choice([1, 2, 2, 3]) if len(blk) == 2 else rng.choice([1, 2, 2])
        fl = blk * reps
        if reps > 1 and rng.random() < 0.5:
            c = rng.randrange(1, reps)
            j = rng.randrange(1, len(blk)) if rng.random() < 0.7 else 0
            fl[c * len(blk) + j] = other_elem(rng, fl[c * len(blk) + j])
        defs.append(("S=" + ",".join("%s~p:%s:0:0~" % ("xyzwuvst"[j], e) for j, e in enumerate(fl)), fl, False))
    params = []
    sig = []
    for i in range(rng.choice([0, 1, 1, 2, 2, 3, 3, 4, 5])):
        if defs and rng.random() < 0.5:
            k = rng.randrange(len(defs))
            t, flat, isp = "t:%d" % (k + 1), defs[k][1], defs[k][2]
        else:
            t, flat = rprim(rng, allow_unknown=True)
            isp = False
        x = rng.random()
        if x < 0.55:
            ptrs, arr, n = rng.choice([1, 1, 1, 2]), "", 1
        elif x < 0.75:
            ptrs = 0
            arr, n = rarrays(rng, True)
        else:
            ptrs, arr, n = 0, "", 1
        params.append("%s.%s.%d.%s" % (rng.choice("cn"), t, ptrs, arr))
        sig.append((isp or ptrs > 0 or arr != "", flat * n))
    tv = 0 if rng.random() < 0.08 else 1
    spec = "K%d/%d/%s/%s" % (kid, tv, ";".join(d[0] for d in defs), ";".join(params))
    return spec, sig


ELEMS = ["float", "int", "double", "char", "long", "short", "bool"]


def other_elem(rng, e):
    return rng.choice([x for x in ELEMS if x != e])


def struct_spec(flat):
    return "S:" + "+".join(flat)


def flat_of_mem(spec):
    if spec.startswith("S:"):
        out = []
        for b in spec[2:].split("+"):
            out += flat_of_builtin(b)
        return out
    if spec.startswith("T:"):
        _, b, n = spec.split(":")
        return flat_of_builtin(b) * int(n)
    return flat_of_builtin(spec)


def divisors(n):
    return [d for d in range(1, n) if n % d == 0]


def mem_for(rng, flat):
    """A memory dtype aimed at the case split of canBeCastedTo / isCyclic against the parameter's flattened element
    list F (n entries): equal; k repetitions of F (exact, or with one entry of a LATER cycle changed at position 0 / at a
    position >= 1, or with an entry of the first cycle changed); a block F[:d] for d | n (a positive case when F is
    d-periodic, the negative case `later cycle of the parameter differs` otherwise), such a block with one entry changed;
    lengths that do not divide; the wildcard byte; unrelated builtins."""
    if not flat or "none" in flat:
        return rng.choice(MEM_BUILTINS)
    n = len(flat)
    uniform = len(set(flat)) == 1
    x = rng.random()
    if x < 0.12:
        if uniform and rng.random() < 0.6:
            return flat[0] if n == 1 else "T:%s:%d" % (flat[0], n)
        return struct_spec(flat)                                            # equal lists
    if x < 0.2 and uniform and flat[0] in ("float", "double", "int", "long", "char", "short"):
        k = rng.choice([2, 3, 4])
        vec = {"float": "float", "double": "double", "int": rng.choice(["int", "uint"]), "long": rng.choice(["long", "ulong"]),
               "char": rng.choice(["char", "uchar"]), "short": rng.choice(["short", "ushort"])}[flat[0]]
        return "%s%d" % (vec, k)                                            # builtin vector of the element type
    if x < 0.27 and uniform:
        return "T:%s:%d" % (flat[0], rng.choice([n * 2, n * 3, max(1, n - 1), n + 1, 1]))
    if x < 0.52 and n * 2 <= 12:
        # the memory is longer: k cycles of F
        k = rng.choice([2, 2, 3]) if n * 3 <= 12 else 2
        f2 = list(flat) * k
        y = rng.random()
        if y < 0.3:
            pass                                                            # exact multiple: accepted
        elif y < 0.6 and n >= 2:
            c, j = rng.randrange(1, k), rng.randrange(1, n)                 # later cycle, position >= 1
            f2[c * n + j] = other_elem(rng, f2[c * n + j])
        elif y < 0.8:
            c = rng.randrange(1, k)                                         # later cycle, position 0
            f2[c * n] = other_elem(rng, f2[c * n])
        else:
            j = rng.randrange(n)                                            # first cycle (the compared prefix)
            f2[j] = other_elem(rng, f2[j])
        return struct_spec(f2)
    if x < 0.74 and n >= 2:
        # the memory is shorter: a block of d | n entries of F
        # prefer block lengths d >= 2 at which the FIRST entries of F's cycles agree: the cyclic test then has to
        # look at the positions >= 1 of the later cycles
        cands = [q for q in divisors(n) if q >= 2 and all(flat[c * q] == flat[0] for c in range(n // q))]
        d = rng.choice(cands) if (cands and rng.random() < 0.6) else rng.choice(divisors(n))
        j0 = rng.choice([0, 0, d * rng.randrange(n // d)])                  # the first block, or a later one
        blk = list(flat[j0:j0 + d])
        y = rng.random()
        if y < 0.7:
            pass                          # accepted iff F is d-periodic; else a later cycle of F differs
        else:
            j = rng.randrange(d)
            blk[j] = other_elem(rng, blk[j])
        if d == 1 and rng.random() < 0.5:
            return blk[0]
        return struct_spec(blk)
    if x < 0.8:
        f2 = list(flat)
        f2[rng.randrange(n)] = rng.choice(ELEMS)                            # same length, one entry changed (or not)
        return struct_spec(f2) if n <= 12 else "byte"
    if x < 0.86:
        f2 = (list(flat) + list(flat[:rng.randint(1, max(1, n - 1))]))[:12] if rng.random() < 0.5 else list(flat[:-1]) or ["float"]
        return struct_spec(f2)                                              # lengths that do not divide
    if x < 0.91:
        return "byte"
    return rng.choice(MEM_BUILTINS)


def cast_class(m, p):
    """which branch of canBeCastedTo / isCyclic (= which case of the proof of cast_iff_rule) a (memory, parameter) pair of
    flattened lists exercises"""
    if m == ["byte"] or p == ["byte"]:
        return "byte"
    if len(m) == len(p):
        return "equal" if m == p else "same-length-differ"
    d = "mem-shorter:" if len(m) < len(p) else "mem-longer:"
    short, long_ = (m, p) if len(m) < len(p) else (p, m)
    n = len(short)
    if n == 0:
        return d + "empty"
    if len(long_) % n:
        return d + "not-a-multiple"
    cyc0 = all(long_[c * n] == long_[0] for c in range(len(long_) // n))
    cyc = all(long_[i] == long_[i % n] for i in range(len(long_)))
    if not cyc0:
        return d + "cycle-broken-at-0"
    if not cyc:
        return d + "cycle-broken-after-0"
    if long_[:n] != short:
        return d + "cyclic-but-prefix-differs"
    return d + "repeats"


def gen_call(rng, sig):
    x = rng.random()
    n = len(sig)
    if x < 0.1:
        n2 = max(0, n + rng.choice([-2, -1, 1, 1, 2]))     # wrong count
    else:
        n2 = n
    args = []
    for i in range(n2):
        isp, flat = sig[i] if i < n else rng.choice(sig + [(True, ["float"])])
        y = rng.random()
        if isp:
            if y < 0.78:
                args.append("m:" + mem_for(rng, flat))
            elif y < 0.88:
                args.append(rng.choice("zq"))
            else:
                args.append(rng.choice(SCALARS))
        else:
            if y < 0.8:
                args.append(rng.choice(SCALARS))
            elif y < 0.92:
                args.append("m:" + mem_for(rng, flat))
            else:
                args.append(rng.choice("zq"))
    return ",".join(args) if args else "-"


FIXED = [
    # the library's own example shape (addVectors), the zero-argument kernel, arrays, typedef chains
    "K9001/1//n.p:int:0:0.0.;c.p:float:0:0.1.;c.p:float:0:0.1.;n.p:float:0:0.1. "
    "i,m:float,m:float,m:float i,m:float,m:float,m:int i,m:float,m:float i,m:byte,m:float2,m:T:float:5 "
    "m:int,m:float,m:float,m:float d,z,q,m:float r,m:float,m:float,m:float -",
    "K9002/1// - i m:float z i,i",
    "K9003/1//n.p:float:0:0.0._;n.p:float:0:0.0.0;n.p:float:0:0.0.3 "
    "m:float,m:float,m:float m:int,m:byte,m:float3 m:float,m:byte,m:float2 m:float,z,m:T:float:6 m:float4,q,m:S:float+float+float",
    "K9004/1/T=p:double:0:0.0.;T=p:double:0:0.1.;T=p:double:0:0.0.2;S=x~t:1~,y~p:int:1:0~2/n.t:2.0.;c.t:3.0.;n.t:4.1.;n.t:1.0. "
    "m:double,m:double2,m:S:double+long+long,d m:double,m:double,m:S:double+long,d m:float,m:double,m:byte,d "
    "d,m:double,m:byte,d m:double,m:double,m:S:double+long+long+double+long+long,m:double",
    "K9005/0//n.p:int:0:0.1.;n.p:int:0:0.0. m:float,i i,i m:int,i",
    # the case split of isCyclic: parameter {float,int,float,double} / {float,int,float,int} / {float,int}[3] against
    # blocks, repetitions and repetitions with a late mismatch
    "K9006/1/S=x~p:float:0:0~,y~p:int:0:0~,z~p:float:0:0~,w~p:double:0:0~;S=x~p:float:0:0~,y~p:int:0:0~,z~p:float:0:0~,w~p:int:0:0~;"
    "S=x~p:float:0:0~,y~p:int:0:0~/n.t:1.1.;n.t:2.1.;c.t:3.0.3 "
    "m:S:float+int,m:S:float+int,m:S:float+int m:S:float+int+float+double,m:S:float+int+float+int,m:S:float+int+float+int+float+int "
    "m:float,m:S:float+double,m:S:float+int+float+double m:S:float+int+float+double+float+int+float+double,m:S:float+int+float+int+float+int+float+double,m:S:float+int+float+int "
    "m:S:float+int+float+double+float+int+float+int,m:S:float+int+float+int+float+int+float+int,m:S:float+int+float+int+float+int+float+int+float+int+float+int "
    "m:S:float+int+float+double+double+int+float+double,m:S:int+int,m:S:float+int+float+int+float+int+float+int+float+int+float+double "
    "m:S:float+int+float,m:S:float+int+float,m:S:float+int+float+int+float m:byte,m:S:float+int+double+int,m:S:float+int+float+double+float+int",
    "K9007/1/S=x~p:char:0:0~,y~p:short:0:0~,z~p:double:0:0~/n.t:1.0.2;n.t:1.0.2x2;c.t:1.1. "
    "m:S:char+short+double,m:S:char+short+double,m:S:char+short+double+char+short+double "
    "m:S:char+short+double+char+short+float,m:S:char+short+double+char+double+double,m:S:char+short+double+short+short+double "
    "m:S:char+short,m:S:char+short+double+char+short+double,m:S:char+short+double+char+short+double+char+short+double "
    "m:S:char+short+double+char+short+double+char+short+double+char+short+double,m:S:char+short+double+char+short+double+char+short+double+char+short+int,m:char",
]


def view(obs):
    """the oracle's view of an implementation line: the common verdicts when fresh and cached agree"""
    body = obs[2:]
    m = re.match(r"^F:([OE]*) C:([OE]*)$", body)
    if m:
        if m.group(1) == m.group(2):
            return "R V:" + m.group(1)
        return "R fresh and cached differ: " + body
    return obs


def sig_never(case):
    return False


SIGNATURES = {}

_orig_load = C.load_known_findings


def _load_known(prop):
    res = _orig_load(prop)
    p = os.path.join(C.VERIF, "docs", "notes", "%s.known" % PROP)
    if prop == PROP and os.path.exists(p):
        have = set(k["signature"] for k in res)
        for line in open(p):
            line = line.strip()
            if not line or line.startswith("#"):
                continue
            parts = [x.strip() for x in line.split("|")]
            if len(parts) >= 4 and parts[0] == PROP and parts[1] not in have:
                res.append(dict(prop=parts[0], signature=parts[1], input=parts[2], what=" | ".join(parts[3:])))
                have.add(parts[1])
    return res


C.load_known_findings = _load_known


def setup():
    C.build_lib("plain")
    C.build_driver(PROP, flavour="plain")
    C.build_model(PROP)


def run(run, tier, seed, replay_case=None):
    C.build_lib("plain")
    impl = C.build_driver(PROP, flavour="plain")
    pr = C.coq_properties(PROP, dirs=[PROP, "C11", "lib"], extra_targets=["C10/Extract.vo"])
    run.add_proof(pr, CHECKER)
    run.coverage["trusted_base"] = TRUSTED
    model = C.build_model(PROP)

    rng = random.Random(seed * 7919 + 10)
    nk = 24 if tier == "quick" else 400
    ncalls = 60 if tier == "quick" else 120
    cases = list(C.load_corpus(PROP)) + list(FIXED)
    classes = {}
    for k in range(nk):
        spec, sig = gen_kernel(rng, k + 1)
        calls = [gen_call(rng, sig) for _ in range(ncalls)]
        cases.append(spec + " " + " ".join(calls))
        for call in calls:
            for i, a in enumerate(call.split(",")):
                if a.startswith("m:") and i < len(sig) and sig[i][0]:
                    cl = cast_class(flat_of_mem(a[2:]), sig[i][1])
                    classes[cl] = classes.get(cl, 0) + 1
    if replay_case is not None:
        cases = [replay_case]

    root = os.path.join(C.WORK, "C10-cache", "%d-%d" % (os.getpid(), int(time.time())))
    counter = [0]
    base_env = C.lib_env("plain")
    base_env["C10_VEC_HEADER"] = os.path.join(C.VERIF, "drivers", "C10_vec.hpp")
    wrapper = ["python3", os.path.join(C.VERIF, "tools", "C10_run.py"), impl]

    class Diff(C.Differential):
        def eval(self, lines, parallel=True):
            # a fresh, empty cache directory per batch, shared by the batch's worker processes
            counter[0] += 1
            env = dict(base_env)
            env["C10_CACHE_DIR"] = os.path.join(root, "b%d" % counter[0])
            self.env = env
            R, S = C.run_model(self.model_exe, lines)
            if len(lines) > 1:
                I = C.run_impl_parallel(self.impl_cmd, lines, env=env, jobs=min(C.NPROC, len(lines)), timeout=self.impl_timeout)
            else:
                I = C.run_impl_isolating(self.impl_cmd, lines, env=env, timeout=self.impl_timeout)
            return I, R, S

    try:
        D = Diff(run, PROP, wrapper, model, base_env, view=view, signatures=SIGNATURES, keep_first=1,
                 model_desc="coq/C10/Model.v vs kernel.cpp setupRun + dtype.cpp canBeCastedTo + vartype.cpp dtype() + "
                            "parser.cpp setSourceMetadata + build.json", impl_timeout=1800)
        I, R, S = D.eval(cases)
        D.judge(cases, I, R, S, proof_failures=pr["failures"], max_report=4)
    finally:
        shutil.rmtree(root, ignore_errors=True)

    ncalls_total = sum(len(c.split()) - 1 for c in cases)
    sigs = set(c.split()[0].split("/", 1)[1] for c in cases)
    accepted = sum(l.count("O") for l in S)
    cov = run.coverage
    cov["evaluations"] = ncalls_total            # kernel.run decisions, each made twice (fresh, cached)
    cov["distinct_nontrivial"] = len(set((c.split()[0].split("/", 1)[1], call) for c in cases for call in c.split()[1:]
                                         if "m:" in call))
    cov["rule"] = ("generated OKL kernels (0-5 parameters over OKL primitive and vector types, unsigned / long / long long, "
                   "const, pointers, fixed arrays incl. [] and [0], typedef chains, typedef'd structs; 8% built with "
                   "type_validation:false), each JIT-compiled once on a Serial device; per kernel 60 (quick) / 120 argument "
                   "lists aimed at each parameter's flattened element list (equal, divisor, multiple, one element changed, "
                   "byte, null, scalar, wrong count; memory dtypes cover every branch of canBeCastedTo/isCyclic: k cycles "
                   "with a mismatch at position 0 / at a position >= 1 of a later cycle / in the compared prefix, blocks of "
                   "d | n entries of periodic and nearly periodic parameters, see cast_case_split), each run in the building process and in a fresh process loading the "
                   "kernel from the cache; non-trivial = a call that passes at least one typed memory; distinct = distinct "
                   "(signature, argument list)")
    # which branch of canBeCastedTo / isCyclic (= case of the proof of cast_iff_rule) the generated (memory dtype, pointer
    # parameter) pairs exercise; the fixed batch (K9006, K9007) contains every class by construction
    cov["cast_case_split"] = dict(sorted(classes.items()))
    cov["kernels_built"] = len(sigs)
    cov["calls_required_ok"] = accepted
    cov["calls_required_err"] = sum(l.count("E") for l in S)
    cov["samples"] = [dict(case=cases[i][:600], impl=I[i], model=R[i], spec=S[i]) for i in (0, len(cases) // 2, len(cases) - 1)]
    run.assumptions = ["Serial backend (the validation code is mode independent; OpenMP shares the Serial device code)",
                       "kernel bodies are empty: a call that is accepted runs a kernel that touches none of its arguments",
                       "launch dimensions are non-zero (isNoop() returns before the validation otherwise)",
                       "memory dtypes are builtins, registered anonymous structs of builtins and registered tuples of builtins"]


def replay(run, path):
    case = C.replay_case_from_file(path)
    if case is None:
        print("no case in replay file")
        return 2
    globals()["run"](run, "quick", run.seed, replay_case=case)
    for s in run.coverage.get("samples", [])[:1]:
        print("replayed: %s\nimplementation: %s\nmodel:          %s\nspecification:  %s" % (s["case"], s["impl"], s["model"], s["spec"]))
    return run.finish()
