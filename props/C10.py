"""C10 — kernel argument validation accepts exactly the compatible argument lists (DESIGN.md 5/C10)."""
import os, random, re, shutil, time
from vlib import common as C

PROP = "C10"
FLAVOURS = ["asan", "plain"]
CHECKER = "make -C /verif/coq -k C10/Properties_C10.vo C10/Extract.vo  (coqc 8.16.1, full .vo)"
TRUSTED = [
    "Coq 8.16.1 kernel incl. vm_compute; no native_compute",
    "hand transcription of modeKernel_t::setupRun (src/occa/internal/core/kernel.cpp), dtype_t::canBeCastedTo / isCyclic "
    "(src/dtype/dtype.cpp, shared with coq/C11/Model.v), vartype_t::dtype / isPointerType and primitive/typedef/struct "
    "::dtype() (src/occa/internal/lang/type/*.cpp), parser_t::setSourceMetadata, and of the metadata's way through "
    "build.json (C11's k_toJson / k_fromJson) into coq/C10/Model.v; tied by the differential run of this check",
    "extraction (ExtrOcamlBasic + ExtrOcamlString) + extract/C10/driver.ml + extract/zutil.ml",
    "drivers/C10.cpp (OKL source text generated from the case; public API only), drivers/C10_vec.hpp (host definitions of "
    "the OKL vector types, handed to g++ with -include), tools/C10_run.py (fresh process, then a new process on the same "
    "cache directory with OCCA_CXX=/bin/false)",
    "g++ as the JIT compiler of the Serial backend; the `plain` (-O2, uninstrumented) library flavour",
]

META = dict(
    level="Coq theorems: for every signature (list of (const, pointer, dtype)) and every argument list of memories with any "
          "dtype, null pointers and scalars, the transcribed setupRun accepts iff the list is compatible by the declarative "
          "rule (same length; memory/null <-> pointer parameter; flattened element lists equal or one a whole number of "
          "repetitions of the other; byte casts to anything) and rejects otherwise without crashing; the decision computed "
          "from metadata that went through build.json equals the fresh one for all signatures whose dtypes flatten to "
          "builtins (uses C11's round trip).  The model (incl. vartype_t::dtype for primitives, long/long long, typedefs, "
          "arrays, structs) is tied to the library by building generated OKL kernels on a Serial device and running "
          "generated argument lists in the building process and in a fresh process that loads them from the cache.",
    note="Needs fixes/C10-1..3.patch applied to /repo (zero-argument kernels validated when freshly built; `float x[]` "
         "parameters no longer crash the parser; isCyclic no longer divides by zero for dtypes that flatten to nothing). "
         "fresh=cached is partial: parameters whose type is unknown to getBuiltin (size_t, enums) get dtype::none / an enum "
         "object, which lose their identity in build.json (C11 finding registered_identity); no decision differs on the "
         "memory dtypes the check uses.  Trusted: Coq kernel, hand model (differential tie), extraction, drivers, g++.",
    technique="Coq decision-procedure-vs-declarative-rule proof + extracted-model/implementation differential correspondence "
              "on JIT-compiled kernels (fresh and cached)",
    design_ref="DESIGN.md section 5, C10")

PRIMS = ["bool", "char", "short", "int", "float", "double"]
VECS = [b + n for b in ("uchar", "char", "ushort", "short", "uint", "int", "ulong", "long", "float", "double") for n in "234"]
MEM_BUILTINS = ["float", "double", "int", "long", "char", "short", "bool", "byte", "int8", "uint16", "int32", "uint64",
                "float2", "float3", "float4", "double2", "double4", "int2", "int3", "int4", "uint4", "long2", "char4",
                "uchar2", "short3", "ushort4", "ulong3"]
SCALARS = ["i", "l", "f", "d", "b", "c", "r"]
BASE_OF = {"uchar": "char", "char": "char", "ushort": "short", "short": "short", "uint": "int", "int": "int",
           "ulong": "long", "long": "long", "float": "float", "double": "double",
           "int8": "char", "uint16": "short", "int32": "int", "uint64": "long", "bool": "bool", "byte": "byte"}


def flat_of_builtin(b):
    m = re.match(r"^([a-z]+)([234])$", b)
    if m:
        return [BASE_OF[m.group(1)]] * int(m.group(2))
    return [BASE_OF.get(b, b)]


def rprim(rng, allow_unknown=False):
    """-> (type token, flattened element names)"""
    x = rng.random()
    if x < 0.5:
        p = rng.choice(PRIMS)
        u = 1 if (p in ("char", "short", "int") and rng.random() < 0.25) else 0
        return "p:%s:0:%d" % (p, u), [p]
    if x < 0.65:
        lq = rng.choice([1, 2])
        return "p:int:%d:%d" % (lq, rng.choice([0, 0, 1])), ["long"]
    if x < 0.97 or not allow_unknown:
        v = rng.choice(VECS)
        return "p:%s:0:0" % v, flat_of_builtin(v)
    return "p:size_t:0:0", ["none"]


def rarrays(rng, allow_odd):
    x = rng.random()
    if x < 0.6:
        return "", 1
    if x < 0.85:
        n = rng.randint(1, 4)
        return str(n), n
    if x < 0.93 or not allow_odd:
        a, b = rng.randint(1, 3), rng.randint(1, 3)
        return "%dx%d" % (a, b), a * b
    if x < 0.97:
        return "_", 1          # float x[]  (fixes/C10-2)
    return "0", 0              # float x[0] (fixes/C10-3)


def gen_kernel(rng, kid):
    """-> (spec token, [(is_pointer, flattened element names)] per parameter)"""
    defs = []      # (text, flat, is_pointer)
    ndefs = rng.choice([0, 0, 1, 1, 2, 3])
    for i in range(ndefs):
        # (a typedef of a typedef name is not generated: the OKL printer emits `typedef typedef double T1 * T2;`
        #  for it, which no host compiler accepts; struct fields and parameters do use typedef names)
        base, flat = rprim(rng)
        isp = False
        if rng.random() < 0.35:
            # typedef struct { ... } Tk;   fields of non-pointer types
            fs = []
            sflat = []
            for j in range(rng.randint(1, 3)):
                if defs and rng.random() < 0.3:
                    cand = [q for q in range(len(defs)) if not defs[q][2]]
                    if cand:
                        q = rng.choice(cand)
                        ft, ff = "t:%d" % (q + 1), defs[q][1]
                    else:
                        ft, ff = rprim(rng)
                else:
                    ft, ff = rprim(rng)
                arr, n = rarrays(rng, False)
                fs.append("%s~%s~%s" % ("xyzw"[j], ft, arr))
                sflat += ff * n
            defs.append(("S=" + ",".join(fs), sflat, False))
        else:
            ptrs = 1 if rng.random() < 0.25 else 0
            arr, n = rarrays(rng, False)
            defs.append(("T=%s.%d.%s" % (base, ptrs, arr), flat * n, isp or ptrs > 0 or arr != ""))
    params = []
    sig = []
    for i in range(rng.choice([0, 1, 1, 2, 2, 3, 3, 4, 5])):
        if defs and rng.random() < 0.4:
            k = rng.randrange(len(defs))
            t, flat, isp = "t:%d" % (k + 1), defs[k][1], defs[k][2]
        else:
            t, flat = rprim(rng, allow_unknown=True)
            isp = False
        x = rng.random()
        if x < 0.55:
            ptrs, arr, n = rng.choice([1, 1, 1, 2]), "", 1
        elif x < 0.75:
            ptrs = 0
            arr, n = rarrays(rng, True)
        else:
            ptrs, arr, n = 0, "", 1
        params.append("%s.%s.%d.%s" % (rng.choice("cn"), t, ptrs, arr))
        sig.append((isp or ptrs > 0 or arr != "", flat * n))
    tv = 0 if rng.random() < 0.08 else 1
    spec = "K%d/%d/%s/%s" % (kid, tv, ";".join(d[0] for d in defs), ";".join(params))
    return spec, sig


def mem_for(rng, flat):
    """a memory dtype aimed at the parameter's flattened element list: equal, a divisor, a multiple, near misses"""
    x = rng.random()
    if not flat or "none" in flat:
        return rng.choice(MEM_BUILTINS)
    uniform = len(set(flat)) == 1
    if x < 0.25 and uniform:
        return flat[0] if flat[0] != "bool" or True else "bool"
    if x < 0.4 and uniform and flat[0] in ("float", "double", "int", "long", "char", "short"):
        n = rng.choice([2, 3, 4])
        vec = {"float": "float", "double": "double", "int": rng.choice(["int", "uint"]), "long": rng.choice(["long", "ulong"]),
               "char": rng.choice(["char", "uchar"]), "short": rng.choice(["short", "ushort"])}[flat[0]]
        return "%s%d" % (vec, n)
    if x < 0.5 and uniform:
        return "T:%s:%d" % (flat[0], rng.choice([len(flat), len(flat) * 2, max(1, len(flat) - 1), len(flat) + 1, 1]))
    if x < 0.65 and len(flat) <= 6:
        return "S:" + "+".join(flat)                      # exactly the parameter's elements
    if x < 0.72 and len(flat) <= 3:
        return "S:" + "+".join(flat * 2)                  # two repetitions
    if x < 0.78 and len(flat) <= 6:
        f2 = list(flat)
        f2[rng.randrange(len(f2))] = rng.choice(["int", "float", "double", "char"])
        return "S:" + "+".join(f2)                        # one element changed (or not)
    if x < 0.84:
        return "byte"
    return rng.choice(MEM_BUILTINS)


def gen_call(rng, sig):
    x = rng.random()
    n = len(sig)
    if x < 0.1:
        n2 = max(0, n + rng.choice([-2, -1, 1, 1, 2]))     # wrong count
    else:
        n2 = n
    args = []
    for i in range(n2):
        isp, flat = sig[i] if i < n else rng.choice(sig + [(True, ["float"])])
        y = rng.random()
        if isp:
            if y < 0.78:
                args.append("m:" + mem_for(rng, flat))
            elif y < 0.88:
                args.append(rng.choice("zq"))
            else:
                args.append(rng.choice(SCALARS))
        else:
            if y < 0.8:
                args.append(rng.choice(SCALARS))
            elif y < 0.92:
                args.append("m:" + mem_for(rng, flat))
            else:
                args.append(rng.choice("zq"))
    return ",".join(args) if args else "-"


FIXED = [
    # the library's own example shape (addVectors), the zero-argument kernel, arrays, typedef chains
    "K9001/1//n.p:int:0:0.0.;c.p:float:0:0.1.;c.p:float:0:0.1.;n.p:float:0:0.1. "
    "i,m:float,m:float,m:float i,m:float,m:float,m:int i,m:float,m:float i,m:byte,m:float2,m:T:float:5 "
    "m:int,m:float,m:float,m:float d,z,q,m:float r,m:float,m:float,m:float -",
    "K9002/1// - i m:float z i,i",
    "K9003/1//n.p:float:0:0.0._;n.p:float:0:0.0.0;n.p:float:0:0.0.3 "
    "m:float,m:float,m:float m:int,m:byte,m:float3 m:float,m:byte,m:float2 m:float,z,m:T:float:6 m:float4,q,m:S:float+float+float",
    "K9004/1/T=p:double:0:0.0.;T=p:double:0:0.1.;T=p:double:0:0.0.2;S=x~t:1~,y~p:int:1:0~2/n.t:2.0.;c.t:3.0.;n.t:4.1.;n.t:1.0. "
    "m:double,m:double2,m:S:double+long+long,d m:double,m:double,m:S:double+long,d m:float,m:double,m:byte,d "
    "d,m:double,m:byte,d m:double,m:double,m:S:double+long+long+double+long+long,m:double",
    "K9005/0//n.p:int:0:0.1.;n.p:int:0:0.0. m:float,i i,i m:int,i",
]


def view(obs):
    """the oracle's view of an implementation line: the common verdicts when fresh and cached agree"""
    body = obs[2:]
    m = re.match(r"^F:([OE]*) C:([OE]*)$", body)
    if m:
        if m.group(1) == m.group(2):
            return "R V:" + m.group(1)
        return "R fresh and cached differ: " + body
    return obs


def sig_never(case):
    return False


SIGNATURES = {}

_orig_load = C.load_known_findings


def _load_known(prop):
    res = _orig_load(prop)
    p = os.path.join(C.VERIF, "docs", "notes", "%s.known" % PROP)
    if prop == PROP and os.path.exists(p):
        have = set(k["signature"] for k in res)
        for line in open(p):
            line = line.strip()
            if not line or line.startswith("#"):
                continue
            parts = [x.strip() for x in line.split("|")]
            if len(parts) >= 4 and parts[0] == PROP and parts[1] not in have:
                res.append(dict(prop=parts[0], signature=parts[1], input=parts[2], what=" | ".join(parts[3:])))
                have.add(parts[1])
    return res


C.load_known_findings = _load_known


def setup():
    C.build_lib("plain")
    C.build_driver(PROP, flavour="plain")
    C.build_model(PROP)


def run(run, tier, seed, replay_case=None):
    C.build_lib("plain")
    impl = C.build_driver(PROP, flavour="plain")
    pr = C.coq_properties(PROP, dirs=[PROP, "C11", "lib"], extra_targets=["C10/Extract.vo"])
    run.add_proof(pr, CHECKER)
    run.coverage["trusted_base"] = TRUSTED
    model = C.build_model(PROP)

    rng = random.Random(seed * 7919 + 10)
    nk = 24 if tier == "quick" else 400
    ncalls = 60 if tier == "quick" else 120
    cases = list(C.load_corpus(PROP)) + list(FIXED)
    for k in range(nk):
        spec, sig = gen_kernel(rng, k + 1)
        calls = [gen_call(rng, sig) for _ in range(ncalls)]
        cases.append(spec + " " + " ".join(calls))
    if replay_case is not None:
        cases = [replay_case]

    root = os.path.join(C.WORK, "C10-cache", "%d-%d" % (os.getpid(), int(time.time())))
    counter = [0]
    base_env = C.lib_env("plain")
    base_env["C10_VEC_HEADER"] = os.path.join(C.VERIF, "drivers", "C10_vec.hpp")
    wrapper = ["python3", os.path.join(C.VERIF, "tools", "C10_run.py"), impl]

    class Diff(C.Differential):
        def eval(self, lines, parallel=True):
            # a fresh, empty cache directory per batch, shared by the batch's worker processes
            counter[0] += 1
            env = dict(base_env)
            env["C10_CACHE_DIR"] = os.path.join(root, "b%d" % counter[0])
            self.env = env
            R, S = C.run_model(self.model_exe, lines)
            if len(lines) > 1:
                I = C.run_impl_parallel(self.impl_cmd, lines, env=env, jobs=min(C.NPROC, len(lines)), timeout=self.impl_timeout)
            else:
                I = C.run_impl_isolating(self.impl_cmd, lines, env=env, timeout=self.impl_timeout)
            return I, R, S

    try:
        D = Diff(run, PROP, wrapper, model, base_env, view=view, signatures=SIGNATURES, keep_first=1,
                 model_desc="coq/C10/Model.v vs kernel.cpp setupRun + dtype.cpp canBeCastedTo + vartype.cpp dtype() + "
                            "parser.cpp setSourceMetadata + build.json", impl_timeout=1800)
        I, R, S = D.eval(cases)
        D.judge(cases, I, R, S, proof_failures=pr["failures"], max_report=4)
    finally:
        shutil.rmtree(root, ignore_errors=True)

    ncalls_total = sum(len(c.split()) - 1 for c in cases)
    sigs = set(c.split()[0].split("/", 1)[1] for c in cases)
    accepted = sum(l.count("O") for l in S)
    cov = run.coverage
    cov["evaluations"] = ncalls_total            # kernel.run decisions, each made twice (fresh, cached)
    cov["distinct_nontrivial"] = len(set((c.split()[0].split("/", 1)[1], call) for c in cases for call in c.split()[1:]
                                         if "m:" in call))
    cov["rule"] = ("generated OKL kernels (0-5 parameters over OKL primitive and vector types, unsigned / long / long long, "
                   "const, pointers, fixed arrays incl. [] and [0], typedef chains, typedef'd structs; 8% built with "
                   "type_validation:false), each JIT-compiled once on a Serial device; per kernel 60 (quick) / 120 argument "
                   "lists aimed at each parameter's flattened element list (equal, divisor, multiple, one element changed, "
                   "byte, null, scalar, wrong count), each run in the building process and in a fresh process loading the "
                   "kernel from the cache; non-trivial = a call that passes at least one typed memory; distinct = distinct "
                   "(signature, argument list)")
    cov["kernels_built"] = len(sigs)
    cov["calls_required_ok"] = accepted
    cov["calls_required_err"] = sum(l.count("E") for l in S)
    cov["samples"] = [dict(case=cases[i][:600], impl=I[i], model=R[i], spec=S[i]) for i in (0, len(cases) // 2, len(cases) - 1)]
    run.assumptions = ["Serial backend (the validation code is mode independent; OpenMP shares the Serial device code)",
                       "kernel bodies are empty: a call that is accepted runs a kernel that touches none of its arguments",
                       "launch dimensions are non-zero (isNoop() returns before the validation otherwise)",
                       "memory dtypes are builtins, registered anonymous structs of builtins and registered tuples of builtins"]


def replay(run, path):
    case = C.replay_case_from_file(path)
    if case is None:
        print("no case in replay file")
        return 2
    globals()["run"](run, "quick", run.seed, replay_case=case)
    for s in run.coverage.get("samples", [])[:1]:
        print("replayed: %s\nimplementation: %s\nmodel:          %s\nspecification:  %s" % (s["case"], s["impl"], s["model"], s["spec"]))
    return run.finish()
