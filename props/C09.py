"""C09 — concurrent builds of the same kernel all succeed and agree (DESIGN.md 5/C09).

Theorems: coq/C09/Properties_C09.v over coq/C08's process-system model (all interleavings, any N).
Tie (T): real concurrent builds (N processes released together with seeded start delays against one cache
directory) are straced as ONE merged trace, translated (tools/C08_fstrace.py) into coq/gen/C09_traces.v and
Coq re-checks that the merged real trace passes protocol_ok and that a follow-up build creates nothing.
The real runs sample schedules (a test); the theorems cover all schedules of the model.
"""
import os, random, re, shutil, sys, time
from concurrent.futures import ThreadPoolExecutor
from vlib import common as C
sys.path.insert(0, os.path.join(C.VERIF, "tools"))
import C08_fstrace as FT
import C09_tempnames as TN
from props import C08 as P8

PROP = "C09"
FLAVOURS = ["asan", "plain"]
CHECKER = "make -C /verif/coq -k C09/Properties_C09.vo gen/C09_traces.vo  (coqc 8.16.1, full .vo; gen/C09_traces.v regenerated from strace of this run)"
TRUSTED = P8.TRUSTED + ["tools/C09_tempnames.py: syntactic check that hash_t::random draws a fresh std::random_device value per call (discharges fresh_temps up to 32-bit collisions)", "real concurrent runs sample schedules only; NFS rename semantics, dlopen of a file being replaced and compiler failures are outside the model"]
META = dict(
    level="Coq theorems over the process-system model of the build protocol (any number of processes, every interleaving of their "
          "micro-steps, isFile tests separate from uses): no reader ever finds a partial file under a completion-tested name, a "
          "process about to load the binary finds it complete, every process scheduled often enough finishes with a complete "
          "binary regardless of the others, a binary always has its build.json, later builds only read; a shared temp name is "
          "refuted by a concrete schedule. Tied to the code by translating straced real concurrent builds (merged trace must pass "
          "protocol_ok; follow-up build must create nothing). Partial: real schedules are sampled, not enumerated.",
    note="Trusted: strace translator, POSIX model with atomic rename, distinct temp names per process (fresh_temps). Not modelled: "
         "network file systems, dlopen races, compiler failures.",
    technique="Coq invariant proof over all interleavings + translator from strace of real concurrent builds + sampled real runs",
    design_ref="DESIGN.md section 5, C09")

EXPECT = P8.EXPECT[7]


def concurrent_round(exe, base, idx, mode, how, nproc, rng, traced, simultaneous=False, forked=False):
    cache = os.path.join(base, "cc-%d" % idx)
    os.makedirs(cache)
    kfile = os.path.join(base, "cc-%d.okl" % idx)
    open(kfile, "w").write(P8.kernel_file_text(7))
    env = C.lib_env("plain", cache_dir=cache)
    env["C08_KERNEL_FILE"] = kfile
    if simultaneous:
        delays = [0] * nproc
    else:
        delays = [rng.choice([0, 0, rng.randint(0, 3000), rng.randint(0, 60000), rng.randint(0, 400000)]) for _ in range(nproc)]
    # every builder spins until this instant before it touches the (cold) cache
    if not forked:
        env["C08_START_AT"] = "%.3f" % (time.time() + (2.5 if traced else 0.8))
    if forked:
        # the builders are fork()ed children of one process that has already staged files of another kernel
        script = "%s %s fork 7 %d" % (exe, mode, nproc)
        how = "string"
    else:
        script = " ".join("%s %s %s 7 %d &" % (exe, mode, how, d) for d in delays) + " wait"
    cmd = ["sh", "-c", script]
    st = os.path.join(base, "cc-%d.strace" % idx)
    if traced:
        cmd = ["strace", "-f", "-y", "-o", st, "-e", "trace=file,desc,process", "-e", "signal=none"] + cmd
    rc, out, err = C.sh(cmd, env=env, timeout=600)
    lines = [l for l in out.splitlines() if l.startswith("R ")]
    res = dict(idx=idx, mode=mode, how=how, nproc=nproc, delays=delays, lines=lines, traced=traced, forked=forked,
               ok=(len(lines) == nproc and all(l == EXPECT for l in lines)), err=err[-300:])
    if traced:
        tr = FT.translate(st, cache)
        res["ops"] = P8.collapse_writes(tr.finish())
        os.unlink(st)
    # follow-up build: must reuse the cache (creates nothing, compiles nothing)
    st2 = os.path.join(base, "cc-%d-follow.strace" % idx)
    rc2, line2 = P8.run_build(exe, cache, mode, how, 7, kfile, strace_out=st2)
    tr2 = FT.translate(st2, cache)
    fops = P8.collapse_writes(tr2.finish())
    execs = sum(1 for l in open(st2, errors="replace") if "execve(" in l and ("g++" in l or "cc1plus" in l))
    os.unlink(st2)
    res["follow_line"] = line2
    res["follow_ops"] = fops
    res["follow_creates"] = sum(1 for o in fops if o[0] in ("OCreate", "OWrite", "ORename"))
    res["follow_compiler_execs"] = execs
    res["ok"] = res["ok"] and line2 == EXPECT and res["follow_creates"] == 0 and execs == 0
    shutil.rmtree(cache, ignore_errors=True)
    return res


def write_gen(rounds, temp_ok=(True, "")):
    os.makedirs(os.path.join(C.COQ, "gen"), exist_ok=True)
    L = ["(* GENERATED by props/C09.py from strace of real concurrent builds of this run; do not edit. *)",
         "From Coq Require Import List NArith Bool.", "From OV.C08 Require Import Model.", "Import ListNotations.",
         "Local Open Scope N_scope.", ""]
    tn, fn = [], []
    for r in rounds:
        if r.get("ops") is not None:
            L.append("(* %d processes, %s %s, start delays (us) %s *)" % (r["nproc"], r["mode"], r["how"], r["delays"]))
            L.append("Definition ctrace_%d : list op := %s." % (r["idx"], FT.coq_ops(r["ops"])))
            tn.append("ctrace_%d" % r["idx"])
        L.append("Definition follow_%d : list op := %s." % (r["idx"], FT.coq_ops(r["follow_ops"])))
        fn.append("follow_%d" % r["idx"])
    L.append("Definition concurrent_traces : list (list op) := [%s]." % "; ".join(tn))
    L.append("Definition follow_traces : list (list op) := [%s]." % "; ".join(fn))
    L += ["",
          "(* hypothesis fresh_temps, tied to the source by tools/C09_tempnames.py: %s *)" % temp_ok[1].replace("*)", "* )"),
          "Definition temp_names_drawn_fresh_per_call : bool := %s." % ("true" if temp_ok[0] else "false"),
          "Example fresh_temps_source_ok : temp_names_drawn_fresh_per_call = true.",
          "Proof. reflexivity. Qed.",
          "(* the merged real trace of the concurrent builders satisfies the hypothesis of crash_safe *)",
          "Example concurrent_traces_conform : forallb protocol_ok concurrent_traces = true.",
          "Proof. vm_compute. reflexivity. Qed.",
          "(* a follow-up build only reads (normalize drops reads): the cache is reused *)",
          "Example follow_up_reuses_cache : forallb (fun t => match normalize t with [] => true | _ => false end) follow_traces = true.",
          "Proof. vm_compute. reflexivity. Qed.", ""]
    with open(os.path.join(C.COQ, "gen", "C09_traces.v"), "w") as f:
        f.write("\n".join(L))


def pregen():
    p = os.path.join(C.COQ, "gen", "C09_traces.v")
    if not os.path.exists(p):
        write_gen([])


def setup():
    C.build_lib("plain")
    C.build_driver("C08", flavour="plain")
    pregen()


def run(run, tier, seed, replay_case=None):
    C.build_lib("plain")
    exe = C.build_driver("C08", flavour="plain")
    base = os.path.join(C.WORK, "C09", "run-%d-%d" % (seed, os.getpid()))
    shutil.rmtree(base, ignore_errors=True)
    os.makedirs(base)
    rng = random.Random(seed * 15485863 + 9)
    try:
        plan = [("Serial", "string", 3, True), ("OpenMP", "file", 4, True),
                ("Serial", "file", 2, False), ("OpenMP", "string", 8, False), ("Serial", "string", 16, False),
                # cold cache, all builders released at the same instant (directory-creation and first-publish races)
                ("Serial", "file", 16, "sim"), ("OpenMP", "string", 16, "sim"), ("Serial", "string", 16, "sim"),
                ("OpenMP", "file", 12, "sim"),
                # fork()ed builders inheriting the state of a parent that already used the cache (one traced)
                ("Serial", "string", 8, "forkT"), ("OpenMP", "string", 12, "fork"), ("Serial", "string", 16, "fork")]
        if tier == "thorough":
            for i in range(60):
                plan.append((rng.choice(["Serial", "OpenMP"]), rng.choice(["string", "file"]), rng.randint(2, 16),
                             True if i % 6 == 0 else ("sim" if i % 2 else False)))
        if replay_case:
            m = re.match(r"round (\w+) (\w+) (\d+)", replay_case)
            if m and replay_case.rstrip().endswith("forked"):
                plan = [(m.group(1), "string", int(m.group(3)), "fork")] * 6
                m = None
            if m:
                plan = [(m.group(1), m.group(2), int(m.group(3)), "sim")] * 4 + [(m.group(1), m.group(2), int(m.group(3)), True)] + \
                       [(m.group(1), "string", int(m.group(3)), "fork")] * 4
        rounds = []
        for i, (mode, how, n, traced) in enumerate(plan):     # rounds run one after another: each is itself parallel
            rounds.append(concurrent_round(exe, base, i, mode, how, n, rng, traced in (True, "forkT"), simultaneous=(traced == "sim"),
                                           forked=(traced in ("fork", "forkT"))))
        temp_ok = TN.analyse(C.REPO)
        if not temp_ok[0] and tier == "quick" and not replay_case:
            # the hypothesis is no longer discharged from the source: look harder for a real failure
            for j in range(6):
                rounds.append(concurrent_round(exe, base, len(plan) + j, rng.choice(["Serial", "OpenMP"]), "string", 16, rng,
                                               False, forked=True))
        write_gen(rounds, temp_ok)
        pr = C.coq_properties(PROP, dirs=["C09", "C08", "lib"], gen_targets=["gen/C09_traces.vo"])
        run.add_proof(pr, CHECKER)
        run.coverage["trusted_base"] = TRUSTED
        for r in rounds:
            if not r["ok"]:
                case = "round %s %s %d%s" % (r["mode"], r["how"], r["nproc"], " forked" if r.get("forked") else "")
                run.violation("concurrent builds failed or the cache was not reused: " + case,
                              "property C09 fails on the implementation built from /repo\ncase: %s\nstart delays (us): %s\n"
                              "outputs of the %d processes: %s\nrequired: %d x %s\nfollow-up build: %s, file-creating operations: %d, "
                              "compiler executions: %d (required 0)\nstderr: %s\nreplay: ./check C09 --replay <this file>\n"
                              % (case, r["delays"], r["nproc"], r["lines"], r["nproc"], EXPECT, r["follow_line"],
                                 r["follow_creates"], r["follow_compiler_execs"], r["err"]))
        if pr["failures"] and not run.violations:
            bad = []
            for r in rounds:
                if r.get("ops") is not None:
                    i = P8.py_protocol(r["ops"])
                    if i is not None:
                        bad.append("round %d: operation #%d %s violates the protocol" % (r["idx"], i, FT.coq_op(r["ops"][i])))
            run.violation("proof obligations no longer check",
                          "obligations of coq/C09/Properties_C09.v / coq/gen/C09_traces.v no longer check: %s\n%s\n"
                          "%d real concurrent rounds all succeeded\n" % ("; ".join(pr["failures"])[:1500], "; ".join(bad), len(rounds)),
                          no_input=True)
        cov = run.coverage
        cov["evaluations"] = sum(r["nproc"] + 1 for r in rounds)
        cov["distinct_nontrivial"] = len(set((r["mode"], r["how"], r["nproc"], tuple(r["delays"])) for r in rounds if r["nproc"] >= 2))
        cov["rule"] = ("rounds of N real processes (N in 2..16) building the same kernel against one fresh cache directory with seeded "
                       "start delays; non-trivial = at least 2 processes; distinct by (mode, kind, N, delays)")
        cov["traces_validated_against_impl"] = sum(1 for r in rounds if r.get("ops") is not None)
        cov["samples"] = [dict(mode=r["mode"], kind=r["how"], nproc=r["nproc"], delays_us=r["delays"], outputs=r["lines"][:3],
                               follow_up=r["follow_line"], follow_up_compiler_execs=r["follow_compiler_execs"]) for r in rounds[:3]]
        cov["process_counts"] = [r["nproc"] for r in rounds]
        run.assumptions = ["distinct temp names per process (fresh_temps)", "local POSIX file system"]
    finally:
        shutil.rmtree(base, ignore_errors=True)


def replay(run, path):
    case = C.replay_case_from_file(path)
    globals()["run"](run, "quick", run.seed, replay_case=case)
    return run.finish()
