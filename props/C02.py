"""C02 — device memory behaves like an aliased byte array; misuse raises (DESIGN.md 5/C02)."""
import os, random, re
from vlib import common as C

PROP = "C02"
CHECKER = "make -C /verif/coq -k C02/Properties_C02.vo C02/Extract.vo  (coqc 8.16.1, full .vo)"
TRUSTED = [
    "Coq 8.16.1 kernel incl. vm_compute (witnesses/examples only); no native_compute, no axioms",
    "hand transcription of src/core/memory.cpp, src/core/device.cpp (malloc/wrapMemory), src/occa/internal/core/memory.cpp, "
    "src/occa/internal/modes/serial/{memory,buffer,device}.cpp into coq/C02/Model.v (C casts spelled out), tied by the "
    "differential run of this check",
    "extraction (ExtrOcamlBasic only) + extract/C02/driver.ml + extract/zutil.ml",
    "drivers/C02.cpp (public occa API only; host arrays sized exactly so ASan sees stray accesses)",
    "g++ 12 ASan+UBSan as the observer of crashes / out-of-allocation accesses / signed overflow in the implementation",
    "bytes of a malloc without source are unspecified: positions the specification marks ?? are not compared",
]

META = dict(
    level="Coq theorems over all finite histories of malloc / malloc(src) / wrapMemory / slice / + / cast / clone / "
          "copyFrom / copyTo (host and device-to-device) / handle assignment on a model of occa::memory that spells out "
          "the C casts of the bound checks: accepted requests touch only bytes inside the handle's own range, rejected "
          "requests change nothing, no request crashes, and every observation equals that of an abstract byte-map "
          "specification in which slices and casts alias and clones do not (refinement by invariant, unbounded histories; "
          "ALL dim_t arguments -2^63..2^63-1 and all positive int dtype sizes: with fixes/C02-7 no product or sum of the "
          "bound checks wraps). The model is tied to the C++ by running the extracted model and the real "
          "library (Serial and OpenMP, ASan+UBSan) on the same histories.",
    note="Trusted: Coq kernel; the hand model (tie is differential, seeded histories incl. malformed arguments and "
         "uninitialized handles in every position, arguments up to INT64_MIN/INT64_MAX); extraction; drivers. Needs "
         "fixes/C02-1..7 applied to /repo (the earlier behaviour is kept as cfg `pinned`/`fixed6` with _refuted theorems).",
    technique="Coq safety-of-guards + refinement proof (invariant over histories) + extracted-model/implementation differential correspondence",
    design_ref="DESIGN.md section 5, C02")

NSLOTS = 6
DTS = [1, 1, 4, 4, 8, 12, 3, 2]
I64MAX = (1 << 63) - 1
I64MIN = -(1 << 63)
HUGE = [1 << 62, (1 << 62) + 1, I64MAX, I64MIN, -(1 << 62) + 1, 0x5555555555555555, (1 << 61) + 3, I64MIN + 1,
        1 << 40, -(1 << 40), (1 << 32) + 1, 1 << 58]


class Shadow:
    """Generator-side sketch of the handle slots (byte size, dtype size) used to aim arguments; it is
    not an oracle (the oracle is the extracted Spec)."""

    def __init__(self):
        self.h = [None] * NSLOTS
        self.nwraps = 0

    def live(self):
        return [i for i in range(NSLOTS) if self.h[i] is not None]


def pick_slot(rng, sh, want_live=True, p_wrong=0.08):
    live = sh.live()
    if want_live and live and rng.random() > p_wrong:
        return rng.choice(live)
    return rng.randrange(NSLOTS)


def arg(rng, valid, bound, huge_ok):
    """an argument: mostly `valid`, otherwise from the malformed stream around `bound`"""
    x = rng.random()
    if x < (0.75 if huge_ok else 0.80):
        return valid
    if x < 0.88 or not huge_ok:
        return rng.choice([-1, -2, bound, bound + 1, bound - 1, 0, 1, -bound, bound + 2, -3])
    return rng.choice(HUGE)


def gen_case(rng, tier, huge_ok):
    sh = Shadow()
    toks = ["M%d" % rng.choice([0, 0, 1])]
    nops = rng.randint(4, 16 if tier == "quick" else 40)
    for _ in range(nops):
        x = rng.random()
        live = sh.live()
        if x < 0.16 or not live:
            # allocation
            d = rng.randrange(NSLOTS)
            dt = rng.choice(DTS)
            n = rng.randint(1, 24)
            y = rng.random()
            if y < 0.06:
                n = rng.choice([0, -1, -2, -7])
            elif y < 0.08 and huge_ok:
                # sizes the library must refuse (positive ones only where n*dt > 2^62-1, so that nothing tries to allocate them)
                n = rng.choice([I64MIN, -(1 << 62) - 1, -(1 << 61), I64MIN + 1, I64MAX, 1 << 62, (1 << 62) + 5])
            kind = rng.random()
            if kind < 0.25:
                toks.append("m:%d:%d:%d" % (d, n, dt))
            elif kind < 0.55:
                uhp = 1 if rng.random() < 0.3 else 0
                toks.append("h:%d:%d:%d:%d:%d" % (d, n, dt, rng.randrange(256), uhp))
                if uhp and 0 < n < 1000:
                    sh.nwraps += 1
            elif kind < 0.75:
                toks.append("w:%d:%d:%d:%d" % (d, n, dt, rng.randrange(256)))
                if 0 <= n < 1000:
                    sh.nwraps += 1
            else:
                s = pick_slot(rng, sh, p_wrong=0.25)
                src = sh.h[s]
                if src is not None and rng.random() < 0.8:
                    n = max(1, src[0] // dt - rng.choice([0, 0, 1, 2]))
                    if rng.random() < 0.15:
                        n = src[0] // dt + 1
                toks.append("g:%d:%d:%d:%d" % (d, n, dt, s))
                if src is not None and n > 0 and n * dt > src[0]:
                    continue
            if 0 < n < 1000:
                sh.h[d] = (n * dt, dt)
            elif n == 0:
                sh.h[d] = None if toks[-1][0] != "w" else (0, dt)
        elif x < 0.34:
            s = pick_slot(rng, sh)
            d = rng.randrange(NSLOTS)
            m = sh.h[s]
            ln = (m[0] // m[1]) if m else 4
            off = rng.randint(0, ln)
            if rng.random() < 0.45:
                cnt = -1
            else:
                cnt = rng.randint(0, max(0, ln - off))
            off2 = arg(rng, off, ln, huge_ok)
            cnt2 = cnt if rng.random() < 0.85 else arg(rng, cnt, ln - off, huge_ok)
            if m and rng.random() < 0.12:
                off2 = -rng.randint(1, 4)        # negative offsets, also on slices of slices
            toks.append("s:%d:%d:%d:%d" % (d, s, off2, cnt2))
            if m and 0 <= off2 <= ln and (cnt2 == -1 or (0 <= cnt2 and off2 + cnt2 <= ln)):
                c = ln - off2 if cnt2 == -1 else cnt2
                sh.h[d] = (c * m[1], m[1])
        elif x < 0.42:
            s = pick_slot(rng, sh)
            d = rng.randrange(NSLOTS)
            dt = rng.choice(DTS)
            toks.append("c:%d:%d:%d" % (d, s, dt))
            m = sh.h[s]
            if m:
                sh.h[d] = ((m[0] // m[1]) * m[1], dt)
        elif x < 0.48:
            s = pick_slot(rng, sh, p_wrong=0.15)
            d = rng.randrange(NSLOTS)
            toks.append("k:%d:%d" % (d, s))
            m = sh.h[s]
            if m and m[0] > 0:
                sh.h[d] = m
        elif x < 0.60:
            a = pick_slot(rng, sh)
            m = sh.h[a]
            ln = (m[0] // m[1]) if m else 4
            if rng.random() < 0.4:
                cnt, off = -1, 0
            else:
                off = rng.randint(0, ln)
                cnt = rng.randint(0, ln - off)
            cnt = cnt if rng.random() < 0.85 else arg(rng, cnt, ln - off, huge_ok)
            off = off if rng.random() < 0.85 else arg(rng, off, ln, huge_ok)
            toks.append("F:%d:%d:%d:%d" % (a, cnt, off, rng.randrange(256)))
        elif x < 0.76:
            a = pick_slot(rng, sh)
            m = sh.h[a]
            ln = (m[0] // m[1]) if m else 4
            if rng.random() < 0.5:
                cnt, off = -1, 0
            else:
                off = rng.randint(0, ln)
                cnt = rng.randint(0, ln - off)
            cnt = cnt if rng.random() < 0.85 else arg(rng, cnt, ln - off, huge_ok)
            off = off if rng.random() < 0.85 else arg(rng, off, ln, huge_ok)
            toks.append("T:%d:%d:%d" % (a, cnt, off))
        elif x < 0.90:
            a = pick_slot(rng, sh, p_wrong=0.12)
            b = pick_slot(rng, sh, p_wrong=0.12)
            if rng.random() < 0.25 and len(live) >= 1:
                b = a if rng.random() < 0.5 else b    # same handle: overlapping ranges
            ma, mb = sh.h[a], sh.h[b]
            k = rng.choice("ft")
            this = ma
            dst, src = (ma, mb) if k == "f" else (mb, ma)
            if ma and mb:
                tdt = this[1]
                maxb = min(dst[0], src[0])
                cnt = rng.randint(0, maxb // tdt)
                nb = cnt * tdt
                doff = rng.randint(0, (dst[0] - nb) // dst[1])
                soff = rng.randint(0, (src[0] - nb) // src[1])
                if rng.random() < 0.2:
                    cnt, doff, soff = -1, 0, 0
            else:
                cnt, doff, soff = rng.choice([-1, 0, 1, 2]), rng.choice([0, 0, 1]), rng.choice([0, 0, 1])
            lnd = (dst[0] // dst[1]) if dst else 4
            lns = (src[0] // src[1]) if src else 4
            if rng.random() < 0.2:
                z = rng.randrange(3)
                if z == 0:
                    cnt = arg(rng, cnt, min(lnd, lns), huge_ok)
                elif z == 1:
                    doff = arg(rng, doff, lnd, huge_ok)
                else:
                    soff = arg(rng, soff, lns, huge_ok)
            toks.append("%s:%d:%d:%d:%d:%d" % (k, a, b, cnt, doff, soff))
        elif x < 0.93:
            d, s = rng.randrange(NSLOTS), pick_slot(rng, sh, p_wrong=0.2)
            toks.append("a:%d:%d" % (d, s))
            sh.h[d] = sh.h[s]
        elif x < 0.95:
            d = rng.randrange(NSLOTS)
            toks.append("r:%d" % d)
            sh.h[d] = None
        elif x < 0.98:
            toks.append("z:%d" % rng.randrange(NSLOTS))
        else:
            toks.append("H:%d" % rng.randrange(max(1, sh.nwraps)))
    # read everything back at the end: every live handle in full, and the host arrays
    for i in range(NSLOTS):
        if sh.h[i] is not None or rng.random() < 0.1:
            toks.append("T:%d:-1:0" % i)
    for k in range(min(sh.nwraps, 3)):
        toks.append("H:%d" % k)
    return " ".join(toks)


def fixed_cases():
    """Deterministic batch: the witnesses of the defects repaired by fixes/C02-1..6, the boundary cases of every
    guard and one aliasing script per operation; always run."""
    base = "M0 h:0:16:1:7:0"
    c = [
        # C02-1: the other operand of a device-to-device copy is uninitialized
        base + " t:0:1:-1:0:0 T:0:-1:0", base + " f:0:1:-1:0:0 T:0:-1:0", base + " t:0:1:2:0:0", base + " f:0:1:2:1:1",
        # C02-2: negative offsets on a slice of a slice
        base + " s:1:0:8:-1 s:2:1:-4:2 T:2:-1:0", base + " s:1:0:8:-1 s:2:1:-4:-1 z:2 T:2:-1:0",
        base + " s:1:0:-1:2", base + " s:1:0:8:4 s:2:1:-1:1 T:2:-1:0",
        # C02-3: copies on an uninitialized this
        "M0 T:0:-1:0", "M0 F:0:-1:0:3", "M0 t:0:1:-1:0:0", "M0 f:0:1:-1:0:0", base + " f:1:0:-1:0:0", base + " t:1:0:-1:0:0",
        "M0 T:0:2:1", "M0 F:0:2:1:3",
        # C02-4: slice / clone / cast of an uninitialized handle
        "M0 s:1:0:0:-1 z:1", "M0 k:1:0 z:1", "M0 c:1:0:4 z:1", "M0 s:1:0:1:2", "M1 s:0:0:3:-1",
        # C02-5: malloc with a source shorter than one element of its dtype; clone of such a view
        base + " s:1:0:0:3 c:2:1:4 z:2 k:3:2 z:3 c:4:3:1 T:4:-1:0",
        base + " s:1:0:0:3 c:2:1:4 g:3:2:1:2 T:3:-1:0", base + " s:1:0:0:0 g:2:4:1:1 z:2",
        base + " g:1:4:4:0 T:1:-1:0", base + " g:1:5:4:0 z:1", base + " g:1:4:4:5 z:1", base + " g:1:0:4:0 z:1",
        # C02-6: overlapping device-to-device copies inside one buffer
        base + " f:0:0:8:2:0 T:0:-1:0", base + " f:0:0:8:0:2 T:0:-1:0", base + " s:1:0:4:-1 t:0:1:10:0:0 T:0:-1:0",
        base + " f:0:0:8:3:3 T:0:-1:0", base + " s:1:0:2:8 s:2:0:6:8 f:1:2:-1:0:0 T:0:-1:0", "M1 h:0:16:1:9:0 f:0:0:8:2:0 T:0:-1:0",
        # guards at their boundaries
        base + " T:0:16:0 T:0:17:0 T:0:0:16 T:0:0:17 T:0:1:16 T:0:-2:0 T:0:-1:1 T:0:15:1 T:0:16:1",
        base + " c:1:0:4 T:1:4:0 T:1:5:0 T:1:1:3 T:1:1:4 T:1:0:4 T:1:0:5 z:1",
        base + " s:1:0:16:-1 z:1 s:2:0:17:-1 z:2 s:3:0:16:0 z:3 s:4:0:0:16 z:4 s:5:0:1:16 z:5 s:5:0:0:17 z:5",
        base + " c:1:0:12 z:1 T:1:-1:0 c:2:1:1 z:2 s:3:1:1:-1 z:3 T:3:-1:0",
        base + " c:1:0:3 z:1 s:2:1:1:3 T:2:-1:0 c:3:2:4 z:3 T:3:-1:0 F:3:-1:0:50 T:0:-1:0",
        "M0 m:0:0:4 z:0 m:1:-1:4 z:1 w:2:0:4:1 z:2 T:2:-1:0 k:3:2 z:3 w:4:-1:4:1 z:4 h:5:0:1:1:1 z:5",
        "M0 m:0:4:4 F:0:2:1:9 T:0:2:1 s:1:0:1:2 T:1:-1:0",
        # aliasing: slices and casts share, clones and malloc(src) do not, wrapped memory is the host array
        base + " s:1:0:4:8 F:1:-1:0:100 T:0:-1:0 k:2:0 F:2:-1:0:200 T:0:-1:0 T:2:-1:0",
        base + " c:1:0:4 F:1:2:1:33 T:0:-1:0 g:2:16:1:0 F:0:-1:0:1 T:2:-1:0",
        "M0 w:0:4:4:5 H:0 F:0:2:1:77 H:0 s:1:0:2:-1 F:1:-1:0:99 H:0 T:0:-1:0",
        "M1 h:0:4:4:5:1 H:0 F:0:2:1:77 H:0 k:1:0 F:1:-1:0:3 H:0 T:1:-1:0",
        base + " h:1:8:1:50:0 f:0:1:4:12:4 T:0:-1:0 t:0:1:4:0:12 T:1:-1:0 f:0:1:4:13:0 t:0:1:4:5:0 f:0:1:9:0:0",
        base + " c:1:0:4 h:2:4:8:50:0 f:1:2:2:1:1 T:0:-1:0 t:1:2:2:1:1 T:2:-1:0 f:1:2:2:1:4 f:1:2:3:2:0",
        base + " a:1:0 r:0 T:1:-1:0 z:0 s:0:1:2:-1 T:0:-1:0",
    ]
    return c


def huge_cases():
    """arguments near the ends of the dim_t range: products that wrapped and sums that overflowed before fixes/C02-7"""
    base = "M0 h:0:16:1:7:0 c:1:0:4 c:2:0:3"
    return [
        base + " T:1:4611686018427387905:0", base + " T:1:1:4611686018427387905", base + " T:0:9223372036854775807:1",
        base + " T:2:6148914691236517205:1", base + " F:1:4611686018427387905:0:9", base + " s:3:1:4611686018427387905:0",
        base + " s:3:0:-9223372036854775808:-1", base + " f:1:0:4611686018427387905:0:0", base + " t:1:0:4611686018427387904:0:0 T:0:-1:0",
        "M0 m:0:9223372036854775807:4", "M0 m:0:-9223372036854775808:4", "M0 w:0:4611686018427387904:4:1",
        base + " T:1:1099511627776:0", base + " T:1:1:1099511627776", base + " s:3:1:1099511627776:-1",
    ]


def nontrivial(case):
    t = case.split()
    allocs = [x for x in t if x[0] in "mhgwk"]
    views = [x for x in t if x[0] in "sc"]
    reads = [x for x in t if x[0] in "TH"]
    writes = [x for x in t if x[0] in "Fft"]
    return len(allocs) >= 1 and len(views) >= 1 and len(reads) >= 1 and len(writes) >= 1


# no known findings: the former `huge_arg` (wrapping bound checks) is repaired by fixes/C02-7
SIGNATURES = {}


def canon_crash(line):
    """R CRASH <sanitizer summary>  ->  R CRASH <NULL|OVF|OVERLAP|OOB>   (the model's crash kinds)"""
    if not line.startswith("R CRASH"):
        return line
    if "signed integer overflow" in line or "signed-integer-overflow" in line:
        return "R CRASH OVF"
    if "memcpy-param-overlap" in line:
        return "R CRASH OVERLAP"
    if "null pointer" in line or "SEGV" in line or "signal 11" in line:
        return "R CRASH NULL"
    return "R CRASH OOB [" + line[8:] + "]" if "Sanitizer" not in line and "runtime error" not in line else "R CRASH OOB"


def mask_undef(i_line, s_line):
    """bytes of a malloc without source are unspecified: where the specification shows ?? the
    implementation's byte is not compared"""
    if "??" not in s_line or i_line.startswith("R CRASH"):
        return i_line
    it, st = i_line[2:].split(";"), s_line[2:].split(";")
    if len(it) != len(st):
        return i_line
    out = []
    for a, b in zip(it, st):
        if a.startswith("B") and b.startswith("B") and len(a) == len(b) and "?" in b:
            a = "".join(("?" if cb == "?" else ca) for ca, cb in zip(a, b))
        out.append(a)
    return "R " + ";".join(out)


class Diff(C.Differential):
    def eval(self, lines, parallel=True):
        I, R, S = super().eval(lines, parallel=parallel)
        I = [mask_undef(canon_crash(i), s) for i, s in zip(I, S)]
        return I, R, S


def setup():
    C.build_driver(PROP, flavour="asan")
    C.build_model(PROP)


def run(run, tier, seed, replay_case=None):
    C.build_lib("asan")
    impl = C.build_driver(PROP, flavour="asan")
    pr = C.coq_properties(PROP, extra_targets=["C02/Extract.vo"])
    run.add_proof(pr, CHECKER)
    run.coverage["trusted_base"] = TRUSTED
    model = C.build_model(PROP)

    rng = random.Random(seed * 7919 + 2)
    corpus = C.load_corpus(PROP)
    n = 1700 if tier == "quick" else 40000
    nh = 800 if tier == "quick" else 15000
    stage1 = list(corpus) + fixed_cases() + huge_cases()
    env = C.lib_env("asan")
    env["OMP_NUM_THREADS"] = "2"
    # leaks are C01/C05's subject (cloning a use_host_pointer memory leaks the clone's buffer); a leak report at
    # process exit would be attributed to whatever history came last
    env["ASAN_OPTIONS"] = env["ASAN_OPTIONS"].replace("detect_leaks=1", "detect_leaks=0")
    D = Diff(run, PROP, [impl], model, env, signatures=SIGNATURES, keep_first=1,
             model_desc="coq/C02/Model.v (cfg fixed) vs src/core/memory.cpp, src/core/device.cpp, serial/{memory,buffer,device}.cpp")
    if replay_case is not None:
        cases = [replay_case]
        I, R, S = D.eval(cases)
    else:
        # stage 1: corpus + defect witnesses + guard boundaries + extreme arguments.  When these already fail the
        # seeded batch is not run: on a tree without fixes/C02-1..7 a large part of it would crash the driver,
        # one process restart per crash.
        cases = stage1
        I, R, S = D.eval(cases)
        bad = [i for i in range(len(cases)) if D.fails_spec(I[i], S[i])]
        if not bad:
            more = [gen_case(rng, tier, False) for _ in range(n)] + [gen_case(rng, tier, True) for _ in range(nh)]
            I2, R2, S2 = D.eval(more)
            cases, I, R, S = cases + more, I + I2, R + R2, S + S2
        else:
            run.coverage["stage"] = "stopped after the fixed batch: %d of its %d cases fail" % (len(bad), len(cases))
    D.judge(cases, I, R, S, proof_failures=pr["failures"])

    distinct = set(c for c in cases if nontrivial(c))
    cov = run.coverage
    cov["distinct_nontrivial"] = len(distinct)
    cov["rule"] = ("seeded histories of 4-16 (quick) / 4-40 (thorough) operations over 6 handle slots on a Serial or OpenMP "
                   "device, dtypes of 1/2/3/4/8/12 bytes (3 and 12 are struct dtypes); arguments 80% valid for the "
                   "generator's shadow of the slots, otherwise from -1,-2,-3,0,1,len-1,len,len+1,len+2,-len and (a third of the "
                   "histories) 2^32+1..2^63-1, INT64_MIN, (2^64-1)/3; plus a fixed batch of defect witnesses, guard boundaries and aliasing "
                   "scripts; every history ends by reading back all live handles and wrapped host arrays; non-trivial = "
                   "at least one allocation, one slice/cast, one write and one read; distinct = distinct case text")
    k = len(cases)
    cov["samples"] = [dict(case=cases[i], impl=I[i], model=R[i], spec=S[i]) for i in sorted(set((0, k // 2, k - 1)))]
    cov["op_mix"] = {name: sum(1 for c in cases for t in c.split() if t.startswith(p))
                     for name, p in (("malloc", "m:"), ("malloc_host", "h:"), ("malloc_mem", "g:"), ("wrap", "w:"),
                                     ("slice", "s:"), ("cast", "c:"), ("clone", "k:"), ("copyFrom_host", "F:"),
                                     ("copyTo_host", "T:"), ("copyFrom_mem", "f:"), ("copyTo_mem", "t:"),
                                     ("assign", "a:"), ("reset", "r:"), ("size", "z:"), ("host_read", "H:"))}
    cov["outcomes"] = dict(err_ops=sum(s.count("ERR") for s in S), crash_cases=sum(1 for i in I if i.startswith("R CRASH")),
                           openmp_cases=sum(1 for c in cases if c.startswith("M1")))
    run.assumptions = ["integer arguments are dim_t values (all of -2^63..2^63-1), dtype sizes positive ints; a single allocation "
                       "above 2^62-1 bytes is refused (entriesToBytes) and is an error in the specification too",
                       "bytes of a malloc without source are unspecified and not compared",
                       "memory::free, memory::swap, memoryPool and device.free are not exercised (other properties)",
                       "the model describes /repo with fixes/C02-1..7 applied; the earlier behaviour is cfg `pinned` / `fixed6`"]


def replay(run, path):
    case = C.replay_case_from_file(path)
    if case is None:
        print("no case in replay file")
        return 2
    globals()["run"](run, "quick", run.seed, replay_case=case)
    for s in run.coverage.get("samples", [])[:1]:
        print("replayed: %s\nimplementation: %s\nmodel:          %s\nspecification:  %s" % (s["case"], s["impl"], s["model"], s["spec"]))
    return run.finish()
