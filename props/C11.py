"""C11 — dtype and kernel-metadata JSON serialization round-trips (DESIGN.md 5/C11)."""
import os, random, re
from vlib import common as C

PROP = "C11"
CHECKER = "make -C /verif/coq -k C11/Properties_C11.vo C11/Extract.vo  (coqc 8.16.1, full .vo)"
TRUSTED = [
    "Coq 8.16.1 kernel incl. vm_compute; no native_compute",
    "hand transcription of src/dtype/dtype.cpp, src/dtype/builtins.cpp, include/occa/dtype/utils.hpp and "
    "src/occa/internal/lang/kernelMetadata.cpp into coq/C11/Model.v (object addresses abstracted as identifiers), "
    "tied by the differential run of this check",
    "extraction (ExtrOcamlBasic + ExtrOcamlString: Coq string -> char list) + extract/C11/driver.ml + extract/zutil.ml",
    "drivers/C11.cpp (reads the private members name_/bytes_/enum_/struct_/tuple_/union_ through #define private public; "
    "JSON edits of the malformed stream are done on occa::json's containers)",
    "the oracle is relative: the observation of the reconstructed dtype / metadata must equal the observation of the "
    "original one made by the same driver (props/C11.py: view)",
    "sizes of the builtin dtypes are those of LP64 Linux (sizeof(long) = 8); JSON text <-> tree is C24's subject, here only "
    "cross-checked (T=1: fromJson(text) gives the same view as fromJson(tree))",
]

META = dict(
    level="Coq theorems over all dtype trees (unbounded depth and width; builtin, custom, tuple, struct, union, enum, "
          "references to registered dtypes) and all argument-metadata lists: fromJson(toJson(d)) succeeds and has the same "
          "view (kind, name, byte size, field names in order, enumerators, tuple size, element types) as d; "
          "canBeCastedTo between round-tripped dtypes equals canBeCastedTo between the originals; argMetadata_t / "
          "kernelMetadata_t round-trip.  The executable model (dtype objects with abstract addresses, a JSON tree, "
          "toJson/fromJson/addField/tuple/flattening/isCyclic transcribed) is tied to the C++ by running both on the same "
          "construction scripts and comparing JSON text, views and cast matrices.",
    note="Partial where the code cannot round-trip by design of its JSON form (known findings): names of user-defined "
         "struct/tuple/union/enum dtypes are not serialised, byte sizes given explicitly to an enum/struct are not "
         "serialised, registered non-builtin dtypes lose their identity (cast between two dtypes sharing one changes). "
         "Needs fixes/C11-1..3.patch applied to /repo (byte sizes of struct/tuple/union restored by fromJson; addField/tuple "
         "count referenced dtypes; builtins recognised by identity).  Trusted: Coq kernel, the hand model (differential "
         "tie), extraction incl. ExtrOcamlString, drivers.",
    technique="Coq structural-induction round-trip proof + extracted-model/implementation differential correspondence",
    design_ref="DESIGN.md section 5, C11")

PRIMS = ["bool", "char", "short", "int", "long", "float", "double", "void", "byte"]
ALIASES = ["int8", "uint8", "int16", "uint16", "int32", "uint32", "int64", "uint64"]
VECS = [b + n for b in ("uchar", "char", "ushort", "short", "uint", "int", "ulong", "long", "float", "double") for n in "234"]
FIELDS = ["y", "x", "w", "a", "c", "b", "z", "q", "m", "k"]      # deliberately not in sorted order
CUSTOM_NAMES = ["foo", "bar", "myfloat", "float", "int", "double2", "int8", "none", "", "v3"]
ENUMS = ["red", "green", "blue", "on", "off", "a", "b"]


def rbuiltin(rng):
    x = rng.random()
    if x < 0.55:
        return rng.choice(PRIMS[:7] + ["float", "int", "double"])
    if x < 0.7:
        return rng.choice(ALIASES)
    if x < 0.95:
        return rng.choice(VECS)
    return rng.choice(["void", "byte"])


def gen_case(rng, tier, named=False):
    """A construction script within the theorem's guards unless `named`: composites and enums are anonymous, enums and
    structs start from 0 bytes, only dtypes whose leaves are all builtins are registered."""
    toks = []
    names = []          # defined variables
    comp = set()        # variables that hold a struct/union/tuple/enum (naming them is a known finding)
    pure = set()        # variables whose flattened leaves are all builtins
    nvars = rng.randint(2, 7)
    k = 0

    def new():
        nonlocal k
        k += 1
        return "x%d" % k

    def pick():
        return rng.choice(names)

    for i in range(nvars):
        v = new()
        x = rng.random()
        if not names or x < 0.22:
            toks.append("%s=%s:%s" % (v, rng.choice("bbg"), rbuiltin(rng)))
            pure.add(v)
        elif x < 0.32:
            toks.append("%s=c:%s:%d:0" % (v, rng.choice(CUSTOM_NAMES), rng.choice([0, 1, 4, 7, 8, 12, 16])))
        elif x < 0.62:
            nf = rng.randint(1, 4)
            fs = rng.sample(FIELDS, nf)
            srcs = [pick() for _ in fs]
            body = ",".join("%s=%s*%d" % (f, src, rng.choice([1, 1, 1, 1, 2, 3])) for f, src in zip(fs, srcs))
            nm = rng.choice(["vec", "S", "pt"]) if named else ""
            kind = "s" if rng.random() < 0.75 else "u"
            ispure = all(src in pure for src in srcs)
            reg = 1 if (ispure and rng.random() < 0.2) else 0
            if kind == "s":
                toks.append("%s=s:%s:0:%d:%s" % (v, nm, reg, body))
            else:
                toks.append("%s=u:%s:%d:%s" % (v, nm, reg, body))
            comp.add(v)
            if ispure:
                pure.add(v)
        elif x < 0.78:
            src = pick()
            reg = 1 if (src in pure and rng.random() < 0.15) else 0
            toks.append("%s=t:%s:%d:%d" % (v, src, rng.randint(1, 4), reg))
            comp.add(v)
            if src in pure:
                pure.add(v)
        elif x < 0.86:
            es = rng.sample(ENUMS, rng.randint(1, 4))
            toks.append("%s=e:%s:0:0:%s" % (v, "color" if named else "", ",".join(es)))
            comp.add(v)
        elif x < 0.93:
            src = pick()
            toks.append("%s=y:%s" % (v, src))
            if src in comp:
                comp.add(v)
            if src in pure:
                pure.add(v)
        else:
            src = pick()
            nm = rng.choice(CUSTOM_NAMES) if (named or src not in comp) else ""
            toks.append("%s=n:%s:%s:0" % (v, nm, src))
            if src in comp:
                comp.add(v)
            if src in pure:
                pure.add(v)
        names.append(v)
    if rng.random() < 0.5:
        args = []
        for j in range(rng.randint(0, 4)):
            args.append("%s.%d.%d.%s" % (rng.choice(["a", "b", "ptr", "N", "out"]) + str(j), rng.randint(0, 1),
                                         rng.randint(0, 1), pick()))
        toks.append("K:%s:%s" % (rng.choice(["kern", "addVectors", "k0"]), ",".join(args)))
    for j in range(rng.choice([0, 0, 1, 2])):
        toks.append(gen_edit(rng, pick()))
    return " ".join(toks)


EDITS = ["del@type", "del@name", "del@fields", "del@dtype", "del@size", "del@enumerators", "del@bytes",
         "set@type@s@bogus", "set@type@s@struct", "set@type@s@union", "set@type@s@tuple", "set@type@s@enum",
         "set@type@s@custom", "set@type@s@builtin", "set@type@i@3", "set@name@s@float", "set@name@s@nosuch",
         "set@name@i@5", "set@size@s@three", "set@size@i@2", "set@size@b@1", "set@bytes@i@24", "set@bytes@s@x",
         "set@fields@i@1", "set@fields@s@x", "set@enumerators@i@0",
         "del@fields/0/name", "del@fields/0/dtype", "set@fields/0/name@i@1", "set@fields/1/name@s@%F0",
         "set@fields/0/dtype@i@1", "del@fields/0/dtype/type", "set@fields/0/dtype/type@s@bogus", "del@fields/1",
         "del@enumerators/0/name", "set@enumerators/0/name@i@2", "set@enumerators/1/name@s@%E0", "del@enumerators/0",
         "del@dtype/type", "set@dtype/name@s@nosuch", "set@dtype@s@float"]


def gen_edit(rng, var):
    e = rng.choice(EDITS)
    # %F0 / %E0: the name of the first field / enumerator is unknown here; the common first picks are tried
    e = e.replace("%F0", rng.choice(FIELDS)).replace("%E0", rng.choice(ENUMS))
    return "m:%s:%s" % (var, e)


def gen_cast_case(rng):
    """Dtypes aimed at the case split of canBeCastedTo / isCyclic: a block of 2-3 distinct builtins, k repetitions of it (as
    tuple of the block struct and as flat struct), repetitions with one entry of a later cycle changed at position 0 / at a
    position >= 1, with an entry of the first cycle changed, and a length that is not a multiple.  The cast matrix of the
    case compares every pair in both directions, before and after the round trip."""
    elems = rng.sample(["float", "int", "double", "char", "short", "long", "bool"], rng.choice([2, 2, 3]))
    d = len(elems)
    k = rng.choice([2, 2, 3]) if d == 2 else 2
    toks = ["x%d=b:%s" % (i + 1, e) for i, e in enumerate(elems)]
    alt = rng.choice([e for e in ["float", "int", "double", "char", "short", "long", "bool"] if e not in elems])
    toks.append("x%d=b:%s" % (d + 1, alt))
    var = {e: "x%d" % (i + 1) for i, e in enumerate(elems)}
    var[alt] = "x%d" % (d + 1)
    nxt = [d + 2]

    def struct_of(fl):
        v = "x%d" % nxt[0]
        nxt[0] += 1
        toks.append("%s=s::0:0:%s" % (v, ",".join("%s=%s" % (FIELDS[j % len(FIELDS)] + str(j // len(FIELDS) or ""), var[e])
                                                  for j, e in enumerate(fl))))
        return v

    blk = struct_of(elems)
    v = "x%d" % nxt[0]
    nxt[0] += 1
    toks.append("%s=t:%s:%d:0" % (v, blk, k))                 # tuple of the block: k cycles
    struct_of(elems * k)                                       # the same, spelled out
    late = list(elems * k)
    late[rng.randrange(1, k) * d + rng.randrange(1, d)] = alt   # later cycle, position >= 1
    struct_of(late)
    late0 = list(elems * k)
    late0[rng.randrange(1, k) * d] = alt                       # later cycle, position 0
    struct_of(late0)
    first = list(elems * k)
    first[rng.randrange(d)] = alt                              # the compared prefix
    struct_of(first)
    if rng.random() < 0.5:
        struct_of((elems * k)[:-1])                            # not a multiple
    else:
        struct_of(elems * (k + 1))
    return " ".join(toks)


def fixed_cases():
    """Deterministic batch: every builtin through the round trip, the cast lattice of the builtins, the library's own
    test dtypes (tests/src/dtype.cpp), references counted by addField/tuple."""
    cases = []
    allb = PRIMS + ALIASES + VECS
    for i in range(0, len(allb), 8):
        chunk = allb[i:i + 8]
        cases.append(" ".join("x%d=b:%s" % (j + 1, b) for j, b in enumerate(chunk)))
        cases.append(" ".join("x%d=g:%s" % (j + 1, b) for j, b in enumerate(chunk)))
    for base in ("float", "double", "int", "char"):
        cases.append("x1=b:%s x2=b:%s2 x3=b:%s3 x4=b:%s4 x5=t:x1:6:0 x6=t:x2:2:0 x7=t:x3:2:0 x8=s::0:0:a=x1,b=x1,c=x1*2"
                     % (base, base, base, base))
    cases += [
        "x1=b:double x2=s::0:0:a=x1,b=x1 x3=s::0:0:b=x1,a=x1 x4=s::0:0:a=x1",
        "x1=b:float x2=c:float:7:0 x3=c:float:4:0 x4=s::0:0:a=x2,b=x1",
        "x1=g:int8 x2=g:float x3=s::0:0:x=x1,y=x2*3 x4=t:x2:3:0 x5=t:x1:2:1",
        "x1=b:int x2=b:double x3=u::0:a=x1,b=x2 x4=s::0:0:u=x3,v=x3*2 x5=t:x4:2:0 x6=s::0:0:p=x5,q=x1",
        "x1=b:float x2=s::0:1:x=x1,y=x1 x3=s::0:0:lo=x2,hi=x2 x4=y:x2 x5=t:x2:3:0 K:k:a.1.1.x2,b.0.1.x3,n.0.0.x1",
        "x1=b:int x2=e::0:0:red,green,blue x3=s::0:0:c=x2,n=x1 x4=t:x2:2:0",
        "x1=b:byte x2=b:float x3=t:x1:4:0 x4=t:x2:4:0 x5=s::0:0:a=x1 x6=b:void",
        "x1=c::0:0 x2=c:foo:12:0 x3=y:x2 x4=s::0:0:a=x2 x5=n:bar:x2:0 x6=n:bar:x1:1",
        "x1=b:none x2=b:memory",
        "K:empty:",
        # the case split of isCyclic: {float,int} against {float,int,float,double}, {float,int,float,int}, 3 cycles, late mismatches
        "x1=b:float x2=b:int x3=b:double x4=s::0:0:a=x1,b=x2 x5=s::0:0:a=x1,b=x2,c=x1,d=x3 x6=s::0:0:a=x1,b=x2,c=x1,d=x2 "
        "x7=t:x4:3:0 x8=s::0:0:a=x1,b=x2,c=x1,d=x2,e=x1,f=x3 x9=s::0:0:a=x1,b=x2,c=x3,d=x2 x10=s::0:0:a=x1,b=x3",
    ]
    return cases


# cases outside the theorem's guards: each is a recorded finding (docs/notes/C11.known / known_findings.txt)
KNOWN_CASES = [
    "x1=b:float x2=s:vec2:0:0:x=x1,y=x1",
    "x1=b:float x2=t:x1:3:0 x3=n:triple:x2:0",
    "x1=e:color:0:0:red,green",
    "x1=e::4:0:red,green",
    "x1=b:float x2=s::12:0:a=x1",
    "x1=c:r:8:1 x2=s::0:0:a=x1 x3=s::0:0:b=x1",
    "x1=b:memory x2=y:x1",
]


def view(obs):
    """The oracle: the reconstructed observation equals the original's (same driver, same run)."""
    body = obs[2:]
    if body.strip() in ("BADCASE", ""):      # nothing was built: nothing to compare
        return "R same"
    problems = []
    M = N = None
    for s in body.split(" | "):
        if s.startswith("M="):
            M = s[2:]
        elif s.startswith("N="):
            N = s[2:]
        elif s.startswith("X=") or s.startswith("E="):
            pass
        elif s.startswith("K "):
            m = re.match(r"^K O=(\S+) J=(.*) R=(\S+)$", s)
            if not m:
                problems.append("unparsed " + s[:60])
            elif m.group(1) != m.group(3):
                problems.append("metadata %s came back as %s" % (m.group(1), m.group(3)))
        else:
            m = re.match(r"^(x\d+) O=(\S+) J=(.*) R=(\S+) T=([01])$", s)
            if not m:
                problems.append("unexpected: " + s[:100])
                continue
            if m.group(2) != m.group(4):
                problems.append("%s %s came back as %s" % (m.group(1), m.group(2), m.group(4)))
            if m.group(5) != "1":
                problems.append("%s: fromJson(text) differs from fromJson(tree)" % m.group(1))
    if M is not None and M != N:
        problems.append("cast matrix %s became %s" % (M, N))
    return "R same" if not problems else "R differs: " + "; ".join(problems)


# ---- known-finding signatures: predicates over a (shrunk) failing case ------------------------------------------------
def _defs(case):
    d = {}
    for t in case.split():
        if "=" in t and t[0] == "x":
            n, body = t.split("=", 1)
            d[n] = body.split(":")
    return d


def _is_composite(d, name, seen=()):
    p = d.get(name)
    if not p or name in seen:
        return False
    if p[0] == "s":
        return len(p) == 5 and p[4] != ""
    if p[0] == "e":
        return len(p) == 5 and p[4] != ""
    if p[0] in ("u", "t"):
        return True
    if p[0] in ("y", "n"):
        return _is_composite(d, p[-1] if p[0] == "y" else p[2], seen + (name,))
    return False


def sig_composite_name(case):
    """a user-defined struct/union/enum/tuple dtype that has a name"""
    d = _defs(case)
    for n, p in d.items():
        if p[0] in ("s", "u", "e") and len(p) >= 4 and p[1] != "" and _is_composite(d, n):
            return True
        if p[0] == "n" and len(p) == 4 and p[1] != "" and _is_composite(d, p[2]):
            return True
    return False


def sig_explicit_bytes(case):
    """an enum or struct dtype constructed with an explicit byte size"""
    d = _defs(case)
    for n, p in d.items():
        if p[0] in ("s", "e") and len(p) == 5 and p[4] != "" and p[2] not in ("0", ""):
            return True
    return False


def _fields_of(p):
    body = p[4] if p[0] == "s" else p[3]
    return [f.split("=", 1)[1].split("*")[0] for f in body.split(",") if "=" in f]


def _pure(d, name, seen=()):
    """all flattened leaves are builtin objects (not custom / enum / none / occa::memory)"""
    p = d.get(name)
    if not p or name in seen:
        return False
    seen = seen + (name,)
    if p[0] in ("b", "g"):
        return len(p) == 2 and p[1] not in ("none", "memory")
    if p[0] == "s" and len(p) == 5:
        fs = _fields_of(p)
        return bool(fs) and all(_pure(d, f, seen) for f in fs)
    if p[0] == "u" and len(p) == 4:
        fs = _fields_of(p)
        return bool(fs) and all(_pure(d, f, seen) for f in fs)
    if p[0] == "t" and len(p) == 4:
        return _pure(d, p[1], seen)
    if p[0] == "y" and len(p) == 2:
        return _pure(d, p[1], seen)
    if p[0] == "n" and len(p) == 4:
        return _pure(d, p[2], seen)
    return False


def _registered(d, name, seen=()):
    p = d.get(name)
    if not p or name in seen:
        return False
    if p[0] in ("b", "g"):
        return True
    if p[0] == "c":
        return len(p) == 4 and p[3] == "1"
    if p[0] in ("s", "e"):
        return len(p) == 5 and p[3] == "1"
    if p[0] == "u":
        return len(p) == 4 and p[2] == "1"
    if p[0] == "t":
        return len(p) == 4 and p[3] == "1"
    if p[0] == "n":
        return len(p) == 4 and (p[3] == "1" or _registered(d, p[2], seen + (name,)))
    if p[0] == "y":
        return _registered(d, p[1], seen + (name,))
    return False


def _refs(p):
    if p[0] == "s" and len(p) == 5:
        return _fields_of(p)
    if p[0] == "u" and len(p) == 4:
        return _fields_of(p)
    if p[0] == "t" and len(p) == 4:
        return [p[1]]
    if p[0] == "y" and len(p) == 2:
        return [p[1]]
    if p[0] == "n" and len(p) == 4:
        return [p[2]]
    return []


def sig_registered_identity(case):
    """a registered dtype with a non-builtin leaf (custom, enum, the globals none / occa::memory) reachable from two dtypes"""
    d = _defs(case)
    shared = [n for n in d if _registered(d, n) and not _pure(d, n)]
    globs = [tuple(p) for p in d.values() if p[0] in ("b", "g") and len(p) == 2 and p[1] in ("none", "memory")]
    if len(globs) >= 2 and len(set(g[1] for g in globs)) < len(globs):
        return True
    for n, p in d.items():
        if any(r in shared for r in _refs(p)):
            return True
    return False


SIGNATURES = {"composite_name": sig_composite_name, "explicit_bytes": sig_explicit_bytes,
              "registered_identity": sig_registered_identity}

# Findings proposed by this property that are not (yet) in known_findings.txt are read from docs/notes/C11.known
# (same line format); the integrator merges them.
_orig_load = C.load_known_findings


def _load_known(prop):
    res = _orig_load(prop)
    p = os.path.join(C.VERIF, "docs", "notes", "%s.known" % PROP)
    if prop == PROP and os.path.exists(p):
        have = set(k["signature"] for k in res)
        for line in open(p):
            line = line.strip()
            if not line or line.startswith("#"):
                continue
            parts = [x.strip() for x in line.split("|")]
            if len(parts) >= 4 and parts[0] == PROP and parts[1] not in have:
                res.append(dict(prop=parts[0], signature=parts[1], input=parts[2], what=" | ".join(parts[3:])))
                have.add(parts[1])
    return res


C.load_known_findings = _load_known


def depth_of(v):
    d = m = 0
    for ch in v:
        if ch == "(":
            d += 1
            m = max(m, d)
        elif ch == ")":
            d -= 1
    return m


def setup():
    C.build_driver(PROP, flavour="asan")
    C.build_model(PROP)


def run(run, tier, seed, replay_case=None):
    C.build_lib("asan")
    impl = C.build_driver(PROP, flavour="asan")
    pr = C.coq_properties(PROP, extra_targets=["C11/Extract.vo"])
    run.add_proof(pr, CHECKER)
    run.coverage["trusted_base"] = TRUSTED
    model = C.build_model(PROP)

    rng = random.Random(seed * 7919 + 11)
    n = 1500 if tier == "quick" else 40000
    main = list(C.load_corpus(PROP)) + fixed_cases() + [gen_case(rng, tier) for _ in range(n)]
    main += [gen_cast_case(rng) for _ in range(n // 10)]
    # cases outside the guards (recorded findings): one minimal case per finding in the quick tier
    known = list(KNOWN_CASES) + [gen_case(rng, tier, named=True) for _ in range(0 if tier == "quick" else 12)]
    if replay_case is not None:
        main, known = [replay_case], []
    env = C.lib_env("asan")
    # LeakSanitizer's scan at exit costs ~3 s per process on the instrumented library: batches run with it, the
    # one-case re-runs of the shrinker (hundreds of processes when something is broken) run without it
    env_fast = dict(env)
    env_fast["ASAN_OPTIONS"] = env["ASAN_OPTIONS"].replace("detect_leaks=1", "detect_leaks=0")

    class Diff(C.Differential):
        def eval(self, lines, parallel=True):
            self.env = env if parallel else env_fast
            try:
                return C.Differential.eval(self, lines, parallel)
            finally:
                self.env = env

    D = Diff(run, PROP, [impl], model, env, view=view, signatures=SIGNATURES, keep_first=0,
             model_desc="coq/C11/Model.v vs src/dtype/dtype.cpp + src/occa/internal/lang/kernelMetadata.cpp")
    I, R, S = D.eval(main)
    D.judge(main, I, R, S, proof_failures=pr["failures"], max_report=4)
    if known:
        I2, R2, S2 = D.eval(known)
        D.judge(known, I2, R2, S2, proof_failures=pr["failures"], max_report=4)
        I, R, S = I + I2, R + R2, S + S2
    cases = main + known

    deep = set()
    nvars = 0
    for line in I:
        for s in line[2:].split(" | "):
            m = re.match(r"^(x\d+) O=(\S+) J=(.*) R=(\S+) T=([01])$", s)
            if m:
                nvars += 1
                if depth_of(m.group(2)) >= 3:
                    deep.add(m.group(3))
    cov = run.coverage
    cov["distinct_nontrivial"] = len(deep)
    cov["rule"] = ("seeded construction scripts (2-7 dtypes each, built through dtype_t's public API from builtins, "
                   "references, custom leaves, tuples x1-4, structs/unions of 1-4 fields with tuple sizes 1-3, enums, copies, "
                   "renamed copies; nesting up to depth 5), each dtype round-tripped, cast matrices before/after, optional "
                   "kernelMetadata of 0-4 arguments, 0-2 edited (malformed) JSON trees; plus a fixed batch covering every "
                   "builtin and the library's own test dtypes; non-trivial = a dtype whose view nests at least 3 levels "
                   "(e.g. struct of tuple of builtin); distinct = distinct JSON text of such a dtype")
    cov["dtypes_round_tripped"] = nvars
    cov["metadata_round_trips"] = sum(l.count(" | K O=") + (1 if l.startswith("R K O=") else 0) for l in I)
    cov["malformed_json_cases"] = sum(l.count("E=") for l in I)
    cov["samples"] = [dict(case=cases[i], impl=I[i], model=R[i], spec=S[i]) for i in (0, len(cases) // 2, len(cases) - 1)]
    run.assumptions = ["names are identifiers ([A-Za-z0-9_]*): JSON string escaping is C24's subject",
                       "a dtype_t object is not modified after it has been copied, referenced or cast (no stale flatDtype cache)",
                       "an object has at most one of enum_/struct_/tuple_/union_",
                       "byte sizes and tuple sizes fit in int; tuple sizes >= 1 and unions have >= 1 field in cast matrices "
                       "(an empty flattened list divides by zero in isCyclic: C10's subject)",
                       "the relative oracle compares the reconstructed observation with the original's from the same process"]


def replay(run, path):
    case = C.replay_case_from_file(path)
    if case is None:
        print("no case in replay file")
        return 2
    globals()["run"](run, "quick", run.seed, replay_case=case)
    for s in run.coverage.get("samples", [])[:1]:
        print("replayed: %s\nimplementation: %s\nmodel:          %s\nspecification:  %s (the round trip must reproduce "
              "the original's view and cast matrix)\noracle on the implementation: %s"
              % (s["case"], s["impl"], s["model"], s["spec"], view(s["impl"])))
    return run.finish()
