"""C15 — printing a parsed program preserves its meaning and re-parses identically (DESIGN.md 5/C15)."""
import os, random, re, shutil, subprocess, sys, tempfile
from concurrent.futures import ThreadPoolExecutor
from vlib import common as C
from props import C12 as P12          # operator-table translator, known-findings loader wrapper

PROP = "C15"
CHECKER = ("tools/C12_optable.py, tools/C15_flags.py /repo -> coq/gen/{C12_OpTable,C15_Flags}.v; make -C /verif/coq -k "
           "C15/Properties_C15.vo C15/Extract.vo gen/C12_OpTable.vo gen/C15_Flags.vo  (coqc 8.16.1, full .vo)")
TRUSTED = [
    "Coq 8.16.1 kernel incl. vm_compute; no native_compute",
    "hand transcription of expressionParser.cpp and the expression print methods into coq/C15/Model.v (on top of the C12 "
    "tokenizer model), tied by the differential run of this check (tree, printed text, re-parsed tree, token lists)",
    "coq/C15/Spec.v: the reference precedence-climbing parser with the C++ standard's operator levels written out by hand",
    "tools/C12_optable.py (operator.cpp -> coq/gen/C12_OpTable.v); tools/C15_flags.py (which of the two known forms of "
    "operatorIsLeftUnary's operand test the source has -> coq/gen/C15_Flags.v)",
    "extraction (ExtrOcamlBasic only) + extract/C15/driver.ml + extract/zutil.ml; drivers/C15.cpp",
    "statements/declarations/ternary: tested, not proved (print -> re-parse -> statement dump and second print compared; "
    "original and printed program compiled with g++ and run on the same inputs)",
    "g++ 12 as the C++ reference for program values; ASan+UBSan build of libocca",
]

META = dict(
    level="partial. Coq theorems for the expression fragment {identifiers, literals, parentheses, prefix/postfix unary, "
          "binary operators, calls, subscripts}: see docs/notes/C15.md for the exact list (shunting-yard identity on the "
          "parser's image with the regenerated precedence/associativity table; table_ok: the table's levels are the C++ "
          "standard's; printing is token-preserving; unary_glue_refuted for the code as found). Ternary, sizeof, "
          "declarations, statements and whole programs are covered by correspondence only: print -> re-parse -> canonical "
          "tree/statement dump comparison, and g++ compile-and-run of original vs printed program.",
    note="Model = code after fixes/C15-1..2 and C12-1..5. Trusted: Coq kernel; hand model (differential tie); reference "
         "parser levels; translator; extraction; drivers; g++. Expressions that expressionParser rejects although valid C "
         "(a + -b, f(i++), a ? b ? c : d : e) are outside the property (it is conditional on a successful parse); listed in notes.",
    technique="Coq simulation proof of the shunting-yard on generated operator table + reference-parser specification + "
              "extracted-model/implementation differential correspondence + g++ value comparison",
    design_ref="DESIGN.md section 5, C15")


def hx(b):
    return bytes(b).hex()


def chunks(b):
    return " ".join("%02x" % x for x in b)


# ----------------------------------------------------------------------------- expression grammar
IDS = ["a", "b", "c", "x", "y", "i", "n", "p", "foo", "x1", "_t"]
PRIMS = ["0", "1", "2", "7", "42", "3.5", "1e3f", "0x1F", "10u", "2.", ".5", "1L"]
STRS = ['"s"', '"a\\"b"', '"\\"q"', '""', "'c'", "'\\''", "'\\n'"]
PREFIX = ["!", "~", "-", "+", "*", "&", "++", "--"]
BINARY = [["*", "/", "%"], ["+", "-"], ["<<", ">>"], ["<", "<=", ">", ">="], ["==", "!="], ["&"], ["^"], ["|"], ["&&"], ["||"],
          ["=", "+=", "-=", "*=", "/=", "%=", "&=", "|=", "^=", "<<=", ">>="], [","]]
ALLBIN = [o for lv in BINARY for o in lv]


def g_primary(rng, d):
    x = rng.random()
    if d <= 0 or x < 0.35:
        return rng.choice(IDS)
    if x < 0.5:
        return rng.choice(PRIMS)
    if x < 0.56:
        return rng.choice(STRS)
    if x < 0.75:
        return "(" + g_expr(rng, d - 1) + ")"
    if x < 0.88:
        n = rng.choice([0, 1, 1, 2, 3])
        args = [g_expr(rng, d - 2, nocomma=True) for _ in range(n)]
        callee = rng.choice([rng.choice(IDS), rng.choice(IDS), "(" + g_expr(rng, d - 2) + ")"])
        return callee + "(" + ", ".join(args) + ")"
    if x < 0.96:
        return rng.choice(IDS) + "[" + g_expr(rng, d - 2) + "]"
    return rng.choice(IDS) + rng.choice([".", "->"]) + rng.choice(IDS)


def g_unary(rng, d):
    x = rng.random()
    if d > 0 and x < 0.22:
        inner = g_unary(rng, d - 1)
        sep = " " if inner[0] in "+-&" else rng.choice(["", " "])
        return rng.choice(PREFIX) + sep + inner
    if x < 0.30:
        return g_primary(rng, d) + rng.choice(["++", "--"])
    return g_primary(rng, d)


def g_expr(rng, d, nocomma=False):
    n = rng.choice([1, 1, 2, 2, 3, 4]) if d > 0 else 1
    ops = [o for o in ALLBIN if not (nocomma and o == ",")]
    parts = [g_unary(rng, d - 1)]
    for _ in range(n - 1):
        parts.append(rng.choice(ops))
        parts.append(g_unary(rng, d - 1))
    sp = rng.choice([" ", " ", ""])
    return sp.join(parts) if sp else _join_tight(parts)


def _join_tight(parts):
    """no blanks, except where two operator characters would merge"""
    out = parts[0]
    for p in parts[1:]:
        if out and p and out[-1] in "+-&|<>=*/%^!:." and p[0] in "+-&|<>=*/%^!:.":
            out += " "
        out += p
    return out


def gen_E(rng, tier):
    for _ in range(50):
        s = g_expr(rng, rng.choice([1, 2, 2, 3]))
        if len(s) <= 60 and all(len(a) <= 24 for a in re.split(r"[(),]", s)):
            return "E " + chunks(s.encode())
    return "E " + chunks(b"a + b")


KF_RANDOM = False      # prefixed literals (known finding) at random: thorough tier only


def g_free(rng, d):
    x = rng.random()
    if x < 0.25:
        tail = g_free(rng, d - 1) if rng.random() < 0.3 else None
        return g_expr(rng, d) + " ? " + g_expr(rng, d - 1, nocomma=True) + " : " + (tail or g_expr(rng, d - 1, nocomma=True))
    if x < 0.35:
        return "sizeof(" + g_expr(rng, 1) + ")" + rng.choice(["", " + 1", " * n"])
    if x < 0.42:
        return rng.choice(IDS) + " = {" + ", ".join(rng.choice(PRIMS) for _ in range(rng.randint(1, 3))) + "}"
    if x < 0.5:
        return rng.choice(["::a", "a::b", "a::b::c", "a.b(c)", "p->x[i]", "a.b.c++", "throw x", "(a ? b : c) + 1", "x = y ? 1 : 2"])
    if x < 0.505 and KF_RANDOM:
        return rng.choice(['u8"s"', 'L"w" + 1', "L'c'", 'f(u"a", U"b")', '"km"_k', "'c'_z", 'R"(raw)"'])   # known finding: rare
    if x < 0.7:
        return rng.choice(["- -x", "+ +x", "& &x", "- --x", "+ ++x", "-- -x", "! !x", "~ ~x", "* *p", "- - -x", "a = - -b", "(- -a) * b",
                           "& *p", "* &x", "- +x", "+ -x", "a && & b", "a - (- -b)"])
    return None


def g_soup(rng):
    # token soup with balanced brackets: not C; only "no crash" and the correspondence with the model are required
    toks = [rng.choice(IDS + PRIMS + ALLBIN + PREFIX + ["?", ":", "(", "[", "sizeof", "new", ";", "@", "..."]) for _ in range(rng.randint(1, 8))]
    s, stack = [], []
    for t in toks:
        s.append(t)
        if t in "([":
            stack.append(")" if t == "(" else "]")
        elif stack and rng.random() < 0.4:
            s.append(stack.pop())
    s += reversed(stack)
    return " ".join(s)


def gen_F(rng, tier):
    for _ in range(50):
        s = g_free(rng, 2)
        if s is None:
            return "G " + chunks(g_soup(rng).encode()[:70])
        if len(s) <= 70:
            return "F " + chunks(s.encode())
    return "F " + chunks(b"a ? b : c")


def fixed_cases():
    cs = []
    for o in ALLBIN:
        for o2 in ALLBIN[::3]:
            cs.append("E " + chunks(("a %s b %s c" % (o, o2)).encode()))
    for u in PREFIX:
        cs.append("E " + chunks(("%sa * b" % u).encode()))
        cs.append("E " + chunks(("a = %sb" % u).encode()))
        cs.append("E " + chunks(("a + %sb" % u).encode()))       # rejected by expressionParser (ambiguous + before an operator)
        for u2 in PREFIX:
            cs.append("F " + chunks(("%s %sx" % (u, u2)).encode()))
    for w in ["a++ + b", "a[i]++ - f(x, y)[2]", "(a)(b)[c](d)", "f()", "f(g(h(1)))", "(a, b)", "f((a, b), c)", "a << b + c", "a = b = c",
              "a - b - c", "a / b * c", "-a.b", "*p++", "&a[1]", "(a++)", "f(i++)", "a[i++]", "a * *p", "x, y = 1, z", "!a == b", "a & b == c",
              '"x" "y"', "a ? b : c", "a ? b : c ? d : e", "a ? b ? c : d : e", "sizeof(x)", "sizeof(x) + 1", "(", "a b",
              'L"w" + 1', "'c'_z", "sizeof x"]:
        cs.append(("E " if ref_ok(w) else "F ") + chunks(w.encode()))
    cs.append("G 29")                                        # a lone closing bracket: known finding (crash)
    return cs


def ref_ok(s):
    return not any(k in s for k in ("?", "sizeof", "(a++)", '"x" "y"', "a b", 'L"', "'c'_")) and s != "("


# ----------------------------------------------------------------------------- programs (tested part)
def g_cexpr(rng, d, vars_):
    """unsigned C expression without undefined behaviour and without the shapes the parser rejects"""
    x = rng.random()
    if d <= 0 or x < 0.3:
        return rng.choice(vars_ + ["%du" % rng.choice([0, 1, 2, 3, 5, 7, 10, 255, 65535])])
    if x < 0.4:
        return "(" + g_cexpr(rng, d - 1, vars_) + ")"
    if x < 0.5:
        u = rng.choice(["!", "~", "-", "+"])
        inner = g_cexpr(rng, d - 1, vars_)
        if rng.random() < 0.4:
            u2 = rng.choice(["!", "~", "-", "+"])
            return "(" + u + " " + u2 + "(" + inner + "))"
        return "(" + u + "(" + inner + "))"
    if x < 0.56:
        return "(" + g_cexpr(rng, d - 1, vars_) + " ? " + g_cexpr(rng, d - 1, vars_) + " : " + g_cexpr(rng, d - 1, vars_) + ")"
    if x < 0.6:
        return "sizeof(" + rng.choice(vars_) + ")"
    op = rng.choice(["+", "-", "*", "&", "|", "^", "<", "<=", ">", ">=", "==", "!=", "&&", "||", "/", "%", "<<", ">>"])
    l = g_cexpr(rng, d - 1, vars_)
    r = g_cexpr(rng, d - 1, vars_)
    if r[0] in "!~-+s":                                   # a + -b is rejected by the parser: keep it parenthesised
        r = "(" + r + ")"
    if op in ("/", "%"):
        r = "(" + r + " | 1u)"
    if op in ("<<", ">>"):
        r = "(" + r + " & 7u)"
    return l + " " + op + " " + r


def g_program(rng):
    fs = []
    nf = rng.randint(1, 2)
    for k in range(nf):
        vars_ = ["a", "b", "c", "x"]
        body = ["unsigned int x = %s;" % g_cexpr(rng, 2, ["a", "b", "c"])]
        if rng.random() < 0.6:
            body.append("unsigned int y[4] = {%s};" % ", ".join("%du" % rng.randint(0, 9) for _ in range(4)))
            body.append("for (unsigned int i = 0; i < 4; ++i) { x %s y[i] %s (%s); }" % (
                rng.choice(["+=", "^=", "-="]), rng.choice(["*", "+", "&"]), g_cexpr(rng, 1, vars_ + ["i"])))
        for _ in range(rng.randint(1, 4)):
            z = rng.random()
            if z < 0.3:
                body.append("if (%s) { x %s %s; } else if (%s) { x = %s; } else { x <<= 1; }" % (
                    g_cexpr(rng, 2, vars_), rng.choice(["+=", "-=", "*=", "|=", "&=", "^="]), g_cexpr(rng, 1, vars_),
                    g_cexpr(rng, 1, vars_), g_cexpr(rng, 2, vars_)))
            elif z < 0.45:
                body.append("{ unsigned int k = b & 3u; while (k-- > 0) { x += k * (%s); if (x %% 7u == 0) break; } }" % g_cexpr(rng, 1, vars_))
            elif z < 0.55 and not any(s.startswith("do ") for s in body):
                # at most one do-while per function: a second one makes parser_t read a freed blockStatement
                # (heap-use-after-free in keywords_t::get under ASan; outside this property, see docs/notes/C15.md)
                body.append("do { x = x / 2u + ((%s) & 15u); } while (x > 1000u);" % g_cexpr(rng, 1, ["a", "b", "c"]))
            elif z < 0.7:
                body.append("switch (c & 3u) { case 0: x += 1u; break; case 1: x -= 2u; default: x *= 3u; }")
            elif z < 0.8:
                body.append("x = (unsigned int) '%s' + x;" % rng.choice(["a", "\\'", "\\n", "0"]))
            else:
                body.append("x = %s;" % g_cexpr(rng, 3, vars_))
        body.append("return %s;" % g_cexpr(rng, 2, vars_))
        fs.append("unsigned int f%d(unsigned int a, unsigned int b, unsigned int c) {\n  %s\n}\n" % (k, "\n  ".join(body)))
    return "\n".join(fs), nf


HARNESS = """
#include <stdio.h>
int main() {
  unsigned int in[6] = {0u, 1u, 2u, 3u, 7u, 4000000000u};
  for (int i = 0; i < 6; ++i) for (int j = 0; j < 6; ++j) for (int k = 0; k < 6; ++k) {
    %s
  }
  return 0;
}
"""


def run_gpp(src, nf, workdir, tag):
    path = os.path.join(workdir, tag + ".cpp")
    exe = os.path.join(workdir, tag)
    calls = " ".join('printf("%%u\\n", f%d(in[i], in[j], in[k]));' % k for k in range(nf))
    with open(path, "w") as f:
        f.write(src + HARNESS % calls)
    rc, out, err = C.sh(["g++", "-O0", "-w", "-o", exe, path], timeout=120)
    if rc != 0:
        return None, "g++ failed: " + err[-400:]
    rc, out, err = C.sh([exe], timeout=60)
    if rc != 0:
        return None, "program exited with %d" % rc
    return out, None


def check_programs(run, impl, env, progs, workdir):
    """P cases: statement dump and second print must be reproduced; g++ values of original and printed agree."""
    cases = ["P " + chunks(p.encode()) for p, _ in progs]
    outs = C.run_impl_isolating([impl], cases, env=env, timeout=900)
    checked = 0

    def one(ix):
        (src, nf), case, o = progs[ix], cases[ix], outs[ix]
        if o.startswith("R P ERR") and "|" not in o:
            return None                                    # not parsed: outside the property
        parts = o[4:].split("|")
        if "CRASH" in o or len(parts) < 4:
            return (case, "implementation: " + o[:400], "a parsed program prints and re-parses without a crash")
        d1, printed, d2, printed2 = parts[0], parts[1], parts[2], parts[3].split(" ")[0]
        if d2 == "ERR":
            return (case, "the printed program does not parse:\n" + bytes.fromhex(printed).decode("latin1"), "printed source parses")
        if d1 != d2 or printed != printed2:
            return (case, "statement dump / second print differ\nprinted:\n%s\nprinted again:\n%s" % (
                bytes.fromhex(printed).decode("latin1"), bytes.fromhex(printed2).decode("latin1")), "re-parsed tree identical")
        a, ea = run_gpp(src, nf, workdir, "o%d" % ix)
        b, eb = run_gpp(bytes.fromhex(printed).decode("latin1"), nf, workdir, "p%d" % ix)
        if ea is not None:
            return (case, "generator produced a program g++ rejects: " + ea, "GENERATOR")
        if eb is not None:
            return (case, "printed program: " + eb + "\n" + bytes.fromhex(printed).decode("latin1"), "printed program compiles and runs")
        if a != b:
            return (case, "g++ values differ between the original and the printed program\nprinted:\n" +
                    bytes.fromhex(printed).decode("latin1"), "same values")
        return "ok"

    with ThreadPoolExecutor(max_workers=4) as ex:
        res = list(ex.map(one, range(len(progs))))
    bad = [r for r in res if isinstance(r, tuple)]
    checked = sum(1 for r in res if r == "ok")
    for case, what, req in bad[:6]:
        content = ("property %s fails on the implementation built from /repo (program check)\ncase: %s\n%s\nrequired: %s\n"
                   "replay: ./check %s --replay <this file>\n" % (PROP, case, what, req, PROP))
        run.violation("program print/re-parse/g++ check: " + what.splitlines()[0][:120], content)
    return len(progs), checked, sum(1 for r in res if r is None)


# ----------------------------------------------------------------------------- views, signatures
def view(obs):
    if obs.startswith("R E "):
        body = obs[4:]
        if body in ("ERR", "PAIR"):
            return "R E UNPARSEABLE"
        p = body.split("|")
        if len(p) == 5 and p[3] == p[4]:
            return "R E %s|%s" % (p[0], p[2])
        return obs
    if obs.startswith("R F "):
        body = obs[4:]
        if body in ("ERR", "PAIR"):
            return "R F RT"
        p = body.split("|")
        if len(p) == 5 and p[0] == p[2] and p[3] == p[4]:
            return "R F RT"
        return obs
    if obs.startswith("R G "):
        # token soups are not C: the parser accepts some of them (operators after their operands) and builds trees whose
        # printed form means something else; only "no crash" and model == implementation are required
        return "R G RT"
    return obs


def _src(case):
    t = case.split()
    try:
        return bytes.fromhex("".join(t[1:])).decode("latin1")
    except ValueError:
        return ""


def sig_literal_prefix(case):
    s = _src(case)
    return bool(re.search(r"(u8|u|U|L|R)['\"]", s) or re.search(r"['\"]_[A-Za-z0-9_]*", s))


def sig_sizeof_bare(case):
    return bool(re.search(r"sizeof\s+[A-Za-z_0-9]", _src(case)))


def sig_unbalanced_closer(case):
    depth = 0
    for ch in _src(case):
        if ch in "([{":
            depth += 1
        elif ch in ")]}":
            depth -= 1
            if depth < 0:
                return True
    return False


SIGNATURES = {"literal_prefix_lost": sig_literal_prefix, "sizeof_without_parentheses": sig_sizeof_bare,
              "unbalanced_closer": sig_unbalanced_closer}


def nontrivial(case):
    return len(case.split()) >= 6


def pregen():
    P12.pregen()
    sys.path.insert(0, os.path.join(C.VERIF, "tools"))
    import C15_flags
    try:
        C15_flags.generate(C.REPO, os.path.join(C.COQ, "gen", "C15_Flags.v"))
    except C15_flags.Refuse as e:
        raise C.CheckError("tools/C15_flags.py refuses %s/src/occa/internal/lang/expr/expressionParser.cpp: %s" % (C.REPO, e))


def setup():
    C.build_driver("C15", flavour="asan")
    C.build_model(PROP)


def run(run, tier, seed, replay_case=None):
    C.build_lib("asan")
    impl = C.build_driver("C15", flavour="asan")
    pregen()
    pr = C.coq_properties(PROP, dirs=[PROP, "C12", "lib"], extra_targets=["C15/Extract.vo"], gen_targets=["gen/C12_OpTable.vo", "gen/C15_Flags.vo"])
    run.add_proof(pr, CHECKER)
    run.coverage["trusted_base"] = TRUSTED
    model = C.build_model(PROP)

    rng = random.Random(seed * 7919 + 15)
    global KF_RANDOM
    KF_RANDOM = (tier != "quick")
    corpus = C.load_corpus(PROP)
    ne, nf, npg = (1000, 450, 10) if tier == "quick" else (6000, 3000, 50)
    cases = [c for c in corpus if not c.startswith("P ")] + fixed_cases()
    cases += [gen_E(rng, tier) for _ in range(ne)]
    cases += [gen_F(rng, tier) for _ in range(nf)]
    progs = [(bytes.fromhex("".join(c.split()[1:])).decode("latin1"), 1) for c in corpus if c.startswith("P ")]
    progs += [g_program(rng) for _ in range(npg)]
    if replay_case is not None:
        if replay_case.startswith("P "):
            src = bytes.fromhex("".join(replay_case.split()[1:])).decode("latin1")
            cases, progs = [], [(src, len(re.findall(r"unsigned int f\d+\(", src)) or 1)]
        else:
            cases, progs = [replay_case], []
    env = C.lib_env("asan")
    env["ASAN_OPTIONS"] = env["ASAN_OPTIONS"].replace("detect_leaks=1", "detect_leaks=0")   # parse errors leak by design of the parser; C15 is not about leaks
    # loaders/typeLoader.cpp:94 casts a cloned typeToken to identifierToken* (C-style downcast, undefined behaviour that
    # UBSan's vptr check stops at) whenever an expression contains a cast; not C15's subject: reported in docs/notes/C15.md
    supp = os.path.join(C.WORK, "C15-ubsan.supp")
    with open(supp, "w") as f:
        f.write("vptr_check:occa::lang::typeToken\nvptr_check:typeToken\n")
    env["UBSAN_OPTIONS"] = env["UBSAN_OPTIONS"] + ":suppressions=" + supp

    if cases:
        D = C.Differential(run, PROP, [impl], model, env, view=view, signatures=SIGNATURES, keep_first=1,
                           model_desc="coq/C15/Model.v (fixed variant) vs expressionParser.cpp and the expression print methods")
        I, R, S = D.eval(cases)
        D.judge(cases, I, R, S, proof_failures=pr["failures"])
    else:
        I, R, S = [], [], []

    cov = run.coverage
    if progs:
        wd = tempfile.mkdtemp(prefix="c15-", dir=os.path.join(C.WORK))
        try:
            total, ok, unparsed = check_programs(run, impl, env, progs, wd)
        finally:
            shutil.rmtree(wd, ignore_errors=True)
        cov["programs"] = total
        cov["program_checks"] = dict(generated=total, printed_reparsed_and_values_equal=ok, rejected_by_parser=unparsed)
        cov["evaluations"] = cov.get("evaluations", 0) + total
    cov["distinct_nontrivial"] = len(set(c for c in cases if nontrivial(c))) + len(progs)
    cov["rule"] = ("E: expressions drawn from the reference C grammar (all binary operators, prefix/postfix unary, parentheses, calls, "
                   "subscripts, member access, literals incl. escaped quotes) with varied spacing: tree must equal the reference "
                   "parser's tree and the tree of the printed text; F: ternaries, sizeof, initialiser lists, scope operators, "
                   "prefixed literals, nested unary operators, balanced token soups: tree and token list of the printed text must "
                   "equal the original's; P: generated C functions (declarations, for/while/do/if/switch, ternary, casts): statement "
                   "dump and second print reproduced, g++ values of original and printed program equal on 216 inputs. "
                   "non-trivial = at least five source bytes; distinct = distinct case text")
    cov["case_kinds"] = dict(E=sum(1 for c in cases if c.startswith("E ")), F=sum(1 for c in cases if c.startswith("F ")), G=sum(1 for c in cases if c.startswith("G ")), P=len(progs))
    if cases:
        pick = [0, len(cases) // 2, len(cases) - 1]
        cov["samples"] = [dict(case=cases[i][:200], impl=I[i][:300], model=R[i][:300], spec=S[i][:300]) for i in pick]
        cov["unparseable"] = sum(1 for x in I if x.endswith(" ERR") or x.endswith(" PAIR"))
    run.assumptions = ["the property is conditional on a successful parse: sources that expressionParser rejects are counted, not failed",
                       "call arguments stay below the printer's line-wrapping widths (30/80 columns)",
                       "programs avoid undefined behaviour (unsigned arithmetic, guarded divisors and shift counts)",
                       "the model describes the code after fixes/C12-1..5.patch and fixes/C15-1..2.patch"]


def replay(run, path):
    case = C.replay_case_from_file(path)
    if case is None:
        print("no case in replay file")
        return 2
    globals()["run"](run, "quick", run.seed, replay_case=case)
    for s in run.coverage.get("samples", [])[:1]:
        print("replayed: %s\nimplementation: %s\nmodel:          %s\nspecification:  %s" % (s["case"], s["impl"], s["model"], s["spec"]))
    return run.finish()
